#!/bin/bash
# usage: confirm_seed.sh <agent-out-dir (contains patch.diff demo.cpp run.sh notes.md)> <seed-id> <property>
# Confirms independently, in a fresh scratch worktree of /repo: demo passes on the clean tree; with the patch the
# project builds (-Werror), ctest passes, demo fails.  On success copies the seed to /verif/seeded/<seed-id>/.
set -u
SRC=$1; ID=$2; PROP=$3
WT=/tmp/cs-$ID
LOG=/tmp/cs-$ID.log
exec >$LOG 2>&1
git -C /repo worktree remove --force $WT 2>/dev/null; rm -rf $WT
git -C /repo worktree add -q --detach $WT HEAD || exit 9
cd $WT
cmake -G Ninja -B _build -S . -DCMAKE_BUILD_TYPE=RelWithDebInfo >/dev/null && cmake --build _build -j6 >/dev/null || { echo "CLEAN BUILD FAILED"; exit 8; }
bash $SRC/run.sh $WT; clean_rc=$?
echo "== demo on clean tree rc=$clean_rc"
git apply $SRC/patch.diff || { echo "PATCH DOES NOT APPLY"; exit 7; }
cmake --build _build -j6 > build.log 2>&1; build_rc=$?
echo "== build with patch rc=$build_rc"; tail -3 build.log
ctest --test-dir _build --timeout 900 > ctest.log 2>&1; ctest_rc=$?
echo "== ctest with patch rc=$ctest_rc"; tail -4 ctest.log
bash $SRC/run.sh $WT; mut_rc=$?
echo "== demo on patched tree rc=$mut_rc"
ok=0
if [ $clean_rc -eq 0 ] && [ $build_rc -eq 0 ] && [ $ctest_rc -eq 0 ] && [ $mut_rc -ne 0 ]; then ok=1; fi
if [ $ok -eq 1 ]; then
  D=/verif/seeded/$ID; mkdir -p $D
  cp $SRC/patch.diff $D/patch.diff; cp $SRC/run.sh $D/run.sh; cp $SRC/notes.md $D/notes.md
  for f in $SRC/demo*.cpp $SRC/*.h $SRC/*.py; do [ -f "$f" ] && cp "$f" $D/; done
  python3 - "$D" "$ID" "$PROP" "$clean_rc" "$build_rc" "$ctest_rc" "$mut_rc" <<'PY'
import json,sys,re
d,i,p,c,b,t,m=sys.argv[1:]
notes=open(d+'/notes.md').read()
files=sorted(set(re.findall(r'^\+\+\+ b/(\S+)',open(d+'/patch.diff').read(),re.M)))
meta={'id':i,'breaks_property':p,'files_touched':files,
 'origin':'independent sub-agent given only the property text and a scratch worktree',
 'needs_to_manifest':'see notes.md',
 'confirmed':{'what_was_run':'fresh scratch worktree of /repo HEAD: cmake+ninja build, run.sh on clean tree, git apply patch.diff, rebuild with -Werror, ctest, run.sh on patched tree',
   'demo_rc_clean_tree':int(c),'build_rc_with_patch':int(b),'ctest_rc_with_patch':int(t),'demo_rc_with_patch':int(m)},
 'detected_by':[]}
json.dump(meta,open(d+'/meta.json','w'),indent=1)
PY
  echo "CONFIRMED -> $D"
else
  echo "NOT CONFIRMED"
fi
cd /; git -C /repo worktree remove --force $WT; rm -rf $WT
exit $((1-ok))
