#!/usr/bin/env python3
"""Writes tsa/tables/vocabulary.json: the qualified names of all functions of the tree the rules were written against.
tsa/normalize.py inlines calls to functions that are NOT in this list (helpers introduced by later refactorings), so that
the rules keep seeing the constructs they are anchored in.  Regenerate only deliberately (when rules are re-anchored)."""
import json, os, sys
HERE = os.path.dirname(os.path.dirname(os.path.abspath(__file__)))
sys.path.insert(0, HERE)
from tsa import facts
from tsa.normalize import vocab_key
F = facts.load()
rep = F.get('normalize', {})
if rep.get('inlined_helpers'):
    sys.exit('refusing: the current tree has helpers outside the vocabulary: %s' % rep['inlined_helpers'][:5])
names = sorted({vocab_key(f['qname']) for f in F['functions'].values()})
from tsa.astq import walk
locs = {}
for fid, f in F['functions'].items():
    root = F['functions'].get(fid.split('::<lambda@', 1)[0], f)
    key = vocab_key(root['qname'])
    for n in walk(f.get('body')):
        if n.get('k') == 'var' and n.get('name'):
            locs.setdefault(key, set()).add(str(n['name']).split('@')[0])
locs = {k: sorted(v) for k, v in sorted(locs.items())}
json.dump({'_comment': 'qualified function names of the pinned tree (+ fix commits); see tsa/normalize.py',
           'functions': names, 'locals': locs}, open(os.path.join(HERE, 'tsa', 'tables', 'vocabulary.json'), 'w'), indent=0)
print(len(names), 'names')
