BASELINE_OFF = "rm -rf /tmp/teakra-baseline-off && cmake -G Ninja -S /repo -B /tmp/teakra-baseline-off -DCMAKE_BUILD_TYPE=RelWithDebInfo >/dev/null && cmake --build /tmp/teakra-baseline-off -j16 >/dev/null && ctest --test-dir /tmp/teakra-baseline-off -j8 --timeout 900; rc=$?; rm -rf /tmp/teakra-baseline-off; exit $rc"
SOURCE_COMMITS = []
NOTES = ("All checks are static analyses (no teakra code is executed, linked, symbolically executed or handed to a solver). "
         "Exit codes: 0 held / 1 new violation (VIOLATION line) / 2 analysis broken (tree does not compile, anchor vanished, "
         "rule matched fewer instances than its floor). Facts are extracted from the current working tree on every run and cached "
         "by content hash under /verif/.cache. ./check --selftest validates the checkers against mutation patches in selftest/ and seeded/.")
CHECKS = {
 'C02': dict(level='proof', technique='static analysis: exhaustive enumeration of the compiler-instantiated decode table + AST shape rules',
   text='Complete enumeration: all 65536 first words against every entry of the decode table as instantiated by clang for each of the three visitors (uniqueness, length flag, unused-bit disjointness), with AST shape rules proving that the run-time matcher, dispatcher, disassembler/parser and the interpreter fetch loop use exactly that table and predicate. Obligations are counted and all discharged by evaluation; this is the right level because the statement is a finite fact about compile-time constants plus a handful of small functions.',
   note='Trusted: clang front end/constant evaluator (same -std/headers as the build), tsa-extract, the python evaluator, std::find_if/none_of semantics. Not decided: nothing of the statement except that "several start addresses" is covered by showing addresses do not enter decoding.'),
}
NOT_APPLICABLE = {}
