#!/usr/bin/env python3
"""mk_selftest.py <name> <check> <rule> <file> <old> <new> [description]
Creates selftest/<name>/{patch.diff,meta.json}: a one-site mutation of /repo HEAD the named rule must report."""
import json, os, subprocess, sys, tempfile
name, check, rule, path, old, new = sys.argv[1:7]
desc = sys.argv[7] if len(sys.argv) > 7 else ''
HERE = os.path.dirname(os.path.dirname(os.path.abspath(__file__)))
wt = tempfile.mkdtemp(prefix='mkst-'); os.rmdir(wt)
subprocess.check_call(['git', '-C', '/repo', 'worktree', 'add', '-q', '--detach', wt, 'HEAD'])
try:
    p = os.path.join(wt, path)
    s = open(p).read()
    assert s.count(old) == 1, 'pattern occurs %d times' % s.count(old)
    open(p, 'w').write(s.replace(old, new))
    diff = subprocess.check_output(['git', '-C', wt, 'diff']).decode()
    d = os.path.join(HERE, 'selftest', name)
    os.makedirs(d, exist_ok=True)
    open(os.path.join(d, 'patch.diff'), 'w').write(diff)
    json.dump({'id': name, 'kind': 'selftest mutation (written by hand to exercise one rule instance)', 'description': desc,
               'expect': [{'check': check, 'rule': rule}]}, open(os.path.join(d, 'meta.json'), 'w'), indent=1)
    print('selftest/%s written' % name)
finally:
    subprocess.call(['git', '-C', '/repo', 'worktree', 'remove', '--force', wt])
