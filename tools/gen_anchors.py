#!/usr/bin/env python3
"""Writes tsa/tables/anchors.json: per property, the data members (record -> field names) of the pinned tree that its rules
refer to by name.  ./check verifies that they still exist before a property's rules run: a renamed or removed member is
`analysis broken` (exit 2, "anchor field vanished"), never a violation reported by a rule that silently stopped matching.
Regenerate only deliberately (when rules are re-anchored)."""
import json, os, sys
HERE = os.path.dirname(os.path.dirname(os.path.abspath(__file__)))
sys.path.insert(0, HERE)
from tsa import facts
F = facts.load()
R = F['records']
ALL = '*'
SPEC = {
    'C01': {'Teakra::RegisterState': ALL},
    'C02': {'Teakra::Interpreter': ['decoders'], 'Matcher<Teakra::Interpreter>': ALL, 'Rejector': ALL},
    'C03': {'Teakra::RegisterState': ALL}, 'C04': {'Teakra::RegisterState': ALL},
    'C05': {'Teakra::ParserImpl': ALL, 'Teakra::ParserImpl::Node': ALL},
    'C06': {'Teakra::CoreTiming': ALL, 'Teakra::Timer': ALL, 'Teakra::Btdmp': ALL, 'Teakra::Interpreter': ['idle', 'core_timing', 'regs', 'mem']},
    'C07': {'Teakra::ICU': ALL, 'Teakra::Interpreter': ['interrupt_pending', 'vinterrupt_pending', 'vinterrupt_context_switch', 'vinterrupt_address', 'regs'],
            'Teakra::RegisterState': ALL},
    'C08': {'Teakra::RegisterState': ALL}, 'C09': {'Teakra::RegisterState': ALL, 'Teakra::RegisterState::BlockRepeatFrame': ALL},
    'C10': {'Teakra::RegisterState': ALL},
    'C11': {'Teakra::SharedMemory': ALL, 'Teakra::MemoryInterface': ALL, 'Teakra::MemoryInterfaceUnit': ALL},
    'C12': {'Teakra::MMIORegion::Impl': ALL, 'Teakra::Cell': ALL, 'Teakra::BitFieldSlot': ALL, 'Teakra::Dma': ALL, 'Teakra::Dma::Channel': ALL,
            'Teakra::MemoryInterface': ALL, 'Teakra::MemoryInterfaceUnit': ALL},
    'C13': {'Teakra::Dma': ALL, 'Teakra::Dma::Channel': ALL, 'Teakra::Ahbm': ALL, 'Teakra::Ahbm::Channel': ALL},
    'C14': {'Teakra::DataChannel': ALL, 'Teakra::Apbp::Impl': ALL},
    'C15': {'Teakra::Timer': ALL}, 'C16': {'Teakra::Btdmp': ALL},
    'C17': {}, 'C18': {'Teakra::RegisterState': ALL, 'Teakra::SharedMemory': ALL, 'Teakra::Interpreter': ['decoders']},
    'C19': {'Teakra::DataChannel': ALL, 'Teakra::Apbp::Impl': ALL, 'Teakra::ICU': ALL,
            'Teakra::Interpreter': ['interrupt_pending', 'vinterrupt_pending', 'vinterrupt_context_switch', 'vinterrupt_address']},
    'C20': {'Teakra::RegisterState': ALL},
}
out = {}
for prop, recs in SPEC.items():
    out[prop] = {}
    for rn, fields in recs.items():
        rec = R.get(rn)
        if rec is None:
            sys.exit('record %s not found' % rn)
        names = [fl['name'] for fl in rec['fields']]
        if fields == ALL:
            out[prop][rn] = names
        else:
            missing = [x for x in fields if x not in names]
            if missing:
                sys.exit('%s lacks %s' % (rn, missing))
            out[prop][rn] = fields
json.dump({'_comment': 'data members the rules of each property refer to by name (pinned tree); see tools/gen_anchors.py', 'anchors': out},
          open(os.path.join(HERE, 'tsa', 'tables', 'anchors.json'), 'w'), indent=0)
print({k: sum(len(v) for v in d.values()) for k, d in out.items()})
