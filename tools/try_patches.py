#!/usr/bin/env python3
"""tools/try_patches.py <dir-with-subdirs-containing-patch.diff> [name-prefix ...]

Runs every registered check (quick tier) against every patch (scratch worktree of /repo HEAD + patch, evidence redirected to
a scratch directory) and prints, per patch, the checks that exit non-zero with the rules they name.  Used for the
behaviour-preserving refactorings under benign/ (every check must stay silent) and for ad-hoc patches."""
import json, os, re, shutil, subprocess, sys, tempfile
from concurrent.futures import ThreadPoolExecutor
HERE = os.path.dirname(os.path.dirname(os.path.abspath(__file__)))
CHECKS = [c['property_id'] for c in json.load(open(os.path.join(HERE, 'MANIFEST.json')))['checks']]


def sh(cmd, **kw):
    return subprocess.run(cmd, stdout=subprocess.PIPE, stderr=subprocess.STDOUT, text=True, **kw)


def one(d):
    name = os.path.basename(d)
    wt = tempfile.mkdtemp(prefix='tsa-tp-'); os.rmdir(wt)
    evd = tempfile.mkdtemp(prefix='tsa-tpe-')
    sh(['git', '-C', '/repo', 'worktree', 'add', '-q', '--detach', wt, 'HEAD'])
    try:
        r = sh(['git', '-C', wt, 'apply', os.path.join(d, 'patch.diff')])
        if r.returncode:
            return name, None, 'patch does not apply: ' + r.stdout[-200:]
        env = dict(os.environ, VERIF_REPO=wt, VERIF_EVIDENCE_DIR=evd)
        out = []
        for c in CHECKS:
            r = sh([os.path.join(HERE, 'check'), c, '--tier', os.environ.get('TIER', 'quick')], env=env)
            if r.returncode:
                lines = [l for l in r.stdout.splitlines() if re.search(r'\[C\d+\.[A-Z0-9]+\]|broken|BROKEN|Traceback|Error', l)]
                out.append((c, r.returncode, lines[:6] or r.stdout.strip().splitlines()[-3:]))
        return name, out, ''
    finally:
        sh(['git', '-C', '/repo', 'worktree', 'remove', '--force', wt])
        shutil.rmtree(evd, ignore_errors=True)


base = os.path.abspath(sys.argv[1])
dirs = [os.path.join(base, n) for n in sorted(os.listdir(base))
        if os.path.exists(os.path.join(base, n, 'patch.diff')) and (len(sys.argv) < 3 or any(n.startswith(a) for a in sys.argv[2:]))]
bad = 0
results = {}
with ThreadPoolExecutor(max_workers=int(os.environ.get('JOBS', '4'))) as ex:
    for name, out, info in ex.map(one, dirs):
        results[name] = 'error' if out is None else ('silent' if not out else {c: rc for c, rc, lines in out})
        if out is None:
            print('%-14s ERROR %s' % (name, info)); bad += 1
        elif not out:
            print('%-14s silent' % name)
        else:
            bad += 1
            for c, rc, lines in out:
                print('%-14s %s rc=%d' % (name, c, rc))
                for l in lines:
                    print('      ' + l[:260])
        sys.stdout.flush()
if os.environ.get('RESULTS'):
    json.dump(results, open(os.environ['RESULTS'], 'w'), indent=0, sort_keys=True)
sys.exit(1 if bad else 0)
