#!/usr/bin/env python3
"""Regenerates tsa/tables/floors.json from the evidence of a clean run on the pinned tree:
floor(rule) = max(1, floor(0.8 * instances)).  Run all checks first (./check all)."""
import json, os, glob
HERE = os.path.dirname(os.path.dirname(os.path.abspath(__file__)))
floors = {}
for p in sorted(glob.glob(os.path.join(HERE, 'evidence', 'C*.json'))):
    ev = json.load(open(p))
    for rid, r in ev['coverage'].get('rules', {}).items():
        floors[rid] = max(1, int(0.8 * r['instances']))
json.dump({'_comment': 'minimum instance count per rule (80% of the count measured on the pinned tree); a rule matching fewer constructs is reported as analysis broken (exit 2), never as a pass', 'floors': floors},
          open(os.path.join(HERE, 'tsa', 'tables', 'floors.json'), 'w'), indent=1, sort_keys=True)
print(len(floors), 'floors written')
