#!/bin/bash
# usage: try_seed.sh <seed-dir-with-patch.diff> <check-id>...   -> runs the checks against /repo HEAD + patch in a scratch worktree
SEED=$(realpath $1); shift
WT=$(mktemp -d /tmp/ts-XXXXXX); rmdir $WT
git -C /repo worktree add -q --detach $WT HEAD || exit 9
if git -C $WT apply $SEED/patch.diff 2>/dev/null; then :
elif [ -f $SEED/patch.rebased.diff ] && git -C $WT apply $SEED/patch.rebased.diff 2>/dev/null; then echo "(applied patch.rebased.diff)"
else echo "PATCH DOES NOT APPLY to HEAD"; git -C /repo worktree remove --force $WT; exit 7; fi
rc=0
for c in "$@"; do
  VERIF_REPO=$WT /verif/check $c --tier quick > $WT.out 2>&1; r=$?
  echo "== $c rc=$r"; grep -v "^VIOLATION" $WT.out | cut -c1-400 | head -${TRY_LINES:-6}
  [ $r -gt $rc ] && rc=$r
done
rm -f $WT.out
git -C /repo worktree remove --force $WT
exit $rc
