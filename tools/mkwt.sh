#!/bin/sh
# tools/mkwt.sh <patch-dir> : scratch worktree of /repo HEAD with the patch applied; prints its path
set -e
WT=$(mktemp -d /tmp/tsa-dbg-XXXXXX); rmdir $WT
git -C /repo worktree add -q --detach $WT HEAD
git -C $WT apply $(realpath $1)/patch.diff
echo $WT
