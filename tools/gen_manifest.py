#!/usr/bin/env python3
"""Regenerates /verif/MANIFEST.json from tools/manifest_data.py (claimed checks) + properties.jsonl."""
import json, os, sys
HERE = os.path.dirname(os.path.dirname(os.path.abspath(__file__)))
sys.path.insert(0, os.path.join(HERE, 'tools'))
import manifest_data as md
props = [json.loads(l) for l in open(os.path.join(HERE, 'properties.jsonl'))]
ids = [p['id'] for p in props]
checks = []
for pid in ids:
    c = md.CHECKS.get(pid)
    if not c or not os.path.exists(os.path.join(HERE, 'tsa', 'rules', pid.lower() + '.py')):
        continue
    checks.append({
        'property_id': pid,
        'quick_cmd': './check %s --tier quick' % pid,
        'thorough_cmd': './check %s --tier thorough' % pid,
        'evidence_file': 'evidence/%s.json' % pid,
        'replay_cmd_template': './check %s --replay {path}' % pid,
        'engine': 'tsa',
        'level_claimed': {'category': c['level'], 'text': c['text'], 'design_ref': 'DESIGN.md §3 ' + pid},
        'level_note': c['note'],
        'technique': c['technique'],
    })
claimed = {c['property_id'] for c in checks}
na = [{'property_id': pid, 'reason': md.NOT_APPLICABLE.get(pid, 'check not implemented yet in this tree; see DESIGN.md §3 %s for the planned static rules' % pid)}
      for pid in ids if pid not in claimed]
m = {
    'version': 1,
    'setup_cmd': 'make -C tsa/extract tsa-extract',
    'hooks': {
        'guard': 'TEAKRA_VERIF',
        'enable': 'none needed: the checks are static analyses of the unmodified sources; no instrumentation is compiled in',
        'baseline_off_cmd': md.BASELINE_OFF,
        'source_commits': md.SOURCE_COMMITS,
        'add_only': True,
    },
    'engines': [{'name': 'tsa', 'path': 'tsa/', 'serves_properties': sorted(claimed),
                 'kind_free_text': 'custom static analysis: libTooling fact extractor (clang 14 resolved AST, template instantiations, constant evaluation) + facts normal form (helper inlining, alias / temporary folding, loop and atomic forms) + python rule engine (finite-table enumeration, effect summaries with constant propagation, guarded per-function summaries compared up to propositional equivalence, structured dataflow, sibling comparison, interval/width analysis, lockset) + compile-time witnesses in the thorough tier'}],
    'checks': checks,
    'notes': md.NOTES,
    'not_applicable': na,
}
json.dump(m, open(os.path.join(HERE, 'MANIFEST.json'), 'w'), indent=1)
print('MANIFEST.json: %d checks, %d not_applicable' % (len(checks), len(na)))
