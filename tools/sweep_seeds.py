#!/usr/bin/env python3
"""Runs every registered check against every seeded / selftest mutation (scratch worktree of /repo HEAD + patch) and records in
meta.json which checks and rules report it (detected_by) and, for seeds, an `expect` entry for the selftest."""
import json, os, re, subprocess, sys, tempfile
from concurrent.futures import ThreadPoolExecutor
HERE = os.path.dirname(os.path.dirname(os.path.abspath(__file__)))
CHECKS = [c['property_id'] for c in json.load(open(os.path.join(HERE, 'MANIFEST.json')))['checks']]

def sh(cmd, **kw):
    return subprocess.run(cmd, stdout=subprocess.PIPE, stderr=subprocess.STDOUT, text=True, **kw)

def one(d):
    name = os.path.basename(d)
    wt = tempfile.mkdtemp(prefix='tsa-sw-'); os.rmdir(wt)
    sh(['git', '-C', '/repo', 'worktree', 'add', '-q', '--detach', wt, 'HEAD'])
    try:
        applied = None
        for pf in ('patch.diff', 'patch.rebased.diff'):
            p = os.path.join(d, pf)
            if os.path.exists(p) and sh(['git', '-C', wt, 'apply', p]).returncode == 0:
                applied = pf; break
        if not applied:
            return name, None, 'patch does not apply'
        env = dict(os.environ, VERIF_REPO=wt, VERIF_EVIDENCE_DIR=wt + '.evidence')
        det = []
        for c in CHECKS:
            r = sh([os.path.join(HERE, 'check'), c, '--tier', 'quick'], env=env)
            rules = sorted(set(re.findall(r'\[(C\d+\.[A-Z0-9]+)\]', r.stdout)))
            if r.returncode == 1:
                det.append({'check': c, 'rules': rules})
            elif r.returncode == 2:
                det.append({'check': c, 'rules': ['ANALYSIS-BROKEN'], 'tail': r.stdout.strip().splitlines()[-1][:200]})
        return name, det, applied
    finally:
        sh(['git', '-C', '/repo', 'worktree', 'remove', '--force', wt])
        import shutil
        shutil.rmtree(wt + '.evidence', ignore_errors=True)

dirs = []
for base in ('seeded', 'selftest'):
    bd = os.path.join(HERE, base)
    for n in sorted(os.listdir(bd)) if os.path.isdir(bd) else []:
        if os.path.exists(os.path.join(bd, n, 'meta.json')) and (len(sys.argv) < 2 or any(n.startswith(a) for a in sys.argv[1:])):
            dirs.append(os.path.join(bd, n))
ev = os.path.join(HERE, 'evidence')
saved = {f: open(os.path.join(ev, f)).read() for f in os.listdir(ev) if f.endswith('.json')}
try:
    with ThreadPoolExecutor(max_workers=4) as ex:
        for (name, det, info), d in zip(ex.map(one, dirs), dirs):
            mp = os.path.join(d, 'meta.json')
            meta = json.load(open(mp))
            if det is None:
                meta['detected_by'] = 'patch does not apply to /repo HEAD'
            else:
                real = [x for x in det if 'ANALYSIS-BROKEN' not in x['rules']]
                meta['detected_by'] = det
                meta['applied'] = info
                if 'seeded' in d:
                    prop = meta.get('breaks_property')
                    own = [x for x in real if x['check'] == prop] or real
                    if own:
                        meta['expect'] = [{'check': own[0]['check'], 'rule': own[0]['rules'][0] if own[0]['rules'] else None}]
                    else:
                        meta.pop('expect', None)
            json.dump(meta, open(mp, 'w'), indent=1)
            print(name, [(x['check'], x['rules']) for x in (det or [])] if det is not None else info)
finally:
    for f, txt in saved.items():
        open(os.path.join(ev, f), 'w').write(txt)
