"""Structured dataflow over AST-lite statements (engine E4).

teakra contains no goto, so every function body is a structured tree; path
rules are decided by abstract interpretation over that tree:

    out = Flow(client).run(body, init_state)

client provides
    transfer(expr_node, state) -> state      effect of evaluating an expression
                                              (client walks sub-expressions)
    branch(cond_node, state) -> (st_true, st_false)   optional narrowing
    join(a, b) -> state
    case(switch_cond, value_node|None, state) -> state   optional narrowing
    noreturn(expr_node) -> bool               calls that never return (Assert, throw)
States must be immutable values (or be copied by transfer). None = unreachable.
"""


class Out:
    __slots__ = ('normal', 'breaks', 'continues', 'returns')

    def __init__(self, normal=None):
        self.normal = normal
        self.breaks = []
        self.continues = []
        self.returns = []   # list of (state, return node)


class Client:
    def transfer(self, e, st):
        return st

    def branch(self, cond, st):
        st = self.transfer(cond, st)
        return st, st

    def join(self, a, b):
        if a is None:
            return b
        if b is None:
            return a
        return a | b

    def case(self, cond, val, st):
        return st

    def noreturn(self, e):
        k = e.get('k')
        return k in ('unreachable', 'throw')

    def assert_(self, cond, st):
        # ASSERT(c): continue only where c holds
        t, _f = self.branch(cond, st)
        return t

    def decl(self, var, st):
        if 'init' in var:
            return self.transfer(var['init'], st)
        return st

    def loop_bound(self):
        return 6


class Flow:
    def __init__(self, client):
        self.c = client

    def joinall(self, states):
        cur = None
        for s in states:
            cur = self.c.join(cur, s)
        return cur

    def run(self, st, state):
        out = Out()
        out.normal = self._stmt(st, state, out)
        return out

    def exits(self, st, state):
        """all states in which the function can be left: explicit returns + fall off the end"""
        out = self.run(st, state)
        res = [(s, n) for (s, n) in out.returns if s is not None]
        if out.normal is not None:
            res.append((out.normal, None))
        return res

    def _expr(self, e, state):
        if state is None or e is None:
            return state
        k = e.get('k')
        if k == 'assert':
            return self.c.assert_(e.get('cond'), state)
        state = self.c.transfer(e, state)
        if state is not None and self.c.noreturn(e):
            return None
        return state

    def _stmt(self, s, state, out):
        if s is None or state is None:
            return state
        k = s.get('k')
        if k == 'block':
            for c in s.get('body', []):
                state = self._stmt(c, state, out)
                if state is None:
                    # still need to scan for labels? (no goto / no labels in teakra)
                    break
            return state
        if k == 'if':
            if s.get('init'):
                state = self._stmt(s['init'], state, out)
            if s.get('condvar'):
                state = self.c.decl(s['condvar'], state)
            cond = s.get('cond')
            cv = cond.get('cv') if isinstance(cond, dict) else None
            if cv is None and isinstance(cond, dict) and cond.get('k') == 'int':
                cv = cond.get('v')
            if cv is not None:
                # compile-time condition (if constexpr / constant): only one arm exists
                state = self.c.transfer(cond, state)
                if cv:
                    return self._stmt(s.get('then'), state, out)
                return self._stmt(s.get('else'), state, out) if s.get('else') is not None else state
            t, f = self.c.branch(cond, state)
            a = self._stmt(s.get('then'), t, out)
            b = self._stmt(s.get('else'), f, out) if s.get('else') is not None else f
            return self.c.join(a, b)
        if k == 'switch':
            return self._switch(s, state, out)
        if k in ('for', 'while', 'rangefor', 'do'):
            return self._loop(s, state, out)
        if k == 'return':
            if s.get('e') is not None:
                state = self._expr(s['e'], state)
            if state is not None:
                out.returns.append((state, s))
            return None
        if k == 'break':
            out.breaks.append(state)
            return None
        if k == 'continue':
            out.continues.append(state)
            return None
        if k == 'decl':
            for v in s.get('vars', []):
                state = self.c.decl(v, state)
                if state is None:
                    break
            return state
        if k == 'attributed':
            return self._stmt(s.get('sub'), state, out)
        if k in ('case', 'default'):
            # label outside a switch body walk (nested): just run the sub statement
            return self._stmt(s.get('sub'), state, out)
        if k == 'null':
            return state
        if k == 'try':
            a = self._stmt(s.get('body'), state, out)
            for h in s.get('handlers', []):
                a = self.c.join(a, self._stmt(h, state, out))
            return a
        # expression statement
        return self._expr(s, state)

    def _switch(self, s, state, out):
        cond = s.get('cond')
        entry = self.c.transfer(cond, state)
        inner = Out()
        body = s.get('body') or {}
        items = body.get('body', []) if body.get('k') == 'block' else [body]
        cur = None
        has_default = False

        def run_label(node, cur):
            nonlocal has_default
            # node is case/default; unwrap stacked labels
            while isinstance(node, dict) and node.get('k') in ('case', 'default'):
                if node['k'] == 'default':
                    has_default = True
                    cur = self.c.join(cur, self.c.case(cond, None, entry))
                else:
                    cur = self.c.join(cur, self.c.case(cond, node.get('val'), entry))
                node = node.get('sub')
            return node, cur

        for it in items:
            if isinstance(it, dict) and it.get('k') in ('case', 'default'):
                sub, cur = run_label(it, cur)
                cur = self._stmt(sub, cur, inner)
            else:
                cur = self._stmt(it, cur, inner)
        exit_state = cur
        for b in inner.breaks:
            exit_state = self.c.join(exit_state, b)
        if not has_default:
            exit_state = self.c.join(exit_state, self.c.case(cond, 'nomatch', entry))
        out.continues.extend(inner.continues)
        out.returns.extend(inner.returns)
        return exit_state

    def _loop(self, s, state, out):
        k = s.get('k')
        if k == 'for' and s.get('init'):
            state = self._stmt(s['init'], state, out)
        if k == 'rangefor':
            state = self.c.transfer(s.get('range'), state)
        head = state
        exit_state = None
        for _ in range(self.c.loop_bound()):
            inner = Out()
            if k == 'do':
                body_in = head
                t = self._stmt(s.get('body'), body_in, inner)
                for cst in inner.continues:
                    t = self.c.join(t, cst)
                if t is not None and s.get('cond') is not None:
                    tt, ff = self.c.branch(s['cond'], t)
                else:
                    tt, ff = t, None
                back = tt
                ex = ff
            else:
                if s.get('cond') is not None and head is not None:
                    tt, ff = self.c.branch(s['cond'], head)
                else:
                    tt, ff = head, (head if k == 'rangefor' else None)
                t = self._stmt(s.get('body'), tt, inner)
                for cst in inner.continues:
                    t = self.c.join(t, cst)
                if k == 'for' and s.get('inc') is not None and t is not None:
                    t = self._expr(s['inc'], t)
                back = t
                ex = ff
            for b in inner.breaks:
                ex = self.c.join(ex, b)
            exit_state = self.c.join(exit_state, ex)
            # returns inside loops are collected on every iteration; de-duplicate by node identity
            for (rs, rn) in inner.returns:
                out.returns.append((rs, rn))
            new_head = self.c.join(head, back)
            if new_head == head:
                break
            head = new_head
        return exit_state
