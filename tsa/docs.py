"""Parser for the fixed-pitch register diagrams in src/*.md (engine E7).

|+0xADDR[+N*k] | ... 16 columns of 4 characters ... |
yields {offset: [(hi_bit, lo_bit, name)], ...}, families expanded by the caller.
A diagram row that cannot be read raises AnalysisBroken (never a violation)."""
import os
import re

from .facts import AnalysisBroken

ROW = re.compile(r'^\|\+0x([0-9A-Fa-f]{4})(?:\+N\*(\d+|0x[0-9A-Fa-f]+))?\s*\|(.*)$')


def parse_file(path):
    out = {}
    if not os.path.exists(path):
        raise AnalysisBroken('documentation file vanished: ' + path)
    for ln, line in enumerate(open(path, encoding='utf-8', errors='replace'), 1):
        m = ROW.match(line.rstrip('\n'))
        if not m:
            continue
        off = int(m.group(1), 16)
        stride = m.group(2)
        stride = int(stride, 0) if stride else None
        rest = m.group(3)
        # cut at the closing bar of the 16th column: the body is exactly 64 characters
        body = rest[:64]
        if len(body) < 64 or body[63] != '|':
            # tolerate trailing comments, but the 64-char grid must be there
            raise AnalysisBroken('%s:%d: register diagram row is not 16 columns wide' % (path, ln))
        fields = []
        col = 0
        for seg in body[:-1].split('|'):
            if (len(seg) + 1) % 4 != 0:
                raise AnalysisBroken('%s:%d: field `%s` is not aligned to the 4-character grid' % (path, ln, seg))
            n = (len(seg) + 1) // 4
            hi = 15 - col
            lo = hi - n + 1
            fields.append((hi, lo, seg.strip()))
            col += n
        if col != 16:
            raise AnalysisBroken('%s:%d: fields cover %d columns' % (path, ln, col))
        out.setdefault(off, []).append({'fields': fields, 'stride': stride, 'line': ln, 'file': os.path.basename(path)})
    return out


def unnamed(name):
    return name in ('', '-', '?') or name.startswith('"')
