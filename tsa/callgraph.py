"""Resolved call graph with std::function wiring, virtual dispatch and RAII lock scopes (engines E3/E8)."""
from .astq import walk, children, field_path, unwrap_casts
from .wiring import Wiring, _callable

LOCK_TYPES = ('std::lock_guard<', 'std::unique_lock<', 'std::scoped_lock<')


class CallGraph:
    def __init__(self, F, lib_filter):
        self.F = F
        self.funcs = F['functions']
        self.lib = lib_filter
        self.W = Wiring(F, lib_filter)
        self._extra_slot_targets()
        self.overriders = {}
        for fid, f in self.funcs.items():
            for o in f.get('overrides', []) or []:
                self.overriders.setdefault(o, []).append(fid)
        self.edges = {}       # fn -> [(callee id, call node, kind)]
        self._parents = {}
        for fid, f in self.funcs.items():
            if f.get('body') is None:
                continue
            self.edges[fid] = self._calls(f)
        # decoder dispatch: Matcher<V>::call invokes the handler the decode table bound for the opcode
        from . import decode
        for v in decode.visitors(F):
            callfn = [k for k in self.funcs if k.startswith('Matcher<%s>::call(' % v)]
            if not callfn:
                continue
            try:
                t = decode.table(F, v)
            except Exception:
                continue
            hs = sorted({e['handler'] for e in t if e['handler'] in self.funcs})
            und = [k for k in self.funcs if k.startswith('%s::undefined(' % v)]
            for cf in callfn:
                for h in hs + und:
                    self.edges.setdefault(cf, []).append((h, None, 'decode'))

    def _extra_slot_targets(self):
        """BitFieldSlot{pos, len, set, get} aggregate initialisers store callables too"""
        for fid, f in self.funcs.items():
            if not self.lib(f):
                continue
            for n in walk(f.get('body')):
                if n.get('k') == 'initlist' and str(n.get('t', '')).replace('const ', '') == 'Teakra::BitFieldSlot' and len(n.get('elts', [])) == 4:
                    for nm, e in (('set', n['elts'][2]), ('get', n['elts'][3])):
                        c = _callable(e)
                        if c and c['kind'] in ('lambda', 'bind', 'factory'):
                            c2 = dict(c)
                            c2['func'] = f
                            c2['site'] = n
                            self.W._add_target(('Teakra::BitFieldSlot', nm), c2)

    def _calls(self, f):
        out = []
        for n in walk(f.get('body')):
            k = n.get('k')
            if k in ('call', 'construct') and n.get('fn'):
                fn = n['fn']
                if fn in self.funcs:
                    out.append((fn, n, 'direct'))
                    if n.get('virtual'):
                        for o in self.overriders.get(fn, []):
                            out.append((o, n, 'virtual'))
                elif n.get('virtual') or fn in self.overriders:
                    for o in self.overriders.get(fn, []):
                        out.append((o, n, 'virtual'))
            elif k == 'opcall' and n.get('fn') in self.funcs:
                out.append((n['fn'], n, 'direct'))
            if k == 'opcall' and n.get('op') == '()' and str(n.get('cls', '')).startswith('std::function<') and n.get('args'):
                p = field_path(n['args'][0])
                if p is not None:
                    for t in self.W.slot((p[0], p[1]))['targets']:
                        tf = t.get('func')
                        if tf is not None and not self.lib(tf):
                            continue   # wiring done by tests / tools
                        if t['kind'] == 'lambda' and t.get('fn') in self.funcs:
                            out.append((t['fn'], n, 'slot:%s::%s' % p[:2]))
                        elif t['kind'] == 'bind' and t.get('fn') in self.funcs:
                            out.append((t['fn'], n, 'slot:%s::%s' % p[:2]))
                            if self.funcs[t['fn']].get('virtual'):
                                for o in self.overriders.get(t['fn'], []):
                                    out.append((o, n, 'slot'))
                        elif t['kind'] == 'factory' and t.get('fn') in self.funcs:
                            # factory returns a lambda defined inside it
                            for fid2 in self.funcs:
                                if fid2.startswith(t['fn'] + '::<lambda@'):
                                    out.append((fid2, n, 'slot:%s::%s' % p[:2]))
            if k == 'lambda':
                # a lambda passed to an algorithm is invoked by it (std::find_if, std::any_of ...): treat as called here
                pass
        return out

    def callees(self, fid):
        return self.edges.get(fid, [])

    def reachable(self, roots, stop=None):
        seen = set()
        stack = [r for r in roots if r in self.funcs]
        while stack:
            x = stack.pop()
            if x in seen:
                continue
            seen.add(x)
            if stop and x in stop:
                continue
            for (c, n, kind) in self.edges.get(x, []):
                if c not in seen:
                    stack.append(c)
            # lambdas created in x that are handed to std algorithms
            f = self.funcs[x]
            for n in walk(f.get('body')):
                if n.get('k') == 'lambda' and n.get('fn') in self.funcs:
                    # only count lambdas that are arguments of a call (algorithm predicates), not stored closures
                    pass
        return seen

    # ------------------------------------------------------------ lock scopes
    def parents(self, f):
        pm = self._parents.get(f['id'])
        if pm is None:
            pm = {}
            stack = [f.get('body')]
            while stack:
                n = stack.pop()
                if not isinstance(n, dict):
                    continue
                for c in children(n):
                    pm[id(c)] = n
                    stack.append(c)
            self._parents[f['id']] = pm
        return pm

    def lock_decls(self, f):
        """[(var node, mutex key (cls, field), recursive?)] RAII lock objects declared in f"""
        out = []
        for n in walk(f.get('body')):
            if n.get('k') == 'var' and str(n.get('t', '')).startswith(LOCK_TYPES):
                mk = None
                for x in walk(n.get('init')):
                    p = field_path(x)
                    if p is not None and 'mutex' in str(x.get('t', '')):
                        mk = (p[0], p[1])
                out.append((n, mk, 'recursive_mutex' in str(n.get('t', ''))))
        return out

    def locks_held_at(self, f, node):
        """mutex keys held (by RAII scopes of f itself) when control is at `node`"""
        held = []
        pm = self.parents(f)
        child = node
        par = pm.get(id(node))
        while par is not None:
            if par.get('k') == 'block':
                here = {}
                for st in par.get('body', []):
                    if st is child:
                        break
                    if st.get('k') == 'decl':
                        for v in st.get('vars', []):
                            if str(v.get('t', '')).startswith(LOCK_TYPES):
                                mk = None
                                for x in walk(v.get('init')):
                                    p = field_path(x)
                                    if p is not None and 'mutex' in str(x.get('t', '')):
                                        mk = (p[0], p[1])
                                here[v.get('name')] = (mk, 'recursive_mutex' in str(v.get('t', '')))
                    elif st.get('k') == 'call' and st.get('name') in ('unlock', 'lock') and isinstance(st.get('obj'), dict) \
                            and st['obj'].get('k') == 'ref' and st['obj'].get('name') in here:
                        # std::unique_lock released / re-taken explicitly in the same straight-line block
                        ent = here[st['obj']['name']]
                        here[st['obj']['name']] = (ent[0], ent[1], st.get('name') == 'unlock')
                for ent in here.values():
                    if len(ent) == 3 and ent[2]:
                        continue
                    held.append((ent[0], ent[1]))
            child = par
            par = pm.get(id(par))
        return held
