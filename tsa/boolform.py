"""Canonical boolean forms (part of engine E6).

Conditions are compared *semantically up to propositional equivalence*: an expression is turned into a formula over
atoms (rendered sub-expressions that are not themselves boolean combinations), with
   !x, x == 0, x != 0, a > b, a >= b, a <= b, c ? x : y, single-assignment boolean locals, operator bool of std::function
reduced to and/or/not over the atoms  "x" (x is non-zero)  and  "(< a b)" / "(== a b)".
Two formulas are equivalent when their truth tables over the union of their atoms coincide (<= 12 atoms).  So De Morgan
rewrites, swapped operands, early-return versus nested if, a named flag versus the inline condition all compare equal,
while a dropped or added conjunct does not.
"""
from itertools import product

from .astq import const_value
from .norm import Renderer

T = ('const', True)
F_ = ('const', False)


def _strip(e):
    while isinstance(e, dict) and e.get('k') in ('cast', 'opaque'):
        e = e.get('e')
    if isinstance(e, dict) and e.get('k') == 'construct' and e.get('copymove') and len(e.get('args', [])) == 1:
        return _strip(e['args'][0])
    return e


def neg(f):
    if f[0] == 'const':
        return ('const', not f[1])
    if f[0] == 'not':
        return f[1]
    return ('not', f)


def conj(a, b):
    return ('and', a, b)


def disj(a, b):
    return ('or', a, b)


class Former:
    def __init__(self, func=None, renderer=None, expand_locals=True):
        self.R = renderer or Renderer(func, inline_locals='pure')
        self.expand = expand_locals

    def atom(self, e):
        return ('atom', self.R.r(e))

    def form(self, e, depth=0):
        e = _strip(e)
        if not isinstance(e, dict) or depth > 30:
            return ('atom', str(e))
        cv = const_value(e)
        if cv is not None and e.get('k') != 'ref':
            return ('const', bool(cv))
        k = e.get('k')
        if k == 'ref' and cv is not None:
            return ('const', bool(cv))
        if k == 'ref' and e.get('dk') in ('local', 'binding') and self.expand and e.get('name') in self.R.locals:
            return self.form(self.R.locals[e['name']], depth + 1)
        if k == 'un' and e.get('op') == '!':
            return neg(self.form(e.get('e'), depth + 1))
        if k == 'opcall' and e.get('op') == '!' and e.get('args'):
            return neg(self.form(e['args'][0], depth + 1))
        if k == 'call' and e.get('name') == 'operator bool' and e.get('obj') is not None:
            return self.form(e['obj'], depth + 1)
        if k == 'cond':
            c = self.form(e.get('c'), depth + 1)
            return disj(conj(c, self.form(e.get('a'), depth + 1)), conj(neg(c), self.form(e.get('b'), depth + 1)))
        if k == 'bin':
            op = e.get('op')
            if op == '&&':
                return conj(self.form(e['lhs'], depth + 1), self.form(e['rhs'], depth + 1))
            if op == '||':
                return disj(self.form(e['lhs'], depth + 1), self.form(e['rhs'], depth + 1))
            if op in ('==', '!='):
                l, r = _strip(e['lhs']), _strip(e['rhs'])
                lc, rc = const_value(l) if isinstance(l, dict) else None, const_value(r) if isinstance(r, dict) else None
                if isinstance(l, dict) and l.get('k') == 'nullptr':
                    lc = 0
                if isinstance(r, dict) and r.get('k') == 'nullptr':
                    rc = 0
                f = None
                if rc == 0 and lc is None:
                    f = neg(self.form(l, depth + 1))
                elif lc == 0 and rc is None:
                    f = neg(self.form(r, depth + 1))
                elif self._is_bool(l) and rc == 1:
                    f = self.form(l, depth + 1)
                elif self._is_bool(r) and lc == 1:
                    f = self.form(r, depth + 1)
                else:
                    a, b = sorted([self.R.r(l), self.R.r(r)])
                    f = ('atom', '(== %s %s)' % (a, b))
                return f if op == '==' else neg(f)
            if op in ('<', '>', '<=', '>='):
                a, b = self.R.r(e['lhs']), self.R.r(e['rhs'])
                if op == '<':
                    return ('atom', '(< %s %s)' % (a, b))
                if op == '>':
                    return ('atom', '(< %s %s)' % (b, a))
                if op == '<=':
                    return neg(('atom', '(< %s %s)' % (b, a)))
                return neg(('atom', '(< %s %s)' % (a, b)))
        return self.atom(e)

    @staticmethod
    def _is_bool(e):
        return isinstance(e, dict) and str(e.get('t', '')) in ('bool', '_Bool')


def atoms(f, acc=None):
    acc = set() if acc is None else acc
    if f[0] == 'atom':
        acc.add(f[1])
    elif f[0] in ('and', 'or'):
        atoms(f[1], acc)
        atoms(f[2], acc)
    elif f[0] == 'not':
        atoms(f[1], acc)
    return acc


def ev(f, env):
    t = f[0]
    if t == 'const':
        return f[1]
    if t == 'atom':
        return env[f[1]]
    if t == 'not':
        return not ev(f[1], env)
    if t == 'and':
        return ev(f[1], env) and ev(f[2], env)
    return ev(f[1], env) or ev(f[2], env)


def _operands(a):
    """the two operands of an atom `(== X Y)`, or None"""
    if not (a.startswith('(== ') and a.endswith(')')):
        return None
    body = a[4:-1]
    depth = 0
    for i, ch in enumerate(body):
        if ch == '(':
            depth += 1
        elif ch == ')':
            depth -= 1
        elif ch == ' ' and depth == 0:
            return body[:i], body[i + 1:]
    return None


def _is_constant(s):
    if s.lstrip('-').isdigit():
        return True
    return '(' not in s and '::' in s and not s.startswith(('f:', 'l:', '$'))      # an enumerator


def exclusive_groups(names):
    """atoms `x == c1`, `x == c2` with distinct constants cannot hold together: groups of mutually exclusive atoms"""
    groups = {}
    for a in names:
        ops = _operands(a)
        if not ops:
            continue
        x, y = ops
        if _is_constant(x) and not _is_constant(y):
            groups.setdefault(y, {})[x] = a
        elif _is_constant(y) and not _is_constant(x):
            groups.setdefault(x, {})[y] = a
    return [list(g.values()) for g in groups.values() if len(g) > 1]


def _consistent(env, groups):
    return all(sum(1 for a in g if env[a]) <= 1 for g in groups)


def equivalent(f1, f2, assume=None):
    """propositional equivalence (modulo: equality of one expression with two different constants is exclusive);
       `assume`: a formula taken as given"""
    names = sorted(atoms(f1) | atoms(f2) | (atoms(assume) if assume else set()))
    if len(names) > 14:
        return None
    groups = exclusive_groups(names)
    for vals in product((False, True), repeat=len(names)):
        env = dict(zip(names, vals))
        if not _consistent(env, groups):
            continue
        if assume is not None and not ev(assume, env):
            continue
        if ev(f1, env) != ev(f2, env):
            return False
    return True


def implies(f1, f2):
    names = sorted(atoms(f1) | atoms(f2))
    if len(names) > 14:
        return None
    groups = exclusive_groups(names)
    for vals in product((False, True), repeat=len(names)):
        env = dict(zip(names, vals))
        if not _consistent(env, groups):
            continue
        if ev(f1, env) and not ev(f2, env):
            return False
    return True


def satisfiable(f):
    names = sorted(atoms(f))
    if len(names) > 14:
        return True
    groups = exclusive_groups(names)
    for vals in product((False, True), repeat=len(names)):
        env = dict(zip(names, vals))
        if _consistent(env, groups) and ev(f, env):
            return True
    return False


def literals(f):
    """a conjunction of literals as a set of (atom, polarity); None when f is not such a conjunction"""
    out = set()

    def rec(g, pol):
        if g[0] == 'atom':
            out.add((g[1], pol))
            return True
        if g[0] == 'const':
            return g[1] == pol
        if g[0] == 'not':
            return rec(g[1], not pol)
        if g[0] == 'and' and pol:
            return rec(g[1], True) and rec(g[2], True)
        if g[0] == 'or' and not pol:
            return rec(g[1], False) and rec(g[2], False)
        return False
    return out if rec(f, True) else None


def show(f):
    t = f[0]
    if t == 'const':
        return 'true' if f[1] else 'false'
    if t == 'atom':
        return f[1]
    if t == 'not':
        return '!' + show(f[1])
    return '(%s %s %s)' % (show(f[1]), '&&' if t == 'and' else '||', show(f[2]))


def A(s):
    return ('atom', s)


def all_of(*fs):
    out = T
    for f in fs:
        out = f if out == T else conj(out, f)
    return out


def any_of(*fs):
    out = F_
    for f in fs:
        out = f if out == F_ else disj(out, f)
    return out


def path_condition(body, target, former, asserts=False):
    """the condition under which control reaches `target` inside `body`, as one formula (conjunction of the dominating
       guards of guards.guards_at, each expanded to its canonical form).  ASSERTs are not branch conditions: what they
       state is taken to hold and is left out unless `asserts` is set"""
    from .guards import guards_at
    out = T
    for c, pol, src in guards_at(body, target):
        if isinstance(c, tuple):
            continue
        if not asserts and isinstance(src, dict) and src.get('k') == 'assert':
            continue
        f = former.form(c)
        out = all_of(out, f if pol else neg(f))
    return out


def eval_selector(f, subject, value, enum=None):
    """truth of formula f when the expression rendered `subject` has the integer `value`: atoms `(== subject c)` are decided
       (c a number or an enumerator of `enum`: name -> value); any other atom makes the result None"""
    def dec(a):
        if a == subject:
            return value != 0          # the canonical form of `subject != 0`
        ops = _operands(a)
        if not ops:
            return None
        x, y = ops
        if y == subject:
            x, y = y, x
        if x != subject:
            return None
        if y.lstrip('-').isdigit():
            return int(y) == value
        if enum is not None:
            nm = y.split('::')[-1]
            if nm in enum:
                return enum[nm] == value
        return None
    env = {}
    for a in atoms(f):
        v = dec(a)
        if v is None:
            return None
        env[a] = v
    return ev(f, env)
