"""Helpers for sibling comparison (engine E6): switch arms, location keys, push/pop sequences."""
from .astq import walk, field_path, field_chain, unwrap_casts, const_value
from .norm import render, short_fn, Renderer


def switch_arms(sw):
    """[(set(case values) , has_default, [statements])] in source order; stacked labels share one arm;
       an arm ends at break / return / the next label after a non-fallthrough statement"""
    body = sw.get('body') or {}
    items = body.get('body', []) if body.get('k') == 'block' else [body]
    arms = []
    cur = None
    for it in items:
        node = it
        labels = []
        default = False
        while isinstance(node, dict) and node.get('k') in ('case', 'default'):
            if node['k'] == 'default':
                default = True
            else:
                labels.append(const_value(node.get('val')))
            node = node.get('sub')
        if labels or default:
            if cur is not None and not cur['stmts']:
                # stacked labels
                cur['labels'] |= set(labels)
                cur['default'] = cur['default'] or default
            else:
                if cur is not None and not _ends(cur['stmts']):
                    cur['fallthrough'] = True
                cur = {'labels': set(labels), 'default': default, 'stmts': [], 'fallthrough': False}
                arms.append(cur)
        if cur is not None and isinstance(node, dict) and node.get('k') != 'null':
            cur['stmts'].append(node)
    return arms


def _ends(stmts):
    if not stmts:
        return False
    k = stmts[-1].get('k')
    if k in ('break', 'return', 'unreachable', 'throw', 'continue'):
        return True
    if k == 'block':
        return _ends(stmts[-1].get('body', []))
    return False


def loc_key(e, func=None, rend=None):
    """storage location denoted by an lvalue/rvalue expression of the interpreter, as a comparable key"""
    e = unwrap_casts(e)
    if not isinstance(e, dict):
        return None
    rend = rend or Renderer(func)
    k = e.get('k')
    if k == 'call':
        nm = e.get('name')
        fn = short_fn(e.get('fn', ''))
        if nm in ('Get', 'Set') and fn.startswith('Teakra::RegisterState::'):
            ta = e.get('fta') or []
            t = ta[0].get('t', {}).get('s') if ta else fn
            return ('pseudo', t)
        if nm == 'Lc':
            return ('lc',)
        if nm in ('GetAcc', 'GetAndSatAcc', 'GetAndSatAccNoFlag', 'SetAcc', 'SetAccAndFlag', 'SatAndSetAccAndFlag'):
            a0 = e.get('args', [None])[0]
            cv = const_value(a0)
            return ('acc', cv if cv is not None else rend.r(a0))
        if nm in ('ProductToBus40', 'ProductToBus32_NoShift', 'ProductFromBus32'):
            a0 = e.get('args', [None])[0]
            return ('product', rend.r(a0))
        if nm in ('RegToBus16', 'RegFromBus16'):
            return ('bus16', rend.r(e.get('args', [None])[0]))
        return None
    ch = field_chain(e)
    if ch:
        c, f, i = ch[-1]
        if i == '*':
            # non-constant index: keep its rendering
            idx = None
            if e.get('k') == 'opcall':
                idx = rend.r(e['args'][1])
            return ('field', f, idx)
        return ('field', f, i)
    return None


def resolve_local(func, e, depth=0):
    """follow a single-assignment local to its initialiser"""
    e = unwrap_casts(e)
    if depth > 8 or not isinstance(e, dict):
        return e
    if e.get('k') == 'ref' and e.get('dk') == 'local' and func is not None:
        r = Renderer(func)
        if e['name'] in r.locals:
            return resolve_local(func, r.locals[e['name']], depth + 1)
    return e


def locs_in(e, func=None, rend=None):
    """location keys mentioned in an expression: maximal access paths only, locals followed to their initialisers"""
    from .astq import children
    out = []
    rend = rend or Renderer(func)

    def rec(n, depth=0):
        if not isinstance(n, dict) or depth > 60:
            return
        if n.get('k') == 'ref' and n.get('dk') == 'local' and func is not None and n['name'] in rend.locals:
            rec(rend.locals[n['name']], depth + 1)
            return
        k = loc_key(n, func, rend) if n.get('k') in ('call', 'mem', 'opcall', 'index') else None
        if k is not None and not (k[0] == 'field' and k[1] in ('regs', 'mem')):
            out.append(k)
            if k[0] == 'field':
                # still look at a non-constant index expression
                if n.get('k') == 'opcall' and len(n.get('args', [])) > 1:
                    rec(n['args'][1], depth + 1)
                return
            for a in n.get('args', []):
                rec(a, depth + 1)
            return
        for c in children(n):
            rec(c, depth + 1)
    rec(e)
    return out


def stack_ops(func):
    """ordered stack traffic of a handler:
         ('push', value expr)  for mem.DataWrite(--regs.sp, X)
         ('pop', target name)  for  T = mem.DataRead(regs.sp++)"""
    r = Renderer(func, inline_locals=False)
    ops = []
    for n in walk(func['body']):
        if n.get('k') == 'call' and n.get('name') == 'DataWrite' and n.get('args'):
            a0 = r.r(n['args'][0])
            if a0.endswith('Teakra::RegisterState::sp))') and a0.startswith('(-- '):
                ops.append(('push', n['args'][1], n))
            elif 'Teakra::RegisterState::sp' in a0:
                ops.append(('push?', n['args'][1], n))
    for n in walk(func['body']):
        src = None
        tgt = None
        if n.get('k') == 'var' and isinstance(n.get('init'), dict):
            src, tgt = n['init'], n['name']
        elif n.get('k') == 'assign' and n.get('op') == '=':
            src, tgt = n['rhs'], r.r(n['lhs'])
        if src is None:
            continue
        for c in walk(src):
            if c.get('k') == 'call' and c.get('name') == 'DataRead' and c.get('args'):
                a0 = r.r(c['args'][0])
                if a0 == '(post++ (. f:Teakra::Interpreter::regs Teakra::RegisterState::sp))':
                    ops.append(('pop', tgt, n))
                elif 'Teakra::RegisterState::sp' in a0:
                    ops.append(('pop?', tgt, n))
    ops.sort(key=lambda o: (o[2].get('l', 0)))
    return ops
