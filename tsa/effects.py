"""May-read / may-write field sets of statements and functions, transitively through resolved calls (engine E3).

fields are (class, field) pairs; array indices are ignored (coarser = more conflicts reported, never fewer)."""
from .astq import walk, direct_writes, direct_reads


class Effects:
    def __init__(self, F, max_depth=6):
        self.funcs = F['functions']
        self.max_depth = max_depth
        self._memo = {}

    def of_function(self, fid, depth=0, seen=None):
        if fid in self._memo:
            return self._memo[fid]
        f = self.funcs.get(fid)
        if f is None or depth > self.max_depth:
            return frozenset(), frozenset()
        seen = seen or set()
        if fid in seen:
            return frozenset(), frozenset()
        r, w = self.of_node(f.get('body'), depth, seen | {fid})
        if depth == 0:
            self._memo[fid] = (r, w)
        return r, w

    def of_node(self, node, depth=0, seen=None):
        """(reads, writes) of an AST-lite statement / expression including everything its calls may do"""
        reads, writes = set(), set()
        if not isinstance(node, dict):
            return frozenset(), frozenset()
        for p, n, how in direct_writes(node):
            writes.add((p[0], p[1]))
        for p, n in direct_reads(node):
            reads.add((p[0], p[1]))
        for n in walk(node):
            if n.get('k') in ('call', 'construct') and n.get('fn') in self.funcs:
                r2, w2 = self.of_function(n['fn'], depth + 1, seen)
                reads |= r2
                writes |= w2
        return frozenset(reads), frozenset(writes)
