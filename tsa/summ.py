"""Guarded summaries of small functions (path-sensitive normal form; part of engines E3/E6).

summarize(f) walks the structured body of a function without loops-with-state and produces one *outcome* per feasible
path:   condition (boolform formula over the function's inputs: parameters, fields as read on entry, call results),
        return value (expression with every local replaced by the value it holds on that path),
        effects (field writes `lvalue op value`, calls, in order).
Rules state what a function must compute as  {value or effect -> condition}  and compare conditions up to
propositional equivalence, so the verdict does not depend on how the body is phrased: nested ifs or early returns,
a named flag or an inline condition, De Morgan forms, the order of independent tests, temporaries.

This is dataflow with path predicates over one function at a time (no solver: conditions are compared by truth tables
over at most 14 atoms, paths are capped at 512).  Anything outside the supported fragment raises Unsupported, which the
rules turn into "analysis broken", never into a violation.
"""
import copy

from . import boolform
from .astq import walk, const_value
from .norm import Renderer

MAX_PATHS = 512
ENUMS = {}        # enum name -> {value: 'Enum::enumerator'}; filled by engine.Ctx so that case labels render like == tests


class Unsupported(Exception):
    pass


def _strip(e):
    while isinstance(e, dict) and e.get('k') in ('cast', 'opaque'):
        e = e.get('e')
    return e


class Path:
    __slots__ = ('cond', 'env', 'wmap', 'effects', 'ret', 'end', 'imprecise')

    def __init__(self):
        self.cond = boolform.T
        self.env = {}
        self.wmap = {}
        self.effects = []
        self.ret = None
        self.end = None        # None (running) | 'return' | 'abort' | 'fall' | 'break' | 'continue'
        self.imprecise = False

    def fork(self):
        p = Path()
        p.cond = self.cond
        p.env = dict(self.env)
        p.wmap = dict(self.wmap)
        p.effects = list(self.effects)
        p.ret = self.ret
        p.end = self.end
        p.imprecise = self.imprecise
        return p


class Summary:
    def __init__(self, f, paths, R, former):
        self.f = f
        self.paths = paths
        self.R = R
        self.former = former

    # -- queries
    def returns(self):
        """{rendered value: condition}; aborting paths are left out"""
        out = {}
        for p in self.paths:
            if p.end == 'return' and p.ret is not None:
                k = self.R.r(p.ret)
                out[k] = boolform.any_of(out.get(k, boolform.F_), p.cond)
        return out

    def return_formula(self):
        """for a boolean function: the condition under which it returns true"""
        out = boolform.F_
        for p in self.paths:
            if p.end == 'return' and p.ret is not None:
                out = boolform.any_of(out, boolform.all_of(p.cond, self.former.form(p.ret)))
        return out

    def effect_conditions(self, select=None):
        """{effect tuple: condition under which it happens}; effect tuples are
             ('write', lvalue, op, value) | ('call', rendering) | ('loop', rendering)"""
        out = {}
        for p in self.paths:
            seen = set()
            for e in p.effects:
                key = e[:-1]
                if select and not select(key):
                    continue
                if key in seen:
                    continue
                seen.add(key)
                out[key] = boolform.any_of(out.get(key, boolform.F_), p.cond)
        return out

    def effect_sequences(self, select=None):
        """[(condition, [effect tuples in order])] per path"""
        return [(p.cond, [e[:-1] for e in p.effects if not select or select(e[:-1])], p) for p in self.paths]

    def final_values(self, select=None):
        """{lvalue: {rendered final value: condition}} over the paths that write the lvalue with plain / compound assignments
           (the value it holds when the function returns, as an expression of the entry state)"""
        out = {}
        for p in self.paths:
            if p.end == 'abort':
                continue
            for lv, val in p.wmap.items():
                if select and not select(lv):
                    continue
                d = out.setdefault(lv, {})
                k = self.R.r(val)
                d[k] = boolform.any_of(d.get(k, boolform.F_), p.cond)
        return out

    def abort_condition(self):
        out = boolform.F_
        for p in self.paths:
            if p.end == 'abort':
                out = boolform.any_of(out, p.cond)
        return out

    PURE_STD = ('empty', 'size', 'front', 'back', 'at', 'operator[]', 'begin', 'end', 'count', 'find', 'load', 'operator bool',
                'test', 'any', 'none', 'all', 'to_ulong', 'value', 'has_value', 'get', 'operator->', 'operator*', 'min', 'max')

    def is_pure_call(self, node, F=None):
        """a call that cannot change state: a const member function of the code base, or a read-only std accessor"""
        fn = node.get('fn')
        g = (F or {}).get(fn)
        if g is not None:
            return bool(g.get('const'))
        if str(node.get('cls', '')).startswith('std::') or str(fn or '').startswith('std::'):
            return node.get('name') in self.PURE_STD
        return False

    @staticmethod
    def is_pure_call_text(text):
        return any(('::%s on ' % n) in text for n in Summary.PURE_STD)

    def frozen_condition(self, F=None):
        """condition under which the function changes nothing: no write, no loop, no call that may change state"""
        out = boolform.F_
        for p in self.paths:
            if p.end == 'abort':
                continue
            busy = False
            for e in p.effects:
                if e[0] in ('write', 'loop'):
                    busy = True
                elif e[0] == 'call' and not self.is_pure_call(e[-1], F):
                    busy = True
            if not busy:
                out = boolform.any_of(out, p.cond)
        return out

    @property
    def imprecise(self):
        return any(p.imprecise for p in self.paths)


class Summarizer:
    def __init__(self, f, F=None, asserts='fork'):
        self.asserts = asserts
        self.f = f
        self.F = F or {}
        self.R = Renderer(f, inline_locals=False, flatten=True)
        self.former = boolform.Former(f, renderer=self.R, expand_locals=False)

    # ---- expression substitution
    def sub(self, e, p):
        if isinstance(e, list):
            return [self.sub(x, p) for x in e]
        if not isinstance(e, dict):
            return e
        k = e.get('k')
        if k == 'ref' and e.get('dk') in ('local', 'binding') and e.get('name') in p.env:
            return self._value(p.env[e['name']])
        if k == 'ref' and e.get('dk') == 'parm' and ('$parm', e.get('idx')) in p.env:
            return self._value(p.env[('$parm', e.get('idx'))])
        if k in ('mem', 'index') or (k == 'opcall' and e.get('op') == '[]'):
            inner = {kk: (self.sub(v, p) if isinstance(v, (dict, list)) and kk not in ('owner', 'fta', 'ta') else v) for kk, v in e.items()}
            key = self.R.r(inner)
            if key in p.wmap:
                return self._value(p.wmap[key])
            return inner
        if k == 'lambda':
            return e
        out = {}
        for kk, v in e.items():
            if kk in ('owner', 'fta', 'ta', 'caps_t'):
                out[kk] = v
            elif isinstance(v, (dict, list)):
                out[kk] = self.sub(v, p)
            else:
                out[kk] = v
        return out

    @staticmethod
    def _value(v):
        """copy of a remembered value; its side effects were recorded when it was computed and are not recorded again"""
        v = copy.deepcopy(v)
        if isinstance(v, dict):
            v['_remembered'] = True
        return v

    @staticmethod
    def _fresh(e):
        """nodes of e outside remembered values"""
        stack = [e]
        while stack:
            x = stack.pop()
            if not isinstance(x, dict) or x.get('_remembered'):
                continue
            yield x
            from .astq import children
            stack.extend(reversed(list(children(x))))

    # ---- side effects inside expressions (calls, ++ on fields, nested assignments)
    def expr_effects(self, e, p, skip=None):
        for n in self._fresh(e):
            if n is skip:
                continue
            k = n.get('k')
            if k == 'call' or (k == 'opcall' and n.get('op') == '()'):
                n['_seq'] = len(p.effects)        # position in the path's effect order; copies of the value keep it
                p.effects.append(('call', self.R.r(n), n))
            elif k == 'un' and n.get('op') in ('++', '--', 'post++', 'post--'):
                t = _strip(n.get('e'))
                if isinstance(t, dict) and t.get('k') != 'ref':
                    lv = self.R.r(t)
                    p.effects.append(('write', lv, n['op'].replace('post', ''), '', n))
                    p.wmap.pop(lv, None)
                    self._kill_aliases(p, t, lv)

    def _kill_aliases(self, p, target, lv):
        """a write to x[i] makes remembered values of other x[...] uncertain"""
        fld = None
        for n in walk(target):
            if n.get('k') == 'mem':
                fld = (n.get('cls'), n.get('name'))
                break
        if fld is None:
            return
        tag = '%s::%s)' % fld
        for key in list(p.wmap):
            if key != lv and tag in key:
                del p.wmap[key]

    # ---- statements
    def run(self, stmts, paths):
        for st in stmts:
            live = [p for p in paths if p.end is None]
            if not live:
                break
            done = [p for p in paths if p.end is not None]
            nxt = []
            for p in live:
                nxt.extend(self.stmt(st, p))
            paths = done + nxt
            if len(paths) > MAX_PATHS:
                raise Unsupported('more than %d paths' % MAX_PATHS)
        return paths

    def _cond_value(self, st):
        """(setter, cond node) when statement st computes one value by a top-level `c ? a : b`"""
        k = st.get('k')
        holder, key = None, None
        if k == 'decl' and len(st.get('vars', [])) == 1 and 'init' in st['vars'][0]:
            holder, key = st['vars'][0], 'init'
        elif k == 'assign':
            holder, key = st, 'rhs'
        elif k == 'return' and st.get('e') is not None:
            holder, key = st, 'e'
        elif k in ('call', 'opcall') and st.get('args'):
            holder, key = st, 'args'
        if holder is None:
            return None
        v = holder[key]
        # the first conditional expression anywhere in the value (not inside a lambda / call argument evaluation order
        # matters little here: both operands are pure values in the code base)
        target = None
        for root in (v if isinstance(v, list) else [v]):
            for n in walk(root):
                if n.get('k') == 'lambda':
                    break
                if n.get('k') == 'cond':
                    target = n
                    break
            if target is not None:
                break
        if target is not None:
            return holder, key, target
        return None

    def stmt(self, st, p):
        cv = self._cond_value(st)
        if cv is not None:
            holder, key, c = cv
            # `x = f(c ? a : b);` is `if (c) x = f(a); else x = f(b);`
            def replaced(tree, val):
                if tree is c:
                    return val
                if isinstance(tree, list):
                    return [replaced(x, val) for x in tree]
                if not isinstance(tree, dict):
                    return tree
                if not any(x is c for x in walk(tree)):
                    return tree
                return {kk: (replaced(vv, val) if isinstance(vv, (dict, list)) and kk not in ('owner', 'fta', 'ta', 'elem_of') else vv) for kk, vv in tree.items()}

            def variant(val):
                st2 = dict(st)
                if holder is st:
                    st2[key] = replaced(holder[key], val)
                else:
                    v2 = dict(holder)
                    v2[key] = replaced(holder[key], val)
                    st2['vars'] = [v2]
                return st2
            as_if = {'k': 'if', 'l': st.get('l'), 'cond': c['c'], 'then': variant(c['a']), 'else': variant(c['b'])}
            return self.stmt(as_if, p)
        k = st.get('k')
        if k == 'block':
            return self.run(st.get('body', []), [p])
        if k in ('null',):
            return [p]
        if k == 'decl':
            for v in st.get('vars', []):
                if v.get('bindings'):
                    raise Unsupported('structured binding')
                if 'init' in v:
                    val = self.sub(v['init'], p)
                    self.expr_effects(val, p)
                    p.env[v['name']] = val
                else:
                    p.env[v['name']] = {'k': 'opaque_uninit', 't': v.get('t'), 'name': v['name']}
            return [p]
        if k == 'assign':
            return [self.assign(st, p)]
        if k == 'un' and st.get('op') in ('++', '--', 'post++', 'post--'):
            t = _strip(st.get('e'))
            if isinstance(t, dict) and t.get('k') == 'ref' and t.get('dk') == 'local':
                old = p.env.get(t['name'], t)
                p.env[t['name']] = {'k': 'bin', 'op': '+' if '++' in st['op'] else '-', 'lhs': old, 'rhs': {'k': 'int', 'v': 1, 'cv': 1},
                                    't': st.get('t')}
                return [p]
            self.expr_effects(self.sub(st, p), p)
            return [p]
        if k in ('call', 'opcall', 'construct', 'bin', 'cond', 'cast', 'un'):
            self.expr_effects(self.sub(st, p), p)
            return [p]
        if k == 'assert' and self.asserts == 'ignore':
            return [p]
        if k == 'assert':
            # ASSERT(c): the path on which c fails aborts deliberately, the other one continues knowing c
            c = self.former.form(self.sub(st.get('cond'), p))
            bad = p.fork()
            bad.cond = boolform.all_of(p.cond, boolform.neg(c))
            out = []
            if self._sat(bad.cond):
                bad.end = 'abort'
                out.append(bad)
            p.cond = boolform.all_of(p.cond, c)
            if self._sat(p.cond):
                out.append(p)
            return out
        if k in ('unreachable', 'throw'):
            p.end = 'abort'
            return [p]
        if k == 'return':
            if st.get('e') is not None:
                val = self.sub(st['e'], p)
                self.expr_effects(val, p)
                p.ret = val
            p.end = 'return'
            return [p]
        if k == 'break':
            p.end = 'break'
            return [p]
        if k == 'continue':
            p.end = 'continue'
            return [p]
        if k == 'if':
            if st.get('init'):
                raise Unsupported('if with initialiser')
            cexpr = self.sub(st.get('cond'), p)
            self.expr_effects(cexpr, p)
            c = self.former.form(cexpr)
            out = []
            a = p.fork()
            a.cond = boolform.all_of(p.cond, c)
            if self._sat(a.cond):
                out += self.stmt(st['then'], a) if st.get('then') else [a]
            b = p
            b.cond = boolform.all_of(p.cond, boolform.neg(c))
            if self._sat(b.cond):
                out += self.stmt(st['else'], b) if st.get('else') is not None else [b]
            return out
        if k == 'switch':
            return self.switch(st, p)
        if k in ('for', 'while', 'do', 'rangefor'):
            # a loop is one opaque effect; values it may change are forgotten
            p.effects.append(('loop', self.R.s(st)[:400], st))
            for n in walk(st):
                t = None
                if n.get('k') == 'assign':
                    t = _strip(n.get('lhs'))
                elif n.get('k') == 'un' and n.get('op') in ('++', '--', 'post++', 'post--'):
                    t = _strip(n.get('e'))
                if isinstance(t, dict):
                    if t.get('k') == 'ref' and t.get('name') in p.env:
                        p.env[t['name']] = {'k': 'opaque_loop', 'name': t['name'], 't': t.get('t')}
                    elif t.get('k') != 'ref':
                        p.wmap.clear()
            return [p]
        if k == 'attributed':
            return self.stmt(st.get('sub'), p) if st.get('sub') else [p]
        if k in ('case', 'default'):
            return self.stmt(st.get('sub'), p) if st.get('sub') else [p]
        raise Unsupported('statement kind %s' % k)

    def assign(self, st, p):
        t = _strip(st.get('lhs'))
        op = st.get('op')
        rhs = self.sub(st.get('rhs'), p)
        self.expr_effects(rhs, p)
        if isinstance(t, dict) and t.get('k') == 'ref' and t.get('dk') in ('local', 'binding') and not t.get('elem_of') and not t.get('isref'):
            if op == '=':
                p.env[t['name']] = rhs
            else:
                old = p.env.get(t['name'], t)
                p.env[t['name']] = {'k': 'bin', 'op': op[:-1], 'lhs': old, 'rhs': rhs, 't': st.get('t')}
            return p
        if isinstance(t, dict) and t.get('k') == 'ref' and t.get('dk') == 'parm':
            # a by-value parameter used as a local
            key = ('$parm', t.get('idx'))
            if op == '=':
                p.env[key] = rhs
            else:
                old = p.env.get(key, t)
                p.env[key] = {'k': 'bin', 'op': op[:-1], 'lhs': old, 'rhs': rhs, 't': st.get('t')}
            return p
        lvs = self.sub_lvalue(t, p)
        lv = self.R.r(lvs)
        p.effects.append(('write', lv, op, self.R.r(rhs), st))
        self._kill_aliases(p, lvs, lv)
        if op == '=':
            p.wmap[lv] = rhs
        else:
            # x op= v : the new value is (x op v) of the value x had (remembered or as read)
            old = p.wmap.get(lv, lvs)
            p.wmap[lv] = {'k': 'bin', 'op': op[:-1], 'lhs': self._value(old) if lv in p.wmap else old, 'rhs': rhs, 't': st.get('t')}
        return p

    def sub_lvalue(self, t, p):
        """substitute inside an lvalue (indices, bases) but never replace the lvalue itself by a remembered value"""
        if not isinstance(t, dict):
            return t
        out = {}
        for kk, v in t.items():
            if kk in ('owner', 'fta', 'ta', 'caps_t'):
                out[kk] = v
            elif kk in ('base',) and isinstance(v, dict):
                out[kk] = self.sub_lvalue(v, p) if v.get('k') in ('mem', 'index', 'opcall') else self.sub(v, p)
            elif kk == 'args' and t.get('k') == 'opcall' and isinstance(v, list) and v:
                out[kk] = [self.sub_lvalue(v[0], p)] + [self.sub(x, p) for x in v[1:]]
            elif isinstance(v, (dict, list)):
                out[kk] = self.sub(v, p)
            else:
                out[kk] = v
        return out

    def switch(self, st, p):
        sel = self.sub(st.get('cond'), p)
        self.expr_effects(sel, p)
        body = st.get('body', {})
        items = body.get('body', []) if isinstance(body, dict) and body.get('k') == 'block' else [body]
        # flatten `case A: case B: stmt` chains into (labels, first statement)
        flat = []
        for it in items:
            labels = []
            cur = it
            while isinstance(cur, dict) and cur.get('k') in ('case', 'default'):
                labels.append(('default', None) if cur['k'] == 'default' else ('case', cur.get('val')))
                cur = cur.get('sub')
            flat.append((labels, cur))
        all_vals = [v for labels, _ in flat for kind, v in labels if kind == 'case']
        sel_r = self.R.r(sel)

        def eq(v):
            vt = self.R.r(v)
            inner = _strip(v)
            if isinstance(inner, dict) and inner.get('k') == 'ref' and inner.get('dk') == 'enum':
                vt = inner.get('qn', inner.get('name'))      # as an == test against the enumerator renders
            cvv = const_value(v) if isinstance(v, dict) and vt == self.R.r(v) else None
            tn = str((v or {}).get('t', '')) if isinstance(v, dict) else ''
            if cvv is not None and tn in ENUMS and cvv in ENUMS[tn]:
                vt = ENUMS[tn][cvv]
            a, b = sorted([sel_r, vt])
            return boolform.A('(== %s %s)' % (a, b))
        out = []
        has_default = any(kind == 'default' for labels, _ in flat for kind, v in labels)
        for i, (labels, first) in enumerate(flat):
            if not labels:
                continue
            c = boolform.F_
            for kind, v in labels:
                if kind == 'case':
                    # exclusivity of distinct constants: this label and none of the earlier distinct ones
                    c = boolform.any_of(c, eq(v))
                else:
                    c = boolform.any_of(c, boolform.all_of(*[boolform.neg(eq(v2)) for v2 in all_vals]) if all_vals else boolform.T)
            q = p.fork()
            q.cond = boolform.all_of(p.cond, c)
            # distinct case constants exclude each other
            others = [v2 for v2 in all_vals if all(self.R.r(v2) != self.R.r(v) for kind, v in labels if kind == 'case')]
            if any(kind == 'case' for kind, v in labels) and not any(kind == 'default' for kind, v in labels):
                q.cond = boolform.all_of(q.cond, *[boolform.neg(eq(v2)) for v2 in others])
            if not self._sat(q.cond):
                continue
            stmts = ([first] if first is not None else []) + [s for labels2, s in flat[i + 1:] for s in [self._unlabel(labels2, s)] if s is not None]
            res = self.run(stmts, [q])
            for r in res:
                if r.end == 'break':
                    r.end = None
            out += res
        if not has_default:
            q = p
            q.cond = boolform.all_of(p.cond, *[boolform.neg(eq(v)) for v in all_vals])
            if self._sat(q.cond):
                out.append(q)
        return out

    @staticmethod
    def _unlabel(labels, s):
        return s

    def _sat(self, f):
        return boolform.satisfiable(f)


def summarize(f, F=None, asserts='fork'):
    body = f.get('body')
    if not isinstance(body, dict):
        raise Unsupported('no body')
    S = Summarizer(f, F, asserts)
    paths = S.run(body.get('body', []) if body.get('k') == 'block' else [body], [Path()])
    for p in paths:
        if p.end is None:
            p.end = 'return' if f.get('ret') == 'void' else 'fall'
        if p.end in ('break', 'continue'):
            raise Unsupported('break / continue outside a loop')
    return Summary(f, paths, S.R, S.former)


def summary(ctx, f, asserts='fork'):
    """summarize() for rules: a function outside the supported fragment is `analysis broken`, never a violation"""
    from .facts import AnalysisBroken
    try:
        S = summarize(f, ctx.F['functions'], asserts)
    except Unsupported as e:
        raise AnalysisBroken('%s: cannot summarise %s: %s' % (ctx.prop, f.get('id'), e))
    ctx.touch(f)
    return S


def summary_of(ctx, f, stmts, asserts='ignore'):
    """summary of a statement list taken out of function f (a stage of a loop body), as if it were a function body"""
    from .facts import AnalysisBroken
    pseudo = dict(f)
    pseudo['body'] = {'k': 'block', 'l': f.get('line'), 'body': list(stmts)}
    pseudo['ret'] = 'void'
    try:
        S = Summarizer(pseudo, ctx.F['functions'], asserts)
        # locals of the enclosing function keep their names (they are inputs of the fragment)
        paths = S.run(pseudo['body']['body'], [Path()])
    except Unsupported as e:
        raise AnalysisBroken('%s: cannot summarise a fragment of %s: %s' % (ctx.prop, f.get('id'), e))
    for p in paths:
        if p.end is None:
            p.end = 'return'
    return Summary(pseudo, paths, S.R, S.former)
