"""Decode-table facts (engine E1): the entries of GetDecodeTable<V> as the
compiler instantiated them, for one visitor V."""
from .astq import walk, const_value, unwrap_casts
from .facts import AnalysisBroken


def visitors(F):
    out = []
    for fid in F['functions']:
        if fid.startswith('GetDecodeTable<') and fid.endswith('>()'):
            out.append(fid[len('GetDecodeTable<'):-3])
    return sorted(out)


def _operand(pk):
    t = pk.get('t', {})
    tn = t.get('tn', t.get('name', '?'))
    st = t.get('statics', {})
    ta = t.get('ta', [])
    op = {'kind': tn, 's': t.get('s'), 'mask': st.get('Mask'), 'need_expansion': st.get('NeedExpansion'),
          'pass': st.get('PassAsParameter'), 'bits': st.get('Bits'), 'pos': None, 'optype': None,
          'value': None, 'optype_j': None}
    if tn in ('At', 'AtNamed'):
        if len(ta) == 2:
            op['optype'] = ta[0].get('t', {}).get('s')
            op['optype_j'] = ta[0].get('t')
            op['pos'] = ta[1].get('i')
        if tn == 'AtNamed':
            # statics of AtNamed mirror BaseType
            pass
    elif tn == 'Const':
        if len(ta) == 2:
            op['optype'] = ta[0].get('t', {}).get('s')
            op['optype_j'] = ta[0].get('t')
            op['value'] = ta[1].get('i')
    elif tn == 'Cn':
        if len(ta) == 2:
            op['optype'] = ta[0].get('t', {}).get('s')
            op['value'] = ta[1].get('i')
            op['value_name'] = ta[1].get('en')
    elif tn == 'Unused':
        if len(ta) == 1:
            op['pos'] = ta[0].get('i')
    return op


def table(F, visitor):
    fid = 'GetDecodeTable<%s>()' % visitor
    f = F['functions'].get(fid)
    if f is None:
        raise AnalysisBroken('decode table instantiation for %s not found' % visitor)
    # the returned initializer list
    elts = None
    for n in walk(f['body']):
        if n.get('k') == 'initlist' and n.get('elts') and 'Matcher<' in n.get('t', ''):
            elts = n['elts']
            break
    if elts is None:
        raise AnalysisBroken('GetDecodeTable<%s>: initializer list of matchers not found' % visitor)
    entries = []
    for idx, e in enumerate(elts):
        rejectors = []
        cur = e
        while cur.get('k') == 'construct' and cur.get('copymove') and cur.get('args'):
            cur = cur['args'][0]
        while cur.get('k') == 'call' and cur.get('name') == 'Except':
            arg = cur['args'][0]
            av = None
            for x in walk(arg):
                if 'av' in x:
                    av = x['av']
                    break
            if av is None or len(av) != 2:
                raise AnalysisBroken('GetDecodeTable<%s> entry %d: rejector constant not evaluable' % (visitor, idx))
            rejectors.append({'mask': av[0], 'unexpected': av[1]})
            cur = cur['obj']
            while cur.get('k') == 'construct' and cur.get('copymove') and cur.get('args'):
                cur = cur['args'][0]
        if not (cur.get('k') == 'call' and cur.get('name') == 'Create' and 'MatcherCreator' in cur.get('cls', '')):
            raise AnalysisBroken('GetDecodeTable<%s> entry %d (line %s): not a MatcherCreator::Create call'
                                 % (visitor, idx, cur.get('l')))
        owner = cur.get('owner', {})
        ta = owner.get('ta', [])
        if len(ta) < 2:
            raise AnalysisBroken('MatcherCreator template arguments missing at line %s' % cur.get('l'))
        expected = ta[1].get('i')
        ops = [_operand(p) for p in (ta[2].get('pack', []) if len(ta) > 2 else [])]
        name = cur['args'][0].get('v')
        h = unwrap_casts(cur['args'][1])
        handler = None
        for x in walk(h):
            if x.get('dk') == 'func':
                handler = x.get('fn')
        create = F['functions'].get(cur['fn'])
        cmask = cexp = None
        if create:
            for x in walk(create['body']):
                if x.get('k') == 'var' and x.get('name') == 'mask' and 'init' in x:
                    cmask = const_value(x['init'])
                if x.get('k') == 'var' and x.get('name') == 'expanded' and 'init' in x:
                    cexp = const_value(x['init'])
        entries.append({'index': idx, 'line': cur.get('l'), 'name': name, 'handler': handler,
                        'expected': expected, 'operands': ops, 'rejectors': list(reversed(rejectors)),
                        'create_fn': cur['fn'], 'compiler_mask': cmask, 'compiler_expanded': cexp})
    return entries


def entry_mask(e):
    m = 0xFFFF
    for o in e['operands']:
        m &= ~(o['mask'] or 0)
    return m & 0xFFFF


def entry_expanded(e):
    return any(bool(o['need_expansion']) for o in e['operands'])


def matches(e, w, mask=None):
    m = entry_mask(e) if mask is None else mask
    if (w & m) != e['expected']:
        return False
    for r in e['rejectors']:
        if (w & r['mask']) == r['unexpected']:
            return False
    return True


def operand_bits(o):
    """width of the operand's storage field: the N of its Operand<N> base (compiler facts)"""
    if o.get('bits') is not None:
        return o['bits']
    def find(tj, depth=0):
        if not isinstance(tj, dict) or depth > 6:
            return None
        if tj.get('tn') == 'Operand' and tj.get('ta'):
            return tj['ta'][0].get('i')
        for b in tj.get('bases', []):
            r = find(b, depth + 1)
            if r is not None:
                return r
        return None
    return find(o.get('optype_j'))
