"""Pseudo-register facts: the 19 status/config words as clang instantiated them."""
from .facts import AnalysisBroken

WORDS = ['cfgi', 'cfgj', 'stt0', 'stt1', 'stt2', 'mod0', 'mod1', 'mod2', 'mod3', 'st0', 'st1', 'st2', 'icr',
         'ar0', 'ar1', 'arp0', 'arp1', 'arp2', 'arp3']


def _proxy(pj):
    """proxy type JSON -> dict(kind, targets=[(field, index|None)], ro, raw)"""
    tn = pj.get('tn') or pj.get('name')
    tn = tn.split('::')[-1]
    ta = pj.get('ta', [])
    fld = lambda a: a.get('d', '?').split('::')[-1]
    if tn == 'Redirector':
        return {'kind': tn, 'targets': [(fld(ta[0]), None)], 'ro': False}
    if tn == 'RORedirector':
        return {'kind': tn, 'targets': [(fld(ta[0]), None)], 'ro': True}
    if tn == 'ArrayRedirector':
        return {'kind': tn, 'targets': [(fld(ta[1]), ta[2]['i'])], 'ro': False, 'size': ta[0]['i']}
    if tn == 'ArrayRORedirector':
        return {'kind': tn, 'targets': [(fld(ta[1]), ta[2]['i'])], 'ro': True, 'size': ta[0]['i']}
    if tn == 'DoubleRedirector':
        return {'kind': tn, 'targets': [(fld(ta[0]), None), (fld(ta[1]), None)], 'ro': False}
    if tn == 'AccEProxy':
        return {'kind': tn, 'targets': [('a.e', ta[0]['i'])], 'ro': False}
    if tn == 'LPRedirector':
        return {'kind': tn, 'targets': [('lp', None)], 'ro': False, 'special': 'w1c'}
    return {'kind': tn, 'targets': [], 'ro': None, 'unknown': True}


def words(F):
    out = {}
    for w in WORDS:
        a = F['aliases'].get('Teakra::' + w)
        if a is None:
            raise AnalysisBroken('pseudo-register alias Teakra::%s vanished' % w)
        t = a['t']
        if (t.get('tn') or '').split('::')[-1] != 'PseudoRegister':
            raise AnalysisBroken('Teakra::%s is no longer a PseudoRegister<...>' % w)
        slots = []
        pack = t['ta'][0].get('pack', []) if t.get('ta') else []
        for s in pack:
            sj = s['t']
            if (sj.get('tn') or '').split('::')[-1] != 'ProxySlot':
                raise AnalysisBroken('Teakra::%s: slot is not a ProxySlot' % w)
            ta = sj['ta']
            px = _proxy(ta[0]['t'])
            px.update({'pos': ta[1]['i'], 'len': ta[2]['i'], 'proxy_s': ta[0]['t']['s'],
                       'statics': sj.get('statics', {})})
            slots.append(px)
        out[w] = {'slots': slots, 'type_s': t['s'], 'line': a['line'], 'file': a['file']}
    return out
