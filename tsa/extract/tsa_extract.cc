// tsa-extract: libTooling fact extractor for the teakra static checks.
//
// Emits, for one translation unit, a JSON file with a compact "resolved AST"
// of every function / record / enum / alias / variable that is *defined in a
// file under --root* (system headers and externals are skipped), analysed
// through template instantiations, with compile-time constants evaluated by
// clang's constant evaluator.  No verdicts are made here; rules live in python.
//
// usage: tsa-extract --root=/repo --out=facts.json file.cpp -- <compile flags>

#include "clang/AST/ASTConsumer.h"
#include "clang/AST/ASTContext.h"
#include "clang/AST/DeclTemplate.h"
#include "clang/AST/ExprCXX.h"
#include "clang/AST/RecursiveASTVisitor.h"
#include "clang/AST/StmtCXX.h"
#include "clang/Frontend/CompilerInstance.h"
#include "clang/Frontend/FrontendAction.h"
#include "clang/Lex/Lexer.h"
#include "clang/Tooling/CompilationDatabase.h"
#include "clang/Tooling/Tooling.h"
#include "llvm/Support/JSON.h"
#include "llvm/Support/raw_ostream.h"
#include <deque>
#include <set>
#include <string>

using namespace clang;
namespace json = llvm::json;

static std::string gRoot = "/repo";
static std::string gOut = "facts.json";

namespace {

class Extractor {
public:
    Extractor(ASTContext& ctx, json::OStream& j) : Ctx(ctx), SM(ctx.getSourceManager()), J(j) {
        PP = PrintingPolicy(ctx.getLangOpts());
        PP.SuppressTagKeyword = true;
        PP.Bool = true;
        PP.SuppressUnwrittenScope = true;
        PP.FullyQualifiedName = true;
        PP.PrintCanonicalTypes = true;
    }

    // ---------------------------------------------------------------- locations
    std::string fileOf(SourceLocation loc) const {
        if (loc.isInvalid())
            return "";
        SourceLocation e = SM.getExpansionLoc(loc);
        return SM.getFilename(e).str();
    }
    unsigned lineOf(SourceLocation loc) const {
        if (loc.isInvalid())
            return 0;
        return SM.getExpansionLineNumber(loc);
    }
    unsigned colOf(SourceLocation loc) const {
        if (loc.isInvalid())
            return 0;
        return SM.getExpansionColumnNumber(loc);
    }
    bool inRepo(SourceLocation loc) const {
        std::string f = fileOf(loc);
        if (f.empty())
            return false;
        // normalise a/../b
        llvm::SmallString<256> p(f);
        llvm::sys::path::remove_dots(p, true);
        std::string s = p.str().str();
        if (s.compare(0, gRoot.size(), gRoot) != 0)
            return false;
        std::string rel = s.substr(gRoot.size());
        if (rel.compare(0, 11, "/externals/") == 0)
            return false;
        if (rel.compare(0, 8, "/_build/") == 0)
            return false;
        return true;
    }
    std::string relFile(SourceLocation loc) const {
        std::string f = fileOf(loc);
        llvm::SmallString<256> p(f);
        llvm::sys::path::remove_dots(p, true);
        std::string s = p.str().str();
        if (s.compare(0, gRoot.size(), gRoot) == 0)
            return s.substr(gRoot.size() + 1);
        return s;
    }

    // -------------------------------------------------------------------- types
    std::string typeStr(QualType t) const {
        if (t.isNull())
            return "?";
        return t.getCanonicalType().getAsString(PP);
    }

    void apsint(const llvm::APSInt& v) {
        if (v.isSigned())
            J.value((int64_t)v.getExtValue());
        else {
            uint64_t u = v.getZExtValue();
            if (u <= (uint64_t)INT64_MAX)
                J.value((int64_t)u);
            else
                J.value(std::to_string(u)); // keep exact as string
        }
    }

    void apvalue(const APValue& v, int depth = 0) {
        if (depth > 6) {
            J.value(nullptr);
            return;
        }
        switch (v.getKind()) {
        case APValue::Int:
            apsint(v.getInt());
            break;
        case APValue::Struct:
            J.array([&] {
                for (unsigned i = 0; i < v.getStructNumBases(); ++i)
                    apvalue(v.getStructBase(i), depth + 1);
                for (unsigned i = 0; i < v.getStructNumFields(); ++i)
                    apvalue(v.getStructField(i), depth + 1);
            });
            break;
        case APValue::Array:
            J.array([&] {
                for (unsigned i = 0; i < v.getArrayInitializedElts(); ++i)
                    apvalue(v.getArrayInitializedElt(i), depth + 1);
                if (v.hasArrayFiller())
                    for (unsigned i = v.getArrayInitializedElts(); i < v.getArraySize(); ++i)
                        apvalue(v.getArrayFiller(), depth + 1);
            });
            break;
        case APValue::MemberPointer: {
            const ValueDecl* d = v.getMemberPointerDecl();
            J.value(d ? d->getQualifiedNameAsString() : std::string("null"));
            break;
        }
        default:
            J.value(nullptr);
        }
    }

    void templateArg(const TemplateArgument& a, int depth) {
        switch (a.getKind()) {
        case TemplateArgument::Type:
            J.object([&] {
                J.attributeBegin("t");
                typeJ(a.getAsType(), depth + 1);
                J.attributeEnd();
            });
            break;
        case TemplateArgument::Integral:
            J.object([&] {
                J.attributeBegin("i");
                apsint(a.getAsIntegral());
                J.attributeEnd();
                QualType it = a.getIntegralType();
                J.attribute("it", typeStr(it));
                if (const auto* et = it->getAs<EnumType>()) {
                    for (const auto* ec : et->getDecl()->enumerators())
                        if (llvm::APSInt::isSameValue(ec->getInitVal(), a.getAsIntegral())) {
                            J.attribute("en", ec->getNameAsString());
                            break;
                        }
                }
            });
            break;
        case TemplateArgument::Declaration:
            J.object([&] { J.attribute("d", a.getAsDecl()->getQualifiedNameAsString()); });
            break;
        case TemplateArgument::Pack:
            J.object([&] {
                J.attributeArray("pack", [&] {
                    for (const auto& p : a.pack_elements())
                        templateArg(p, depth);
                });
            });
            break;
        case TemplateArgument::NullPtr:
            J.object([&] { J.attribute("d", "nullptr"); });
            break;
        case TemplateArgument::Template:
            J.object([&] {
                std::string s;
                llvm::raw_string_ostream os(s);
                a.getAsTemplate().print(os, PP);
                J.attribute("tmpl", os.str());
            });
            break;
        default:
            J.object([&] { J.attribute("other", (int)a.getKind()); });
        }
    }

    // static constexpr data members of a record, evaluated
    void staticsOf(const CXXRecordDecl* rd) {
        J.attributeObject("statics", [&] {
            for (const Decl* d : rd->decls()) {
                const auto* vd = dyn_cast<VarDecl>(d);
                if (!vd || !vd->isStaticDataMember())
                    continue;
                if (!vd->getType().isConstQualified() && !vd->isConstexpr())
                    continue;
                const VarDecl* def = vd;
                const Expr* init = vd->getAnyInitializer(def);
                if (!init || init->isValueDependent())
                    continue;
                const APValue* v = def->evaluateValue();
                if (!v)
                    continue;
                J.attributeBegin(vd->getNameAsString());
                apvalue(*v);
                J.attributeEnd();
            }
        });
    }

    // structured type description (records / template specialisations)
    void typeJ(QualType t, int depth = 0) {
        J.object([&] {
            J.attribute("s", typeStr(t));
            if (t.isNull() || depth > 7)
                return;
            QualType c = t.getCanonicalType();
            if (c.isConstQualified())
                J.attribute("const", true);
            if (c->isReferenceType()) {
                J.attribute("ref", true);
                J.attributeBegin("pointee");
                typeJ(c->getPointeeType(), depth + 1);
                J.attributeEnd();
                return;
            }
            if (c->isPointerType()) {
                J.attribute("ptr", true);
                J.attributeBegin("pointee");
                typeJ(c->getPointeeType(), depth + 1);
                J.attributeEnd();
                return;
            }
            if (const auto* at = Ctx.getAsConstantArrayType(c)) {
                J.attribute("carray", (int64_t)at->getSize().getZExtValue());
                J.attributeBegin("elem");
                typeJ(at->getElementType(), depth + 1);
                J.attributeEnd();
                return;
            }
            if (c->isBooleanType())
                J.attribute("cls", "bool");
            else if (c->isEnumeralType()) {
                J.attribute("cls", "enum");
                const EnumDecl* ed = c->castAs<EnumType>()->getDecl();
                J.attribute("bits", (int64_t)Ctx.getTypeSize(c));
                J.attribute("name", ed->getQualifiedNameAsString());
            } else if (c->isIntegerType()) {
                J.attribute("cls", "int");
                J.attribute("bits", (int64_t)Ctx.getTypeSize(c));
                J.attribute("signed", c->isSignedIntegerType());
            } else if (c->isFloatingType())
                J.attribute("cls", "float");
            else if (const auto* rt = c->getAs<RecordType>()) {
                const auto* rd = dyn_cast<CXXRecordDecl>(rt->getDecl());
                J.attribute("cls", "record");
                if (rd) {
                    J.attribute("name", rd->getQualifiedNameAsString());
                    if (const auto* sp = dyn_cast<ClassTemplateSpecializationDecl>(rd)) {
                        J.attribute("tn", sp->getSpecializedTemplate()->getQualifiedNameAsString());
                        J.attributeArray("ta", [&] {
                            for (const auto& a : sp->getTemplateArgs().asArray())
                                templateArg(a, depth);
                        });
                    }
                    if (rd->isLambda())
                        J.attribute("lambda", true);
                    if (rd->hasDefinition() && inRepo(rd->getLocation()) && depth <= 3) {
                        staticsOf(rd);
                        if (rd->getNumBases()) {
                            J.attributeArray("bases", [&] {
                                for (const auto& b : rd->bases())
                                    typeJ(b.getType(), depth + 1);
                            });
                        }
                    }
                }
            }
        });
    }

    // --------------------------------------------------------------- decl names
    std::string funcId(const FunctionDecl* fd) {
        fd = fd->getCanonicalDecl();
        auto it = FuncIds.find(fd);
        if (it != FuncIds.end())
            return it->second;
        std::string s;
        if (const auto* md = dyn_cast<CXXMethodDecl>(fd)) {
            const CXXRecordDecl* parent = md->getParent();
            if (parent->isLambda()) {
                // lambda call operator: name after the enclosing function + position
                std::string encl = "?";
                const DeclContext* dc = parent->getDeclContext();
                while (dc && !isa<FunctionDecl>(dc) && !isa<TranslationUnitDecl>(dc))
                    dc = dc->getParent();
                if (dc && isa<FunctionDecl>(dc))
                    encl = funcId(cast<FunctionDecl>(dc));
                else if (const auto* nd = dyn_cast_or_null<NamedDecl>(
                             dyn_cast_or_null<Decl>(parent->getDeclContext())))
                    encl = nd->getQualifiedNameAsString();
                s = encl + "::<lambda@" + std::to_string(lineOf(parent->getLocation())) + ":" +
                    std::to_string(colOf(parent->getLocation())) + ">";
                if (fd->getPrimaryTemplate() || fd->isTemplateInstantiation()) {
                    s += "<";
                    if (const auto* ta = fd->getTemplateSpecializationArgs())
                        for (unsigned i = 0; i < ta->size(); ++i) {
                            if (i)
                                s += ",";
                            std::string a;
                            llvm::raw_string_ostream os(a);
                            ta->get(i).print(PP, os, true);
                            s += os.str();
                        }
                    s += ">";
                }
                if (fd->getOverloadedOperator() != OO_Call)
                    s += "::" + fd->getNameAsString();
                FuncIds[fd] = s;
                return s;
            }
        }
        llvm::raw_string_ostream os(s);
        fd->getNameForDiagnostic(os, PP, true);
        os.flush();
        s += "(";
        bool first = true;
        for (const ParmVarDecl* p : fd->parameters()) {
            if (!first)
                s += ",";
            first = false;
            s += typeStr(p->getType());
        }
        s += ")";
        if (const auto* md = dyn_cast<CXXMethodDecl>(fd))
            if (md->isConst())
                s += " const";
        FuncIds[fd] = s;
        return s;
    }

    std::string recName(const CXXRecordDecl* rd) {
        if (rd->isLambda()) {
            return "<lambda@" + relFile(rd->getLocation()) + ":" +
                   std::to_string(lineOf(rd->getLocation())) + ":" +
                   std::to_string(colOf(rd->getLocation())) + ">";
        }
        return typeStr(Ctx.getRecordType(rd));
    }

    // -------------------------------------------------------------- expressions
    static const Expr* strip(const Expr* e) {
        while (e) {
            if (const auto* p = dyn_cast<ParenExpr>(e))
                e = p->getSubExpr();
            else if (const auto* c = dyn_cast<ExprWithCleanups>(e))
                e = c->getSubExpr();
            else if (const auto* m = dyn_cast<MaterializeTemporaryExpr>(e))
                e = m->getSubExpr();
            else if (const auto* b = dyn_cast<CXXBindTemporaryExpr>(e))
                e = b->getSubExpr();
            else if (const auto* s = dyn_cast<SubstNonTypeTemplateParmExpr>(e))
                e = s->getReplacement();
            else if (const auto* ce = dyn_cast<ConstantExpr>(e))
                e = ce->getSubExpr();
            else if (const auto* d = dyn_cast<CXXDefaultArgExpr>(e))
                e = d->getExpr();
            else if (const auto* di = dyn_cast<CXXDefaultInitExpr>(e))
                e = di->getExpr();
            else if (const auto* ic = dyn_cast<ImplicitCastExpr>(e)) {
                switch (ic->getCastKind()) {
                case CK_IntegralCast:
                case CK_IntegralToBoolean:
                case CK_BooleanToSignedIntegral:
                case CK_UserDefinedConversion:
                case CK_ConstructorConversion:
                case CK_DerivedToBase:
                case CK_UncheckedDerivedToBase:
                case CK_PointerToIntegral:
                case CK_IntegralToPointer:
                case CK_PointerToBoolean:
                    return e;
                default:
                    e = ic->getSubExpr();
                }
            } else
                break;
        }
        return e;
    }

    std::string macroNameAt(SourceLocation loc) {
        if (!loc.isMacroID())
            return "";
        // outermost macro whose expansion produced this token
        SourceLocation l = loc;
        std::string name;
        while (l.isMacroID()) {
            name = Lexer::getImmediateMacroName(l, SM, Ctx.getLangOpts()).str();
            l = SM.getImmediateMacroCallerLoc(l);
        }
        return name;
    }

    void tryConst(const Expr* e, bool& isConst) {
        isConst = false;
        if (!e || e->isValueDependent() || e->isTypeDependent())
            return;
        QualType t = e->getType();
        if (t.isNull() || !(t->isIntegralOrEnumerationType()))
            return;
        if (isa<IntegerLiteral>(e) || isa<CXXBoolLiteralExpr>(e) || isa<CharacterLiteral>(e))
            return;
        Expr::EvalResult r;
        if (e->EvaluateAsInt(r, Ctx, Expr::SE_NoSideEffects)) {
            J.attributeBegin("cv");
            apsint(r.Val.getInt());
            J.attributeEnd();
            isConst = true;
        }
    }

    void exprAttr(const char* key, const Expr* e, bool noConst = false) {
        J.attributeBegin(key);
        expr(e, noConst);
        J.attributeEnd();
    }

    void declRefCommon(const ValueDecl* d) {
        J.attribute("name", d->getNameAsString());
        if (const auto* fd = dyn_cast<FunctionDecl>(d)) {
            J.attribute("dk", "func");
            J.attribute("fn", funcId(fd));
        } else if (const auto* pv = dyn_cast<ParmVarDecl>(d)) {
            J.attribute("dk", "parm");
            J.attribute("idx", (int64_t)pv->getFunctionScopeIndex());
        } else if (const auto* vd = dyn_cast<VarDecl>(d)) {
            if (vd->isLocalVarDecl()) {
                J.attribute("dk", vd->isStaticLocal() ? "staticlocal" : "local");
                J.attribute("dl", (int64_t)(lineOf(vd->getLocation()) * 1000 + colOf(vd->getLocation())));
            }
            else if (vd->isStaticDataMember()) {
                J.attribute("dk", "staticmember");
                J.attribute("qn", vd->getQualifiedNameAsString());
            } else {
                J.attribute("dk", "global");
                J.attribute("qn", vd->getQualifiedNameAsString());
            }
            if (vd->getType()->isReferenceType())
                J.attribute("isref", true);
            // constexpr aggregates (e.g. RejectorCreator<...>::rejector)
            if ((vd->isConstexpr() || vd->getType().isConstQualified()) &&
                !vd->getType()->isIntegralOrEnumerationType() && !vd->isLocalVarDecl()) {
                const VarDecl* def = vd;
                const Expr* init = vd->getAnyInitializer(def);
                if (init && !init->isValueDependent()) {
                    if (const APValue* v = def->evaluateValue()) {
                        if (v->isStruct() || v->isArray()) {
                            J.attributeBegin("av");
                            apvalue(*v);
                            J.attributeEnd();
                        }
                    }
                }
            }
            Vars.insert(vd);
        } else if (const auto* ec = dyn_cast<EnumConstantDecl>(d)) {
            J.attribute("dk", "enum");
            J.attribute("qn", ec->getQualifiedNameAsString());
        } else if (const auto* bd = dyn_cast<BindingDecl>(d)) {
            J.attribute("dk", "binding");
            (void)bd;
        } else if (isa<FieldDecl>(d)) {
            J.attribute("dk", "field");
        } else {
            J.attribute("dk", "other");
        }
    }

    // structured description of the class owning a callee, when it is a
    // template specialisation (used for MatcherCreator<...>::Create etc.)
    void calleeOwner(const FunctionDecl* fd) {
        if (const auto* md = dyn_cast<CXXMethodDecl>(fd)) {
            const CXXRecordDecl* rd = md->getParent();
            if (isa<ClassTemplateSpecializationDecl>(rd) && inRepo(rd->getLocation())) {
                J.attributeBegin("owner");
                typeJ(Ctx.getRecordType(rd), 0);
                J.attributeEnd();
            }
        }
        if (fd->isTemplateInstantiation() && inRepo(fd->getLocation())) {
            if (const auto* ta = fd->getTemplateSpecializationArgs()) {
                J.attributeArray("fta", [&] {
                    for (const auto& a : ta->asArray())
                        templateArg(a, 1);
                });
            }
        }
    }

    void expr(const Expr* e0, bool noConst = false) {
        const Expr* e = strip(e0);
        if (!e) {
            J.value(nullptr);
            return;
        }
        J.object([&] {
            unsigned line = lineOf(e->getBeginLoc());
            // ASSERT / UNREACHABLE macros from crash.h
            if (e->getBeginLoc().isMacroID()) {
                std::string mn = macroNameAt(e->getBeginLoc());
                if (mn == "ASSERT") {
                    if (const auto* co = dyn_cast<ConditionalOperator>(e)) {
                        J.attribute("k", "assert");
                        J.attribute("l", (int64_t)line);
                        exprAttr("cond", co->getCond());
                        return;
                    }
                } else if (mn == "UNREACHABLE") {
                    if (isa<CallExpr>(e)) {
                        J.attribute("k", "unreachable");
                        J.attribute("l", (int64_t)line);
                        return;
                    }
                }
            }
            J.attribute("l", (int64_t)line);
            if (!e->getType().isNull())
                J.attribute("t", typeStr(e->getType()));
            bool isConst = false;
            if (!noConst)
                tryConst(e, isConst);
            bool nc = noConst; (void)isConst; // children of a constant are evaluated too (rules look at sub-expressions)

            if (const auto* il = dyn_cast<IntegerLiteral>(e)) {
                J.attribute("k", "int");
                J.attributeBegin("v");
                apsint(llvm::APSInt(il->getValue(), !il->getType()->isSignedIntegerType()));
                J.attributeEnd();
            } else if (const auto* bl = dyn_cast<CXXBoolLiteralExpr>(e)) {
                J.attribute("k", "int");
                J.attribute("v", (int64_t)(bl->getValue() ? 1 : 0));
            } else if (const auto* cl = dyn_cast<CharacterLiteral>(e)) {
                J.attribute("k", "int");
                J.attribute("v", (int64_t)cl->getValue());
            } else if (const auto* sl = dyn_cast<clang::StringLiteral>(e)) {
                J.attribute("k", "str");
                if (sl->getCharByteWidth() == 1)
                    J.attribute("v", sl->getString().str());
            } else if (isa<CXXNullPtrLiteralExpr>(e)) {
                J.attribute("k", "nullptr");
            } else if (isa<FloatingLiteral>(e)) {
                J.attribute("k", "float");
            } else if (const auto* dr = dyn_cast<DeclRefExpr>(e)) {
                J.attribute("k", "ref");
                declRefCommon(dr->getDecl());
            } else if (const auto* me = dyn_cast<MemberExpr>(e)) {
                const ValueDecl* md = me->getMemberDecl();
                if (const auto* fd = dyn_cast<FieldDecl>(md)) {
                    J.attribute("k", "mem");
                    J.attribute("name", fd->getNameAsString());
                    J.attribute("cls", recName(cast<CXXRecordDecl>(fd->getParent())));
                    J.attribute("arrow", me->isArrow());
                    exprAttr("base", me->getBase(), nc);
                } else if (const auto* fn = dyn_cast<FunctionDecl>(md)) {
                    J.attribute("k", "memfn");
                    J.attribute("fn", funcId(fn));
                    exprAttr("base", me->getBase(), nc);
                } else {
                    J.attribute("k", "ref");
                    declRefCommon(md);
                }
            } else if (isa<CXXThisExpr>(e)) {
                J.attribute("k", "this");
            } else if (const auto* ce = dyn_cast<CXXMemberCallExpr>(e)) {
                J.attribute("k", "call");
                const CXXMethodDecl* md = ce->getMethodDecl();
                if (md) {
                    J.attribute("fn", funcId(md));
                    J.attribute("name", md->getNameAsString());
                    J.attribute("cls", recName(md->getParent()));
                    if (md->isVirtual())
                        J.attribute("virtual", true);
                    calleeOwner(md);
                }
                if (const Expr* obj = ce->getImplicitObjectArgument())
                    exprAttr("obj", obj, nc);
                if (!md)
                    exprAttr("callee", ce->getCallee(), nc);
                J.attributeArray("args", [&] {
                    for (const Expr* a : ce->arguments())
                        expr(a, nc);
                });
            } else if (const auto* oc = dyn_cast<CXXOperatorCallExpr>(e)) {
                J.attribute("k", "opcall");
                J.attribute("op", getOperatorSpelling(oc->getOperator()));
                if (const FunctionDecl* fd = oc->getDirectCallee()) {
                    J.attribute("fn", funcId(fd));
                    if (const auto* md = dyn_cast<CXXMethodDecl>(fd))
                        J.attribute("cls", recName(md->getParent()));
                }
                J.attributeArray("args", [&] {
                    for (const Expr* a : oc->arguments())
                        expr(a, nc);
                });
            } else if (const auto* c = dyn_cast<CallExpr>(e)) {
                J.attribute("k", "call");
                if (const FunctionDecl* fd = c->getDirectCallee()) {
                    J.attribute("fn", funcId(fd));
                    J.attribute("name", fd->getNameAsString());
                    if (const auto* md = dyn_cast<CXXMethodDecl>(fd))
                        J.attribute("cls", recName(md->getParent()));
                    calleeOwner(fd);
                } else {
                    exprAttr("callee", c->getCallee(), nc);
                }
                J.attributeArray("args", [&] {
                    for (const Expr* a : c->arguments())
                        expr(a, nc);
                });
            } else if (const auto* bo = dyn_cast<BinaryOperator>(e)) {
                J.attribute("k", bo->isAssignmentOp() ? "assign" : "bin");
                J.attribute("op", bo->getOpcodeStr().str());
                if (const auto* cao = dyn_cast<CompoundAssignOperator>(bo))
                    J.attribute("ct", typeStr(cao->getComputationResultType()));
                exprAttr("lhs", bo->getLHS(), nc);
                exprAttr("rhs", bo->getRHS(), nc);
            } else if (const auto* uo = dyn_cast<UnaryOperator>(e)) {
                J.attribute("k", "un");
                std::string op = UnaryOperator::getOpcodeStr(uo->getOpcode()).str();
                if (uo->isPostfix())
                    op = "post" + op;
                J.attribute("op", op);
                exprAttr("e", uo->getSubExpr(), nc);
            } else if (const auto* co = dyn_cast<ConditionalOperator>(e)) {
                J.attribute("k", "cond");
                exprAttr("c", co->getCond(), nc);
                exprAttr("a", co->getTrueExpr(), nc);
                exprAttr("b", co->getFalseExpr(), nc);
            } else if (const auto* as = dyn_cast<ArraySubscriptExpr>(e)) {
                J.attribute("k", "index");
                exprAttr("base", as->getBase(), nc);
                exprAttr("idx", as->getIdx(), nc);
            } else if (const auto* ic = dyn_cast<ImplicitCastExpr>(e)) {
                J.attribute("k", "cast");
                J.attribute("implicit", true);
                J.attribute("ck", ic->getCastKindName());
                exprAttr("e", ic->getSubExpr(), nc);
            } else if (const auto* ec = dyn_cast<ExplicitCastExpr>(e)) {
                J.attribute("k", "cast");
                J.attribute("ck", ec->getCastKindName());
                exprAttr("e", ec->getSubExpr(), nc);
            } else if (const auto* cc = dyn_cast<CXXConstructExpr>(e)) {
                J.attribute("k", "construct");
                J.attribute("cls", recName(cc->getConstructor()->getParent()));
                J.attribute("fn", funcId(cc->getConstructor()));
                if (cc->getConstructor()->isCopyOrMoveConstructor())
                    J.attribute("copymove", true);
                if (cc->requiresZeroInitialization())
                    J.attribute("zeroinit", true);
                if (isa<CXXTemporaryObjectExpr>(cc))
                    J.attribute("temporary", true);
                J.attributeArray("args", [&] {
                    for (const Expr* a : cc->arguments())
                        expr(a, nc);
                });
            } else if (const auto* il2 = dyn_cast<InitListExpr>(e)) {
                J.attribute("k", "initlist");
                const InitListExpr* sem = il2->isSemanticForm() ? il2 : il2->getSemanticForm();
                if (!sem)
                    sem = il2;
                J.attributeArray("elts", [&] {
                    for (const Expr* a : sem->inits())
                        expr(a, nc);
                });
                if (sem->hasArrayFiller())
                    J.attribute("filler", true);
            } else if (isa<ImplicitValueInitExpr>(e) || isa<CXXScalarValueInitExpr>(e)) {
                J.attribute("k", "valueinit");
            } else if (const auto* le = dyn_cast<LambdaExpr>(e)) {
                J.attribute("k", "lambda");
                const CXXMethodDecl* op = le->getCallOperator();
                J.attribute("fn", funcId(op));
                J.attribute("cls", recName(le->getLambdaClass()));
                J.attributeArray("caps", [&] {
                    auto initIt = le->capture_init_begin();
                    for (const LambdaCapture& cap : le->captures()) {
                        J.object([&] {
                            if (cap.capturesThis()) {
                                J.attribute("this", true);
                                J.attribute("byref", cap.getCaptureKind() == LCK_This);
                            } else if (cap.capturesVariable()) {
                                J.attribute("name", cap.getCapturedVar()->getNameAsString());
                                J.attribute("dl", (int64_t)(lineOf(cap.getCapturedVar()->getLocation()) * 1000 + colOf(cap.getCapturedVar()->getLocation())));
                                J.attribute("byref", cap.getCaptureKind() == LCK_ByRef);
                                J.attribute("t", typeStr(cap.getCapturedVar()->getType()));
                                if (const auto* pv = dyn_cast<ParmVarDecl>(cap.getCapturedVar()))
                                    J.attribute("parm", (int64_t)pv->getFunctionScopeIndex());
                            }
                            if (initIt != le->capture_init_end() && *initIt)
                                exprAttr("init", *initIt, true);
                        });
                        if (initIt != le->capture_init_end())
                            ++initIt;
                    }
                });
                queueLambda(le);
            } else if (const auto* th = dyn_cast<CXXThrowExpr>(e)) {
                J.attribute("k", "throw");
                if (th->getSubExpr())
                    exprAttr("e", th->getSubExpr(), nc);
            } else if (const auto* ne = dyn_cast<CXXNewExpr>(e)) {
                J.attribute("k", "new");
                J.attribute("of", typeStr(ne->getAllocatedType()));
                if (ne->getInitializer())
                    exprAttr("init", ne->getInitializer(), nc);
            } else if (isa<CXXDeleteExpr>(e)) {
                J.attribute("k", "delete");
            } else if (const auto* ut = dyn_cast<UnaryExprOrTypeTraitExpr>(e)) {
                J.attribute("k", "sizeof");
                (void)ut;
            } else if (const auto* sil = dyn_cast<CXXStdInitializerListExpr>(e)) {
                J.attribute("k", "stdinitlist");
                exprAttr("e", sil->getSubExpr(), nc);
            } else if (const auto* ov = dyn_cast<OpaqueValueExpr>(e)) {
                J.attribute("k", "opaque");
                if (ov->getSourceExpr())
                    exprAttr("e", ov->getSourceExpr(), nc);
            } else if (const auto* ai = dyn_cast<ArrayInitLoopExpr>(e)) {
                J.attribute("k", "arrayinitloop");
                exprAttr("e", ai->getCommonExpr(), nc);
            } else {
                J.attribute("k", "other");
                J.attribute("cl", e->getStmtClassName());
                J.attributeArray("ch", [&] {
                    for (const Stmt* ch : e->children())
                        if (const auto* ce2 = dyn_cast_or_null<Expr>(ch))
                            expr(ce2, nc);
                });
            }
        });
    }

    // --------------------------------------------------------------- statements
    void varDecl(const VarDecl* vd) {
        J.object([&] {
            J.attribute("k", "var");
            J.attribute("l", (int64_t)lineOf(vd->getLocation()));
            J.attribute("dl", (int64_t)(lineOf(vd->getLocation()) * 1000 + colOf(vd->getLocation())));
            J.attribute("name", vd->getNameAsString());
            J.attribute("t", typeStr(vd->getType()));
            if (vd->isStaticLocal())
                J.attribute("static", true);
            if (vd->getType().isConstQualified() || vd->isConstexpr())
                J.attribute("const", true);
            if (vd->getType()->isReferenceType())
                J.attribute("isref", true);
            if (const auto* dd = dyn_cast<DecompositionDecl>(vd)) {
                J.attributeArray("bindings", [&] {
                    for (const BindingDecl* b : dd->bindings())
                        J.value(b->getNameAsString());
                });
            }
            if (vd->hasInit())
                exprAttr("init", vd->getInit());
            if (vd->isStaticLocal())
                Vars.insert(vd);
        });
    }

    void stmtAttr(const char* key, const Stmt* s) {
        J.attributeBegin(key);
        stmt(s);
        J.attributeEnd();
    }

    void stmt(const Stmt* s) {
        if (!s) {
            J.value(nullptr);
            return;
        }
        if (const auto* e = dyn_cast<Expr>(s)) {
            expr(e);
            return;
        }
        J.object([&] {
            J.attribute("l", (int64_t)lineOf(s->getBeginLoc()));
            if (const auto* cs = dyn_cast<CompoundStmt>(s)) {
                J.attribute("k", "block");
                J.attributeArray("body", [&] {
                    for (const Stmt* c : cs->body())
                        stmt(c);
                });
            } else if (const auto* is = dyn_cast<IfStmt>(s)) {
                J.attribute("k", "if");
                if (is->isConstexpr())
                    J.attribute("constexpr", true);
                if (is->getInit())
                    stmtAttr("init", is->getInit());
                if (is->getConditionVariable()) {
                    J.attributeBegin("condvar");
                    varDecl(is->getConditionVariable());
                    J.attributeEnd();
                }
                exprAttr("cond", is->getCond());
                stmtAttr("then", is->getThen());
                if (is->getElse())
                    stmtAttr("else", is->getElse());
            } else if (const auto* ss = dyn_cast<SwitchStmt>(s)) {
                J.attribute("k", "switch");
                exprAttr("cond", ss->getCond());
                stmtAttr("body", ss->getBody());
            } else if (const auto* cs2 = dyn_cast<CaseStmt>(s)) {
                J.attribute("k", "case");
                exprAttr("val", cs2->getLHS());
                stmtAttr("sub", cs2->getSubStmt());
            } else if (const auto* ds = dyn_cast<DefaultStmt>(s)) {
                J.attribute("k", "default");
                stmtAttr("sub", ds->getSubStmt());
            } else if (const auto* fs = dyn_cast<ForStmt>(s)) {
                J.attribute("k", "for");
                if (fs->getInit())
                    stmtAttr("init", fs->getInit());
                if (fs->getCond())
                    exprAttr("cond", fs->getCond());
                if (fs->getInc())
                    exprAttr("inc", fs->getInc());
                stmtAttr("body", fs->getBody());
            } else if (const auto* rf = dyn_cast<CXXForRangeStmt>(s)) {
                J.attribute("k", "rangefor");
                J.attributeBegin("var");
                varDecl(rf->getLoopVariable());
                J.attributeEnd();
                exprAttr("range", rf->getRangeInit());
                stmtAttr("body", rf->getBody());
            } else if (const auto* ws = dyn_cast<WhileStmt>(s)) {
                J.attribute("k", "while");
                exprAttr("cond", ws->getCond());
                stmtAttr("body", ws->getBody());
            } else if (const auto* dw = dyn_cast<DoStmt>(s)) {
                J.attribute("k", "do");
                exprAttr("cond", dw->getCond());
                stmtAttr("body", dw->getBody());
            } else if (const auto* rs = dyn_cast<ReturnStmt>(s)) {
                J.attribute("k", "return");
                if (rs->getRetValue())
                    exprAttr("e", rs->getRetValue());
            } else if (isa<BreakStmt>(s)) {
                J.attribute("k", "break");
            } else if (isa<ContinueStmt>(s)) {
                J.attribute("k", "continue");
            } else if (isa<NullStmt>(s)) {
                J.attribute("k", "null");
            } else if (const auto* dcl = dyn_cast<DeclStmt>(s)) {
                J.attribute("k", "decl");
                J.attributeArray("vars", [&] {
                    for (const Decl* d : dcl->decls())
                        if (const auto* vd = dyn_cast<VarDecl>(d))
                            varDecl(vd);
                });
            } else if (const auto* at = dyn_cast<AttributedStmt>(s)) {
                J.attribute("k", "attributed");
                bool ft = false;
                for (const Attr* a : at->getAttrs())
                    if (isa<FallThroughAttr>(a))
                        ft = true;
                if (ft)
                    J.attribute("fallthrough", true);
                stmtAttr("sub", at->getSubStmt());
            } else if (const auto* ts = dyn_cast<CXXTryStmt>(s)) {
                J.attribute("k", "try");
                stmtAttr("body", ts->getTryBlock());
                J.attributeArray("handlers", [&] {
                    for (unsigned i = 0; i < ts->getNumHandlers(); ++i)
                        stmt(ts->getHandler(i)->getHandlerBlock());
                });
            } else if (isa<GotoStmt>(s) || isa<LabelStmt>(s)) {
                J.attribute("k", "goto");
            } else {
                J.attribute("k", "otherstmt");
                J.attribute("cl", s->getStmtClassName());
            }
        });
    }

    // ---------------------------------------------------------------- functions
    void queueLambda(const LambdaExpr* le) {
        const CXXMethodDecl* op = le->getCallOperator();
        if (FunctionTemplateDecl* ft = op->getDescribedFunctionTemplate()) {
            for (FunctionDecl* sp : ft->specializations())
                if (sp->doesThisDeclarationHaveABody())
                    Pending.push_back(sp);
        } else if (op->doesThisDeclarationHaveABody()) {
            Pending.push_back(op);
        }
    }

    void emitFunction(const FunctionDecl* fd) {
        if (!fd->doesThisDeclarationHaveABody())
            return;
        if (fd->isDependentContext())
            return;
        if (!inRepo(fd->getLocation()))
            return;
        if (!Done.insert(fd).second)
            return;
        J.object([&] {
            J.attribute("id", funcId(fd));
            J.attribute("name", fd->getNameAsString());
            J.attribute("qname", fd->getQualifiedNameAsString());
            J.attribute("file", relFile(fd->getLocation()));
            J.attribute("line", (int64_t)lineOf(fd->getBeginLoc()));
            J.attribute("endline", (int64_t)lineOf(fd->getEndLoc()));
            J.attribute("ret", typeStr(fd->getReturnType()));
            if (fd->isTemplateInstantiation())
                J.attribute("inst", true);
            if (const auto* ta = fd->getTemplateSpecializationArgs()) {
                J.attributeArray("ta", [&] {
                    for (const auto& a : ta->asArray())
                        templateArg(a, 0);
                });
            }
            if (const auto* md = dyn_cast<CXXMethodDecl>(fd)) {
                J.attribute("cls", recName(md->getParent()));
                if (md->isConst())
                    J.attribute("const", true);
                if (md->isStatic())
                    J.attribute("static", true);
                if (md->isVirtual()) {
                    J.attribute("virtual", true);
                    J.attributeArray("overrides", [&] {
                        for (const CXXMethodDecl* o : md->overridden_methods())
                            J.value(funcId(o));
                    });
                }
                if (md->getParent()->isLambda())
                    J.attribute("lambda", true);
                if (const auto* sp = dyn_cast<ClassTemplateSpecializationDecl>(md->getParent())) {
                    J.attributeBegin("owner");
                    typeJ(Ctx.getRecordType(sp), 0);
                    J.attributeEnd();
                }
            }
            if (isa<CXXConstructorDecl>(fd))
                J.attribute("ctor", true);
            if (isa<CXXDestructorDecl>(fd))
                J.attribute("dtor", true);
            if (fd->isExternC())
                J.attribute("externc", true);
            J.attributeArray("params", [&] {
                for (const ParmVarDecl* p : fd->parameters()) {
                    J.object([&] {
                        J.attribute("name", p->getNameAsString());
                        J.attribute("t", typeStr(p->getType()));
                        if (p->hasDefaultArg() && !p->hasUninstantiatedDefaultArg() &&
                            !p->hasUnparsedDefaultArg())
                            exprAttr("default", p->getDefaultArg());
                    });
                }
            });
            if (const auto* cd = dyn_cast<CXXConstructorDecl>(fd)) {
                J.attributeArray("inits", [&] {
                    for (const CXXCtorInitializer* ci : cd->inits()) {
                        J.object([&] {
                            if (ci->isAnyMemberInitializer())
                                J.attribute("member", ci->getAnyMember()->getNameAsString());
                            else if (ci->isBaseInitializer())
                                J.attribute("base", typeStr(QualType(ci->getBaseClass(), 0)));
                            else if (ci->isDelegatingInitializer())
                                J.attribute("delegating", true);
                            J.attribute("written", ci->isWritten());
                            if (ci->isInClassMemberInitializer())
                                J.attribute("inclass", true);
                            exprAttr("init", ci->getInit());
                        });
                    }
                });
            }
            stmtAttr("body", fd->getBody());
        });
    }

    // ------------------------------------------------------------------ records
    void emitRecord(const CXXRecordDecl* rd) {
        if (!rd->isCompleteDefinition() || rd->isDependentContext())
            return;
        if (!inRepo(rd->getLocation()))
            return;
        if (rd->isInjectedClassName())
            return;
        if (!DoneRec.insert(rd->getCanonicalDecl()).second)
            return;
        J.object([&] {
            J.attribute("name", recName(rd));
            J.attribute("qname", rd->getQualifiedNameAsString());
            J.attribute("file", relFile(rd->getLocation()));
            J.attribute("line", (int64_t)lineOf(rd->getLocation()));
            if (rd->isLambda())
                J.attribute("lambda", true);
            if (rd->isAggregate())
                J.attribute("aggregate", true);
            if (rd->isPolymorphic())
                J.attribute("polymorphic", true);
            if (rd->isAbstract())
                J.attribute("abstract", true);
            J.attribute("trivial_default_ctor", rd->hasTrivialDefaultConstructor());
            J.attribute("user_default_ctor", rd->hasUserProvidedDefaultConstructor());
            J.attribute("user_declared_ctor", rd->hasUserDeclaredConstructor());
            J.attribute("has_default_ctor", rd->hasDefaultConstructor());
            if (const auto* sp = dyn_cast<ClassTemplateSpecializationDecl>(rd)) {
                J.attribute("tn", sp->getSpecializedTemplate()->getQualifiedNameAsString());
                J.attributeArray("ta", [&] {
                    for (const auto& a : sp->getTemplateArgs().asArray())
                        templateArg(a, 0);
                });
            }
            J.attributeArray("bases", [&] {
                for (const auto& b : rd->bases())
                    typeJ(b.getType(), 1);
            });
            J.attributeArray("fields", [&] {
                for (const FieldDecl* f : rd->fields()) {
                    J.object([&] {
                        J.attribute("name", f->getNameAsString());
                        J.attribute("l", (int64_t)lineOf(f->getLocation()));
                        J.attributeBegin("t");
                        typeJ(f->getType(), 1);
                        J.attributeEnd();
                        if (f->isMutable())
                            J.attribute("mutable", true);
                        J.attribute("access", (int64_t)f->getAccess());
                        if (f->hasInClassInitializer() && f->getInClassInitializer())
                            exprAttr("init", f->getInClassInitializer());
                    });
                }
            });
            staticsOf(rd);
            J.attributeArray("methods", [&] {
                for (const CXXMethodDecl* m : rd->methods()) {
                    if (m->isImplicit())
                        continue;
                    J.object([&] {
                        J.attribute("id", funcId(m));
                        J.attribute("name", m->getNameAsString());
                        if (m->isVirtual())
                            J.attribute("virtual", true);
                        if (m->isPure())
                            J.attribute("pure", true);
                        if (m->isDefaulted())
                            J.attribute("defaulted", true);
                        if (m->isDeleted())
                            J.attribute("deleted", true);
                        if (isa<CXXConstructorDecl>(m))
                            J.attribute("ctor", true);
                        J.attribute("access", (int64_t)m->getAccess());
                        if (m->isVirtual())
                            J.attributeArray("overrides", [&] {
                                for (const CXXMethodDecl* o : m->overridden_methods())
                                    J.value(funcId(o));
                            });
                    });
                }
            });
        });
    }

    void emitEnum(const EnumDecl* ed) {
        if (!ed->isCompleteDefinition() || !inRepo(ed->getLocation()))
            return;
        if (!DoneEnum.insert(ed->getCanonicalDecl()).second)
            return;
        J.object([&] {
            J.attribute("name", ed->getQualifiedNameAsString());
            J.attribute("file", relFile(ed->getLocation()));
            J.attribute("line", (int64_t)lineOf(ed->getLocation()));
            J.attribute("scoped", ed->isScoped());
            J.attribute("underlying", typeStr(ed->getIntegerType()));
            J.attributeArray("enumerators", [&] {
                for (const auto* ec : ed->enumerators()) {
                    J.object([&] {
                        J.attribute("name", ec->getNameAsString());
                        J.attributeBegin("v");
                        apsint(ec->getInitVal());
                        J.attributeEnd();
                    });
                }
            });
        });
    }

    void emitAlias(const TypedefNameDecl* td) {
        if (!inRepo(td->getLocation()))
            return;
        QualType t = td->getUnderlyingType();
        if (t.isNull() || t->isDependentType())
            return;
        if (isa<TemplateTypeParmType>(t.getTypePtr()))
            return;
        J.object([&] {
            J.attribute("name", td->getQualifiedNameAsString());
            J.attribute("file", relFile(td->getLocation()));
            J.attribute("line", (int64_t)lineOf(td->getLocation()));
            J.attributeBegin("t");
            typeJ(t, 0);
            J.attributeEnd();
        });
    }

    void emitVar(const VarDecl* vd) {
        if (!inRepo(vd->getLocation()))
            return;
        if (vd->isLocalVarDecl() && !vd->isStaticLocal())
            return;
        if (isa<ParmVarDecl>(vd))
            return;
        if (vd->getType()->isDependentType())
            return;
        if (vd->getDeclContext()->isDependentContext())
            return;
        if (!DoneVar.insert(vd->getCanonicalDecl()).second)
            return;
        J.object([&] {
            J.attribute("name", vd->getNameAsString());
            J.attribute("qname", vd->getQualifiedNameAsString());
            J.attribute("file", relFile(vd->getLocation()));
            J.attribute("line", (int64_t)lineOf(vd->getLocation()));
            J.attribute("t", typeStr(vd->getType()));
            J.attribute("const", vd->getType().isConstQualified() || vd->isConstexpr());
            J.attribute("constexpr", vd->isConstexpr());
            if (vd->isStaticLocal()) {
                J.attribute("staticlocal", true);
                const DeclContext* dc = vd->getDeclContext();
                while (dc && !isa<FunctionDecl>(dc))
                    dc = dc->getParent();
                if (dc)
                    J.attribute("func", funcId(cast<FunctionDecl>(dc)));
            }
            if (vd->isStaticDataMember())
                J.attribute("staticmember", true);
            J.attribute("tls", vd->getTLSKind() != VarDecl::TLS_None);
            const VarDecl* def = vd;
            const Expr* init = vd->getAnyInitializer(def);
            if (init && !init->isValueDependent() &&
                (vd->isConstexpr() || vd->getType().isConstQualified())) {
                if (const APValue* v = def->evaluateValue()) {
                    J.attributeBegin("cv");
                    apvalue(*v);
                    J.attributeEnd();
                }
            }
        });
    }

    // ------------------------------------------------------------------- driver
    std::deque<const FunctionDecl*> Pending;
    std::set<const VarDecl*> Vars;
    std::vector<const FunctionDecl*> TopFuncs;
    std::vector<const CXXRecordDecl*> Records;
    std::vector<const EnumDecl*> Enums;
    std::vector<const TypedefNameDecl*> Aliases;
    std::vector<const VarDecl*> TopVars;

    void run() {
        J.object([&] {
            J.attribute("root", gRoot);
            J.attributeArray("functions", [&] {
                for (const FunctionDecl* fd : TopFuncs)
                    emitFunction(fd);
                while (!Pending.empty()) {
                    const FunctionDecl* fd = Pending.front();
                    Pending.pop_front();
                    emitFunction(fd);
                }
            });
            J.attributeArray("records", [&] {
                for (const CXXRecordDecl* rd : Records)
                    emitRecord(rd);
            });
            J.attributeArray("enums", [&] {
                for (const EnumDecl* ed : Enums)
                    emitEnum(ed);
            });
            J.attributeArray("aliases", [&] {
                for (const TypedefNameDecl* td : Aliases)
                    emitAlias(td);
            });
            J.attributeArray("vars", [&] {
                for (const VarDecl* vd : TopVars)
                    emitVar(vd);
                for (const VarDecl* vd : Vars)
                    emitVar(vd);
            });
        });
    }

private:
    ASTContext& Ctx;
    SourceManager& SM;
    json::OStream& J;
    PrintingPolicy PP{LangOptions()};
    std::map<const FunctionDecl*, std::string> FuncIds;
    std::set<const FunctionDecl*> Done;
    std::set<const CXXRecordDecl*> DoneRec;
    std::set<const EnumDecl*> DoneEnum;
    std::set<const VarDecl*> DoneVar;
};

class Collector : public RecursiveASTVisitor<Collector> {
public:
    explicit Collector(Extractor& x) : X(x) {}
    bool shouldVisitTemplateInstantiations() const {
        return true;
    }
    bool shouldVisitImplicitCode() const {
        return false;
    }
    bool VisitFunctionDecl(FunctionDecl* fd) {
        if (fd->doesThisDeclarationHaveABody() && !fd->isDependentContext() &&
            X.inRepo(fd->getLocation()))
            X.TopFuncs.push_back(fd);
        return true;
    }
    bool VisitCXXRecordDecl(CXXRecordDecl* rd) {
        if (rd->isCompleteDefinition() && !rd->isDependentContext() && X.inRepo(rd->getLocation()))
            X.Records.push_back(rd);
        return true;
    }
    bool VisitEnumDecl(EnumDecl* ed) {
        if (X.inRepo(ed->getLocation()))
            X.Enums.push_back(ed);
        return true;
    }
    bool VisitTypedefNameDecl(TypedefNameDecl* td) {
        if (X.inRepo(td->getLocation()) && !td->getDeclContext()->isDependentContext())
            X.Aliases.push_back(td);
        return true;
    }
    bool VisitVarDecl(VarDecl* vd) {
        if (X.inRepo(vd->getLocation()) && !isa<ParmVarDecl>(vd) &&
            (!vd->isLocalVarDecl() || vd->isStaticLocal()))
            X.TopVars.push_back(vd);
        return true;
    }

private:
    Extractor& X;
};

class Consumer : public ASTConsumer {
public:
    void HandleTranslationUnit(ASTContext& ctx) override {
        if (ctx.getDiagnostics().hasErrorOccurred()) {
            llvm::errs() << "tsa-extract: compile errors, no facts written\n";
            return;
        }
        std::error_code ec;
        llvm::raw_fd_ostream os(gOut, ec);
        if (ec) {
            llvm::errs() << "tsa-extract: cannot write " << gOut << "\n";
            return;
        }
        json::OStream J(os, 0);
        Extractor X(ctx, J);
        Collector C(X);
        C.TraverseDecl(ctx.getTranslationUnitDecl());
        X.run();
        os << "\n";
    }
};

class Action : public ASTFrontendAction {
public:
    std::unique_ptr<ASTConsumer> CreateASTConsumer(CompilerInstance&, StringRef) override {
        return std::make_unique<Consumer>();
    }
};

} // namespace

int main(int argc, const char** argv) {
    std::string err;
    auto db = tooling::FixedCompilationDatabase::loadFromCommandLine(argc, argv, err);
    if (!db) {
        llvm::errs() << "usage: tsa-extract --root=R --out=O file.cpp -- flags\n" << err << "\n";
        return 2;
    }
    std::vector<std::string> files;
    for (int i = 1; i < argc; ++i) {
        std::string a = argv[i];
        if (a.rfind("--root=", 0) == 0)
            gRoot = a.substr(7);
        else if (a.rfind("--out=", 0) == 0)
            gOut = a.substr(6);
        else
            files.push_back(a);
    }
    while (gRoot.size() > 1 && gRoot.back() == '/')
        gRoot.pop_back();
    if (files.size() != 1) {
        llvm::errs() << "tsa-extract: exactly one source file expected\n";
        return 2;
    }
    tooling::ClangTool tool(*db, files);
    int rc = tool.run(tooling::newFrontendActionFactory<Action>().get());
    return rc;
}
