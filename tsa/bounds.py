"""Bound reasoning shared by C18 / C20: guard narrowing, caller-derived
parameter bounds, inferred bounds of plain fields (join over all writers)."""
from .astq import walk, field_path, unwrap_casts, const_value, direct_writes
from .guards import guards_at
from .intervals import Intervals, join, trange

NEG = {'<': '>=', '<=': '>', '>': '<=', '>=': '<', '==': '!=', '!=': '=='}
FLIP = {'<': '>', '<=': '>=', '>': '<', '>=': '<=', '==': '==', '!=': '!='}


def callers_index(F):
    """fn id -> [(caller function, call-like node with 'args')]; std::bind(&C::M, obj, a...) counts as a call of M
       with arguments a... (placeholders are unbounded values of their type)"""
    idx = {}
    for fid, f in F['functions'].items():
        for n in walk(f.get('body')):
            if n.get('k') in ('call', 'construct') and n.get('fn'):
                idx.setdefault(n['fn'], []).append((f, n))
                if str(n['fn']).startswith('std::bind<') and n.get('args'):
                    tgt = None
                    for x in walk(n['args'][0]):
                        if x.get('dk') == 'func':
                            tgt = x.get('fn')
                    if tgt:
                        bargs = []
                        for a in n['args'][2:]:
                            a2 = unwrap_casts(a)
                            if isinstance(a2, dict) and a2.get('k') == 'ref' and str(a2.get('qn', '')).startswith('std::placeholders::_'):
                                bargs.append({'k': 'skip'})   # supplied by the slot invocation
                            else:
                                bargs.append(a)
                        idx.setdefault(tgt, []).append((f, {'k': 'bind', 'l': n.get('l'), 'args': bargs, 'fn': tgt}))
    # std::function slots: an invocation of the slot is a call of every callable wired into it
    try:
        from .wiring import Wiring
        W = Wiring(F, lambda f: True)
        for key, sl in W.slots.items():
            for fn, mapping, t in W.target_functions(key):
                callee = F['functions'].get(fn)
                if callee is None:
                    continue
                npar = len(callee.get('params', []))
                for inv in sl['invokes']:
                    args = []
                    for i in range(npar):
                        m = mapping.get(i)
                        if m is None:
                            args.append({'k': 'unknown'})
                        elif m[0] == 'arg':
                            args.append(inv['args'][m[1]] if m[1] < len(inv['args']) else {'k': 'unknown'})
                        else:
                            # bound arguments are evaluated at the std::bind site (in the binding function's context)
                            args.append({'k': 'skip'})
                    idx.setdefault(fn, []).append((inv['func'], {'k': 'slotcall', 'l': inv['node'].get('l'), 'args': args,
                                                                 'fn': fn, 'via': key, 'anchor': inv['node']}))
    except Exception:
        raise
    return idx


def intersect(a, b):
    if a is None:
        return b
    if b is None:
        return a
    lo, hi = max(a[0], b[0]), min(a[1], b[1])
    if lo > hi:
        return (lo, lo)
    return (lo, hi)


class Bounds:
    def __init__(self, F, fb, lib_filter, implications=None):
        self.implications = implications or []
        self.host_prefixes = ()
        self.host_boundaries = set()   # [(field key, (lo,hi) guard range) -> (field key, (lo,hi))]
        self.F = F
        self.fb = dict(fb)
        self.lib = lib_filter
        self.IV = Intervals(F, self.fb)
        self.callers = None
        self._pb = {}
        self._fieldb = {}

    def refresh(self):
        self.IV = Intervals(self.F, self.fb)
        self._pb = {}

    # ------------------------------------------------------------ guards
    def narrowing(self, func, node):
        """(penv, env, fieldb) implied by the guards that dominate `node` in func"""
        penv, env, fld = {}, {}, {}
        if isinstance(node, dict) and node.get('anchor') is not None:
            node = node['anchor']
        for c, pol, src in guards_at(func['body'], node):
            self._apply_guard(c, pol, func, penv, env, fld)
        for (gk, grange), (tk, trange_) in self.implications:
            g = fld.get(gk)
            if g is not None and g[0] >= grange[0] and g[1] <= grange[1]:
                fld[tk] = intersect(fld.get(tk), intersect(self.fb.get(tk), trange_))
        return penv, env, fld

    def _apply_guard(self, c, pol, func, penv, env, fld):
        c = unwrap_casts(c)
        if not isinstance(c, dict):
            return
        if c.get('k') == 'bin' and c.get('op') in ('<', '<=', '>', '>=', '==', '!='):
            op = c['op'] if pol else NEG[c['op']]
            l, r = c.get('lhs'), c.get('rhs')
            # (x >> k) == 0  <=>  x < 2^k
            lu = unwrap_casts(l)
            if isinstance(lu, dict) and lu.get('k') == 'bin' and lu.get('op') == '>>' and const_value(r) == 0 \
                    and const_value(lu.get('rhs')) is not None and op in ('==', '!='):
                kk = const_value(lu['rhs'])
                tgt = self._target(lu.get('lhs'))
                if tgt is not None:
                    rng = (None, (1 << kk) - 1) if op == '==' else ((1 << kk), None)
                    self._narrow(tgt, rng, lu['lhs'], func, penv, env, fld)
                return
            for x, k, o in ((l, r, op), (r, l, FLIP[op])):
                kv = self.IV.iv(k, func)
                if kv is None:
                    continue
                tgt = self._target(x)
                if tgt is None:
                    continue
                rng = None
                if o == '<':
                    rng = (None, kv[1] - 1)
                elif o == '<=':
                    rng = (None, kv[1])
                elif o == '>':
                    rng = (kv[0] + 1, None)
                elif o == '>=':
                    rng = (kv[0], None)
                elif o == '==':
                    rng = (kv[0], kv[1])
                elif o == '!=' and kv == (0, 0):
                    rng = (1, None)
                if rng is None:
                    continue
                self._narrow(tgt, rng, x, func, penv, env, fld)
        else:
            tgt = self._target(c)
            if tgt is not None:
                if pol:
                    self._narrow(tgt, (1, None), c, func, penv, env, fld)
                else:
                    self._narrow(tgt, (0, 0), c, func, penv, env, fld)

    @staticmethod
    def _target(x):
        x = unwrap_casts(x)
        if not isinstance(x, dict):
            return None
        if x.get('k') == 'ref' and x.get('dk') == 'parm':
            return ('parm', x['name'])
        if x.get('k') == 'ref' and x.get('dk') in ('local', 'binding'):
            return ('local', x['name'])
        p = field_path(x)
        if p is not None:
            return ('field', (p[0], p[1]))
        return None

    def _narrow(self, tgt, rng, x, func, penv, env, fld):
        kind, key = tgt
        base = self.IV.iv(x, func)
        if base is None:
            tr = self.IV.type_interval(x.get('t'))
            base = tr
        lo = rng[0] if rng[0] is not None else (base[0] if base else 0)
        hi = rng[1] if rng[1] is not None else (base[1] if base else (1 << 64) - 1)
        new = intersect(base, (lo, hi)) if base else (lo, hi)
        if kind == 'parm':
            penv[key] = intersect(penv.get(key), new)
        elif kind == 'local':
            env[key] = intersect(env.get(key), new)
        else:
            fld[key] = intersect(fld.get(key), new)

    # -------------------------------------------------------- evaluation at a node
    def at(self, func, node, expr, use_callers=True):
        """interval of `expr` evaluated at `node` of `func`, using dominating guards and,
           when parameters are involved, the join of the arguments at all library call sites"""
        penv, env, fld = self.narrowing(func, node)
        iv = self._eval(func, expr, penv, env, fld)
        return iv, (penv, env, fld)

    def _eval(self, func, expr, penv, env, fld):
        IV = self.IV
        if fld:
            IV = Intervals(self.F, {**self.fb, **{k: intersect(self.fb.get(k), v) for k, v in fld.items()}})
        e2 = dict(IV.local_env(func)) if func is not None else {}
        IV.narrow = env
        try:
            return IV.iv(expr, func, e2, penv)
        finally:
            IV.narrow = None

    def uses_params(self, e):
        return any(n.get('k') == 'ref' and n.get('dk') == 'parm' for n in walk(e))

    def param_bounds(self, f, depth=0):
        key = f['id']
        if key in self._pb:
            return self._pb[key]
        self._pb[key] = {}
        if self.callers is None:
            self.callers = callers_index(self.F)
        sites = [(cf, cn) for (cf, cn) in self.callers.get(f['id'], []) if self.lib(cf)]
        res = {}
        if sites:
            for pi, p in enumerate(f.get('params', [])):
                cur = None
                first = True
                ok = True
                for (cf, cn) in sites:
                    args = cn.get('args', [])
                    if pi >= len(args):
                        if 'default' in p:
                            iv = self.IV.iv(p['default'], None, {}, {})
                        else:
                            ok = False
                            break
                    else:
                        a = args[pi]
                        if isinstance(a, dict) and a.get('k') == 'skip':
                            continue
                        if self.host_prefixes and cf['id'].startswith(self.host_prefixes) and self.uses_params(a):
                            # argument comes straight from a host API parameter: in-contract host call
                            self.host_boundaries.add('%s -> %s(%s)' % (cf['id'].split('(')[0], f['id'].split('(')[0], p['name']))
                            continue
                        penv, env, fld = self.narrowing(cf, cn)
                        if depth < 3 and self.uses_params(a):
                            up = self.param_bounds(cf, depth + 1)
                            for k2, v2 in up.items():
                                penv[k2] = intersect(penv.get(k2), v2) if v2 is not None else penv.get(k2)
                        iv = self._eval(cf, a, penv, env, fld)
                    if iv is None:
                        ok = False
                        break
                    cur = iv if first else join(cur, iv)
                    first = False
                res[p['name']] = cur if ok else None
        self._pb[key] = res
        return res

    def unreached(self, f):
        """no call / bind / slot site of f in library code"""
        if self.callers is None:
            self.callers = callers_index(self.F)
        return not [1 for (cf, cn) in self.callers.get(f['id'], []) if self.lib(cf)]

    def at_with_callers(self, func, node, expr):
        iv, (penv, env, fld) = self.at(func, node, expr)
        return iv, penv, env, fld

    def eval_full(self, func, node, expr, accept, _depth=0):
        """try guards first, then caller-derived parameter bounds; accept(iv)->bool"""
        # a selection `c ? a : b`: each arm is evaluated under its own guard (c / !c) and must be acceptable by itself
        e0 = unwrap_casts(expr)
        if isinstance(e0, dict) and e0.get('k') == 'cond' and const_value(e0.get('c')) is None and _depth < 3 \
                and isinstance(e0.get('a'), dict) and isinstance(e0.get('b'), dict):
            ra, wa = self.eval_full(func, e0['a'], e0['a'], accept, _depth + 1)
            rb, wb = self.eval_full(func, e0['b'], e0['b'], accept, _depth + 1)
            if ra is not None and rb is not None:
                j = (min(ra[0], rb[0]), max(ra[1], rb[1]))
                if accept(ra) and accept(rb):
                    return j, wa if wa == wb else 'local'
                return j, 'unproved'
        penv, env, fld = self.narrowing(func, node)
        iv = self._eval(func, expr, penv, env, fld)
        if accept(iv):
            return iv, 'local'
        if self.uses_params(expr) or self._locals_use_params(func, expr):
            pb = self.param_bounds(func)
            p2 = dict(penv)
            for k, v in pb.items():
                if v is not None:
                    p2[k] = intersect(p2.get(k), v)
            if fld:
                IV = Intervals(self.F, {**self.fb, **{k: intersect(self.fb.get(k), v) for k, v in fld.items()}})
            else:
                IV = Intervals(self.F, self.fb)
            e2 = dict(IV.local_env_with(func, p2, 0))
            for k3, v3 in IV.local_env(func).items():
                e2.setdefault(k3, v3)
            IV.narrow = env
            try:
                iv2 = IV.iv(expr, func, e2, p2)
            finally:
                IV.narrow = None
            if accept(iv2):
                return iv2, 'callers'
            return iv2 if iv2 is not None else iv, 'unproved'
        return iv, 'unproved'

    def _locals_use_params(self, func, expr):
        names = {n['name'] for n in walk(expr) if n.get('k') == 'ref' and n.get('dk') in ('local', 'binding')}
        if not names:
            return False
        for n in walk(func.get('body')):
            if n.get('k') == 'var' and n.get('name') in names and 'init' in n and self.uses_params(n['init']):
                return True
        return False

    # ---------------------------------------------------------- inferred field bounds
    def infer_field(self, cls, field, writers):
        """join over all library writers of a plain field (assignments only); None if any writer is not an assignment
           with a bounded right-hand side"""
        key = (cls, field)
        if key in self._fieldb:
            return self._fieldb[key]
        self._fieldb[key] = None
        cur = None
        first = True
        for (f, p, n, how) in writers.get(key, []):
            if n.get('k') == 'assign' and how == '=':
                if self.uses_params(n['rhs']) and self.unreached(f):
                    self.host_boundaries.add('%s (no library caller; host/test-only setter of %s::%s)' % (f['id'].split('(')[0], cls, field))
                    continue
                iv, why = self.eval_full(f, n, n['rhs'], lambda v: v is not None)
            elif how in ('&=',):
                continue
            else:
                self._fieldb[key] = None
                return None
            if iv is None:
                return None
            cur = iv if first else join(cur, iv)
            first = False
        rec = self.F['records'].get(cls)
        if rec:
            for fl in rec['fields']:
                if fl['name'] == field:
                    if 'init' in fl:
                        vals = [const_value(x) for x in walk(fl['init']) if x.get('k') == 'int' or 'cv' in x]
                        vals = [v for v in vals if v is not None] or [0]
                        iv = (min(vals), max(vals))
                        cur = iv if first else join(cur, iv)
                        first = False
        self._fieldb[key] = cur
        return cur
