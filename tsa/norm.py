"""Normalised rendering of expressions / statements (engine E6).

render(expr) gives a canonical S-expression string: parentheses and casts
dropped, compile-time constants folded to their value, commutative operators
sorted, single-assignment locals inlined, parameters named by position.
Two fragments that differ only in formatting, naming of locals/parameters,
operand order of commutative operators or redundant casts render equally.
"""
from .astq import const_value, walk

COMMUTATIVE = {'+', '*', '&', '|', '^', '==', '!=', '&&', '||'}


def short_fn(fid):
    """qualified function name without the parameter list"""
    if not fid:
        return '?'
    depth = 0
    for i, ch in enumerate(fid):
        if ch == '<':
            depth += 1
        elif ch == '>':
            depth -= 1
        elif ch == '(' and depth == 0:
            return fid[:i]
    return fid


def type_width_ok(inner, outer):
    """re-association across a nested +/- is value-preserving when both are computed in the same type (modular arithmetic)"""
    return str(inner.get('t', '')).replace('const ', '') == str(outer.get('t', '')).replace('const ', '')


class Renderer:
    def __init__(self, func=None, inline_locals=True, keep_casts=False, param_names=False, env=None, flatten=False):
        self.flatten = flatten
        self.locals = {}
        self.keep_casts = keep_casts
        self.param_names = param_names
        self.env = env or {}
        if func is not None and inline_locals:
            self._collect_locals(func.get('body'))
            if inline_locals == 'pure':
                # only locals whose initialiser has no side effects (a copy of a table element, a computed flag)
                from .normalize import is_pure
                self.locals = {k: v for k, v in self.locals.items() if is_pure(v)}

    def _collect_locals(self, body):
        decls = {}
        assigned = set()
        for n in walk(body):
            k = n.get('k')
            if k == 'var' and 'init' in n and not n.get('static') and not n.get('bindings'):
                decls.setdefault(n['name'], []).append(n)
            elif k == 'assign':
                t = n.get('lhs')
                while isinstance(t, dict) and t.get('k') == 'cast':
                    t = t.get('e')
                if isinstance(t, dict) and t.get('k') == 'ref' and t.get('dk') == 'local':
                    assigned.add(t['name'])
            elif k == 'un' and n.get('op') in ('++', '--', 'post++', 'post--', '&'):
                t = n.get('e')
                if isinstance(t, dict) and t.get('k') == 'ref' and t.get('dk') == 'local':
                    assigned.add(t['name'])
        for name, ds in decls.items():
            if len(ds) == 1 and name not in assigned and not ds[0].get('isref'):
                self.locals[name] = ds[0]['init']
        # late-initialised locals: `T x = dflt; { ...; x = e; } ... use(x)` with exactly one assignment that is not
        # nested in any branch or loop and precedes every use: the use sees e
        late = self._late_initialised(body, decls)
        for name, e in late.items():
            self.locals.setdefault(name, e)

    @staticmethod
    def _late_initialised(body, decls):
        if not isinstance(body, dict):
            return {}
        order = []          # pre-order event list: ('assign'|'use'|'other-write', name, node, conditional)

        def rec(n, cond):
            if not isinstance(n, dict):
                return
            k = n.get('k')
            if k == 'assign':
                t = n.get('lhs')
                while isinstance(t, dict) and t.get('k') == 'cast':
                    t = t.get('e')
                if isinstance(t, dict) and t.get('k') == 'ref' and t.get('dk') == 'local':
                    rec(n.get('rhs'), cond)
                    order.append(('assign' if n.get('op') == '=' else 'other', t['name'], n, cond))
                    return
            if k == 'un' and n.get('op') in ('++', '--', 'post++', 'post--', '&'):
                t = n.get('e')
                if isinstance(t, dict) and t.get('k') == 'ref' and t.get('dk') == 'local':
                    order.append(('other', t['name'], n, cond))
                    return
            if k == 'ref' and n.get('dk') == 'local':
                order.append(('use', n['name'], n, cond))
                return
            if k == 'lambda':
                for c in n.get('caps', []):
                    if c.get('name'):
                        order.append(('other', c['name'], n, cond))
                return
            from .astq import children
            inner = cond or k in ('if', 'for', 'while', 'do', 'switch', 'rangefor', 'cond', 'try') \
                or (k == 'bin' and n.get('op') in ('&&', '||'))
            if k == 'if':
                rec(n.get('cond'), cond)
                rec(n.get('then'), True)
                rec(n.get('else'), True)
                return
            for c in children(n):
                rec(c, inner)
        rec(body, False)
        out = {}
        byname = {}
        for ev in order:
            byname.setdefault(ev[1], []).append(ev)
        for name, evs in byname.items():
            if name not in decls or len(decls[name]) != 1 or decls[name][0].get('isref'):
                continue
            asg = [e for e in evs if e[0] == 'assign']
            if len(asg) != 1 or any(e[0] == 'other' for e in evs) or asg[0][3]:
                continue
            i = evs.index(asg[0])
            if any(e[0] == 'use' for e in evs[:i]):
                continue
            out[name] = asg[0][2].get('rhs')
        return out

    def r(self, e, depth=0):
        if e is None:
            return 'nil'
        if not isinstance(e, dict):
            return str(e)
        if depth > 40:
            return '...'
        cv = const_value(e)
        k = e.get('k')
        if cv is not None and k not in ('ref',):
            return str(cv)
        if k == 'ref':
            dk = e.get('dk')
            if dk == 'enum' or (cv is not None and dk in ('staticmember', 'global', 'enum')):
                return e.get('qn', e.get('name')) if dk == 'enum' else str(cv)
            if cv is not None:
                return str(cv)
            if dk == 'parm':
                if e['name'] in self.env:
                    return str(self.env[e['name']])
                return ('$' + e['name']) if self.param_names else ('$%d' % e.get('idx', -1))
            if dk in ('local', 'binding'):
                if e['name'] in self.locals:
                    return self.r(self.locals[e['name']], depth + 1)
                return 'l:' + e['name']
            if dk == 'func':
                return 'fn:' + short_fn(e.get('fn'))
            return e.get('qn', e.get('name'))
        if k == 'int':
            return str(e['v'])
        if k == 'str':
            return '"%s"' % e.get('v', '')
        if k == 'this':
            return 'this'
        if k == 'nullptr':
            return 'nullptr'
        if k == 'mem':
            b = e.get('base')
            bs = self.r(b, depth + 1)
            if bs == 'this':
                return 'f:%s::%s' % (e['cls'], e['name'])
            return '(. %s %s::%s)' % (bs, e['cls'], e['name'])
        if k == 'memfn':
            return '(memfn %s %s)' % (self.r(e.get('base'), depth + 1), short_fn(e.get('fn')))
        if k == 'cast':
            inner = self.r(e.get('e'), depth + 1)
            if self.keep_casts and not e.get('implicit'):
                return '(cast %s %s)' % (e.get('t'), inner)
            return inner
        if k == 'bin' and e.get('op') in ('+', '-') and const_value(e) is None:
            # a chain of three or more terms joined by + and -: linear normal form (sum pos... | neg...), terms sorted, so that
            # (a - b) - c, (a - c) - b and a - (b + c) read the same
            terms = []

            def lin(x, sign):
                x2 = x
                while isinstance(x2, dict) and x2.get('k') == 'cast' and 'cv' not in x2 and x2.get('implicit'):
                    x2 = x2.get('e')
                if isinstance(x2, dict) and x2.get('k') == 'bin' and x2.get('op') in ('+', '-') and const_value(x2) is None \
                        and type_width_ok(x2, e):
                    lin(x2.get('lhs'), sign)
                    lin(x2.get('rhs'), sign if x2['op'] == '+' else -sign)
                else:
                    terms.append((sign, self.r(x, depth + 1)))
            lin(e, 1)
            if len(terms) >= 3 and any(sg < 0 for sg, _ in terms):
                pos = sorted(t for sg, t in terms if sg > 0)
                neg = sorted(t for sg, t in terms if sg < 0)
                return '(sum %s | %s)' % (' '.join(pos), ' '.join(neg))
        if k in ('bin', 'assign'):
            op = e.get('op')
            if self.flatten and k == 'bin' and op in ('+', '*', '|', '&', '^', '&&', '||'):
                # associative-commutative normal form: (op a b c ...) with sorted operands
                ops = []

                def gather(x):
                    x2 = x
                    while isinstance(x2, dict) and x2.get('k') == 'cast' and 'cv' not in x2:
                        x2 = x2.get('e')
                    if isinstance(x2, dict) and x2.get('k') == 'bin' and x2.get('op') == op and const_value(x2) is None:
                        gather(x2.get('lhs'))
                        gather(x2.get('rhs'))
                    else:
                        ops.append(self.r(x, depth + 1))
                gather(e)
                neutral = {'+': '0', '|': '0', '^': '0', '*': '1'}.get(op)
                if neutral is not None and len(ops) > 1:
                    ops = [o for o in ops if o != neutral] or [neutral]
                if len(ops) == 1:
                    return ops[0]
                return '(%s %s)' % (op, ' '.join(sorted(ops)))
            l = self.r(e.get('lhs'), depth + 1)
            rr = self.r(e.get('rhs'), depth + 1)
            if op == '.*':
                op = '->*'          # object.*member and pointer->*member denote the same member of the same object
            if op in COMMUTATIVE and rr < l:
                l, rr = rr, l
            if op == '>' or op == '>=':
                # a > b  ==  b < a
                op = '<' if op == '>' else '<='
                l, rr = rr, l
            return '(%s %s %s)' % (op, l, rr)
        if k == 'un':
            inner = self.r(e.get('e'), depth + 1)
            if e.get('op') == '*' and inner == 'this':
                return 'this'       # `*this` handed to a reference parameter is `this` handed to a pointer parameter
            return '(%s %s)' % (e.get('op'), inner)
        if k == 'cond':
            return '(?: %s %s %s)' % (self.r(e.get('c'), depth + 1), self.r(e.get('a'), depth + 1),
                                      self.r(e.get('b'), depth + 1))
        if k == 'index':
            return '([] %s %s)' % (self.r(e.get('base'), depth + 1), self.r(e.get('idx'), depth + 1))
        if k == 'opcall':
            args = [self.r(a, depth + 1) for a in e.get('args', [])]
            op = e.get('op')
            if op in COMMUTATIVE and len(args) == 2 and args[1] < args[0]:
                args = [args[1], args[0]]
            return '(%s %s)' % (op, ' '.join(args))
        if k == 'call':
            args = [self.r(a, depth + 1) for a in e.get('args', [])]
            name = short_fn(e.get('fn')) if e.get('fn') else '(indirect %s)' % self.r(e.get('callee'), depth + 1)
            if e.get('obj') is not None:
                return '(call %s on %s %s)' % (name, self.r(e.get('obj'), depth + 1), ' '.join(args))
            return '(call %s %s)' % (name, ' '.join(args))
        if k == 'construct':
            args = [self.r(a, depth + 1) for a in e.get('args', [])]
            if e.get('copymove') and len(args) == 1:
                return args[0]
            return '(new %s %s)' % (e.get('cls'), ' '.join(args))
        if k == 'initlist':
            return '{%s}' % ' '.join(self.r(a, depth + 1) for a in e.get('elts', []))
        if k == 'stdinitlist':
            return self.r(e.get('e'), depth + 1)
        if k == 'lambda':
            return '(lambda %s)' % e.get('fn')
        if k == 'assert':
            return '(assert %s)' % self.r(e.get('cond'), depth + 1)
        if k == 'unreachable':
            return '(unreachable)'
        if k == 'throw':
            return '(throw %s)' % self.r(e.get('e'), depth + 1)
        if k == 'valueinit':
            return '0'
        if k == 'opaque':
            return self.r(e.get('e'), depth + 1)
        return '(%s)' % k

    # statements -----------------------------------------------------------
    def s(self, st, depth=0):
        if st is None:
            return ''
        k = st.get('k')
        if k == 'block':
            return '{' + ' '.join(x for x in (self.s(c, depth + 1) for c in st.get('body', [])) if x) + '}'
        if k == 'if':
            out = '(if %s %s' % (self.r(st.get('cond')), self.s(st.get('then'), depth + 1))
            if st.get('else') is not None:
                out += ' else ' + self.s(st.get('else'), depth + 1)
            return out + ')'
        if k == 'switch':
            return '(switch %s %s)' % (self.r(st.get('cond')), self.s(st.get('body'), depth + 1))
        if k == 'case':
            return '(case %s) %s' % (self.r(st.get('val')), self.s(st.get('sub'), depth + 1))
        if k == 'default':
            return '(default) %s' % self.s(st.get('sub'), depth + 1)
        if k == 'for':
            return '(for %s %s %s %s)' % (self.s(st.get('init')) if st.get('init') else '', self.r(st.get('cond')),
                                          self.r(st.get('inc')), self.s(st.get('body'), depth + 1))
        if k == 'rangefor':
            return '(rangefor %s %s)' % (self.r(st.get('range')), self.s(st.get('body'), depth + 1))
        if k in ('while', 'do'):
            return '(%s %s %s)' % (k, self.r(st.get('cond')), self.s(st.get('body'), depth + 1))
        if k == 'return':
            return '(return %s)' % (self.r(st.get('e')) if st.get('e') is not None else '')
        if k in ('break', 'continue'):
            return '(%s)' % k
        if k == 'null':
            return ''
        if k == 'decl':
            parts = []
            for v in st.get('vars', []):
                if v['name'] in self.locals:
                    continue
                parts.append('(var %s %s)' % (v['name'], self.r(v.get('init')) if 'init' in v else ''))
            return ' '.join(parts)
        if k == 'attributed':
            return ('(fallthrough)' if st.get('fallthrough') else '') + self.s(st.get('sub'), depth + 1)
        if k == 'try':
            return '(try %s)' % self.s(st.get('body'), depth + 1)
        return self.r(st)


def render(e, func=None, **kw):
    return Renderer(func, **kw).r(e)


def render_stmt(st, func=None, **kw):
    return Renderer(func, **kw).s(st)
