"""Queries over the AST-lite facts (pure functions over dicts)."""

STD_SWAP = 'std::swap'


def children(n):
    """direct child nodes (dicts) of an AST-lite node, in source order"""
    for k, v in n.items():
        if k in ('owner', 'fta', 'ta', 'caps_t', 'elem_of'):
            continue
        if isinstance(v, dict):
            if 'k' in v or 'l' in v:
                yield v
        elif isinstance(v, list):
            for x in v:
                if isinstance(x, dict) and ('k' in x or 'l' in x):
                    yield x
                elif isinstance(x, dict) and 'init' in x and isinstance(x['init'], dict):
                    # lambda captures / ctor inits
                    yield x['init']


def walk(n):
    """pre-order walk over all AST-lite nodes below (and including) n"""
    if n is None:
        return
    stack = [n]
    while stack:
        x = stack.pop()
        if not isinstance(x, dict):
            continue
        yield x
        ch = list(children(x))
        stack.extend(reversed(ch))


def walk_parents(n, parents=()):
    """pre-order walk yielding (node, parents tuple)"""
    if not isinstance(n, dict):
        return
    yield n, parents
    p2 = parents + (n,)
    for c in children(n):
        yield from walk_parents(c, p2)


def is_call(n):
    return n.get('k') in ('call', 'opcall', 'construct')


def calls_in(n):
    return [x for x in walk(n) if is_call(x)]


def callee(n):
    return n.get('fn')


def unwrap_casts(e):
    while isinstance(e, dict) and e.get('k') == 'cast':
        e = e.get('e')
    return e


def const_value(e):
    """compile-time value of an expression, if clang evaluated it"""
    if not isinstance(e, dict):
        return None
    if 'cv' in e:
        return _toint(e['cv'])
    if e.get('k') == 'int':
        return _toint(e['v'])
    if e.get('k') == 'cast':
        # a cast of a constant that clang did not fold (should not happen for ints)
        return const_value(e.get('e')) if 'cv' not in e else _toint(e['cv'])
    return None


def _toint(v):
    if isinstance(v, str):
        try:
            return int(v)
        except ValueError:
            return None
    if isinstance(v, bool):
        return int(v)
    return v


def field_path(e):
    """Access path of an lvalue-ish expression as a tuple
         (class, field, index)   index: int | '*' | None
       following member accesses, std::array subscripts, ->* with constant
       member pointers, and casts.  Nested paths give the *innermost named
       field chain* as a list of such tuples (outermost object first).
       Returns None when the expression is not a field access."""
    chain = field_chain(e)
    return chain[-1] if chain else None


def field_chain(e):
    e = unwrap_casts(e)
    if not isinstance(e, dict):
        return None
    k = e.get('k')
    if k == 'ref' and e.get('elem_of') is not None:
        # element variable of a range-for over a member container: some element of that container
        base = field_chain(e['elem_of'])
        if base:
            c, f, _ = base[-1]
            return base[:-1] + [(c, f, '*')]
        return None
    if k == 'mem':
        base = field_chain(e.get('base')) or []
        return base + [(e['cls'], e['name'], None)]
    if k == 'opcall' and e.get('op') == '[]':
        args = e.get('args', [])
        if len(args) == 2:
            base = field_chain(args[0])
            if base:
                idx = const_value(args[1])
                c, f, _ = base[-1]
                return base[:-1] + [(c, f, idx if idx is not None else '*')]
        return None
    if k == 'index':
        base = field_chain(e.get('base'))
        if base:
            idx = const_value(e.get('idx'))
            c, f, _ = base[-1]
            return base[:-1] + [(c, f, idx if idx is not None else '*')]
        return None
    if k == 'bin' and e.get('op') in ('->*', '.*'):
        rhs = unwrap_casts(e.get('rhs'))
        # &Class::field
        if isinstance(rhs, dict) and rhs.get('k') == 'un' and rhs.get('op') == '&':
            inner = rhs.get('e')
            if isinstance(inner, dict) and inner.get('dk') == 'field':
                cls = None
                t = rhs.get('t', '')
                # "unsigned short Teakra::RegisterState::*"
                if '::*' in t:
                    cls = t.split(' ')[-1].replace('::*', '')
                    if cls.startswith('('):
                        cls = cls.strip('()')
                base = field_chain(e.get('lhs')) or []
                return base + [(cls or '?', inner['name'], None)]
        return None
    if k == 'un' and e.get('op') == '*':
        return field_chain(e.get('e'))
    if k == 'call' and e.get('name') in ('get', 'operator*', 'operator->') and e.get('obj'):
        return field_chain(e.get('obj'))
    if k == 'opcall' and e.get('op') in ('*', '->') and e.get('args'):
        return field_chain(e['args'][0])
    return None


def path_str(p):
    if p is None:
        return '?'
    c, f, i = p
    s = '%s::%s' % (c, f)
    if i is not None:
        s += '[%s]' % i
    return s


ASSIGN_OPS = ('=', '+=', '-=', '*=', '/=', '%=', '<<=', '>>=', '&=', '|=', '^=')


def direct_writes(body, by_ref_params=None):
    """(path, node, how) for every syntactic write to a field below `body`:
       assignments, ++/--, compound assignments, operator= / |= on class-typed
       fields, std::swap arguments, arguments bound to non-const references of
       repo callees (by_ref_params: fn id -> set of param indexes)."""
    out = []
    for n in walk(body):
        k = n.get('k')
        if k == 'assign':
            lhs = n.get('lhs')
            # chained a = b = v
            p = field_path(lhs)
            if p:
                out.append((p, n, n.get('op')))
        elif k == 'un' and n.get('op') in ('++', '--', 'post++', 'post--'):
            p = field_path(n.get('e'))
            if p:
                out.append((p, n, n.get('op')))
        elif k == 'opcall' and n.get('op') in ASSIGN_OPS:
            args = n.get('args', [])
            if args:
                p = field_path(args[0])
                if p:
                    out.append((p, n, n.get('op')))
        elif k == 'call':
            fn = n.get('fn', '')
            args = n.get('args', [])
            if n.get('name') == 'swap' and fn.startswith('std::swap'):
                for a in args:
                    p = field_path(a)
                    if p:
                        out.append((p, n, 'swap'))
            elif by_ref_params and fn in by_ref_params:
                for i in by_ref_params[fn]:
                    if i < len(args):
                        p = field_path(args[i])
                        if p:
                            out.append((p, n, 'byref:' + fn))
            # mutating std container members on a field (queue push/pop, bitset ops)
            obj = n.get('obj')
            if obj is not None and n.get('name') in ('push', 'pop', 'push_back', 'clear', 'emplace', 'reset', 'set', 'fill', 'swap', 'exchange', 'store', 'insert', 'erase', 'pop_back', 'emplace_back', 'resize', 'reserve'):
                p = field_path(obj)
                if p and str(n.get('cls', '')).startswith('std::'):
                    out.append((p, n, 'method:' + n.get('name')))
    return out


def direct_reads(body):
    """paths of fields read below body (over-approximation: every field access
       that is not purely the target of a plain '=' assignment)"""
    pure_targets = set()
    for n in walk(body):
        if n.get('k') == 'assign' and n.get('op') == '=':
            t = unwrap_casts(n.get('lhs'))
            if isinstance(t, dict):
                pure_targets.add(id(t))
                # the container expression of a subscripted / member target is not read either (its index is)
                x = t
                while isinstance(x, dict):
                    if x.get('k') == 'opcall' and x.get('op') == '[]' and x.get('args'):
                        x = unwrap_casts(x['args'][0])
                    elif x.get('k') == 'index':
                        x = unwrap_casts(x.get('base'))
                    elif x.get('k') == 'mem':
                        x = unwrap_casts(x.get('base'))
                    else:
                        break
                    if isinstance(x, dict):
                        pure_targets.add(id(x))
    out = []
    for n in walk(body):
        if n.get('k') in ('mem',) or (n.get('k') == 'opcall' and n.get('op') == '[]') or n.get('k') == 'index' \
                or (n.get('k') == 'bin' and n.get('op') in ('->*', '.*')):
            if id(n) in pure_targets:
                continue
            p = field_path(n)
            if p:
                out.append((p, n))
    return out


def src_loc(f, n=None):
    line = (n or {}).get('l') or f.get('line')
    return '%s:%s' % (f.get('file'), line)
