"""MMIO binding table (part of engine E1): every `impl->cells[E] = ...`,
`.set = ...`, `.get = ...` of MMIORegion::MMIORegion with constant-bound
loops unrolled and index expressions evaluated."""
from .absint import Evaluator
from .astq import walk, unwrap_casts, const_value, field_chain, field_path
from .facts import AnalysisBroken
from .norm import render, short_fn
from .wiring import _strip_move


def _obj_name(e, ev, env):
    """textual identity of the peripheral object an expression denotes: `apbp_from_dsp`, `timer[1]`, `btdmp[0]`"""
    e = unwrap_casts(e)
    while isinstance(e, dict) and e.get('k') == 'un' and e.get('op') in ('&', '*'):
        e = unwrap_casts(e.get('e'))
    if not isinstance(e, dict):
        return None
    if e.get('k') == 'ref':
        n = e.get('name', '?')
        return n.split('@')[0]
    if e.get('k') == 'opcall' and e.get('op') == '[]':
        b = _obj_name(e['args'][0], ev, env)
        i = ev.eval(e['args'][1], env)
        return '%s[%s]' % (b, i if i is not None else '?')
    if e.get('k') == 'mem':
        b = _obj_name(e.get('base'), ev, env)
        return '%s.%s' % (b, e['name'])
    return None


class Model:
    def __init__(self, F, strict=True):
        self.F = F
        self.funcs = F['functions']
        self.ev = Evaluator(F)
        cands = [g for k, g in self.funcs.items() if k.startswith('Teakra::MMIORegion::MMIORegion(') and '::<lambda@' not in k]
        if len(cands) != 1:
            raise AnalysisBroken('MMIORegion constructor not found')
        self.ctor = cands[0]
        self.cells = {}       # offset -> dict
        self.problems = []
        self._block(self.ctor['body'], {})
        if strict and self.problems:
            line, msg = self.problems[0]
            raise AnalysisBroken('MMIORegion::MMIORegion line %s: %s (the MMIO binding table could not be read)' % (line, msg))

    def cell(self, off, line):
        return self.cells.setdefault(off, {'offset': off, 'set': None, 'get': None, 'slots': None, 'kind': 'default',
                                           'line': line, 'assigned': []})

    # --------------------------------------------------------------- statements
    def _block(self, st, env):
        k = st.get('k')
        if k == 'block':
            for c in st.get('body', []):
                self._block(c, env)
        elif k == 'for':
            # a counting loop with small constant bounds, in either direction, the variable declared in the loop or in front
            from .loops import loop_range
            rng = loop_range(self.ctor, st)
            if rng is None:
                var = None
                for v in walk(st.get('init')):
                    if v.get('k') == 'var':
                        var = v
                cond = unwrap_casts(st.get('cond') or {})
                inc = unwrap_casts(st.get('inc') or {})
                up = isinstance(inc, dict) and inc.get('k') == 'un' and inc.get('op') in ('++', 'post++')
                if var is None or 'init' not in var or cond.get('k') != 'bin' or cond.get('op') not in ('<', '<=', '!=') or not up \
                        or unwrap_casts(cond.get('lhs')).get('name') != var['name']:
                    self.problems.append((st.get('l'), 'loop is not a counting loop over a small constant range'))
                    return
                lo = self.ev.eval(var['init'], env)
                hi = self.ev.eval(cond['rhs'], env)
                if hi is None:
                    # std::array<T, N>::size()
                    r_ = unwrap_casts(cond['rhs'])
                    import re as _re
                    m_ = _re.match(r'std::array<.*, (\d+)>$', str(r_.get('cls', ''))) if isinstance(r_, dict) and r_.get('k') == 'call' and r_.get('name') == 'size' else None
                    hi = int(m_.group(1)) if m_ else None
                if hi is not None and cond.get('op') == '<=':
                    hi += 1
                rng = (var['name'], lo, hi, 1)
            name, lo, hi, step = rng
            if lo is None or hi is None or abs(hi - lo) > 64:
                self.problems.append((st.get('l'), 'loop bounds are not small constants'))
                return
            for i in range(lo, hi, step):
                e2 = dict(env)
                e2[name] = i
                self._block(st.get('body'), e2)
        elif k == 'opcall' and st.get('op') == '=':
            self._assign(st, env)
        elif k == 'decl':
            # named constants of the constructor (`const unsigned base = 0x20 + i * 0x10;`): evaluated in the current environment
            for v in st.get('vars', []):
                if 'init' in v and not v.get('isref'):
                    val = self.ev.eval(v['init'], env)
                    if val is not None:
                        env[v['name']] = val
        elif k == 'null':
            pass
        else:
            self.problems.append((st.get('l'), 'unrecognised statement kind %s in MMIORegion::MMIORegion' % k))

    def _cell_index(self, e, env):
        e = unwrap_casts(e)
        if isinstance(e, dict) and e.get('k') == 'opcall' and e.get('op') == '[]':
            ch = field_chain(e['args'][0])
            if ch and ch[-1][1] == 'cells':
                return self.ev.eval(e['args'][1], env)
        return None

    def _assign(self, st, env):
        lhs = unwrap_casts(st['args'][0])
        rhs = st['args'][1] if len(st['args']) > 1 else None
        line = st.get('l')
        if st.get('cls') == 'Teakra::Cell':
            off = self._cell_index(lhs, env)
            if off is None:
                self.problems.append((line, 'cell index not evaluable'))
                return
            c = self.cell(off, line)
            c['assigned'].append(line)
            self._cell_value(c, rhs, env, line)
        elif str(st.get('cls', '')).startswith('std::function<') and lhs.get('k') == 'mem' and lhs.get('name') in ('set', 'get'):
            off = self._cell_index(lhs.get('base'), env)
            if off is None:
                self.problems.append((line, 'cell index not evaluable'))
                return
            c = self.cell(off, line)
            c[lhs['name']] = self._callable(rhs, env, line)
            if c['kind'] == 'default':
                c['kind'] = 'plain'
        else:
            self.problems.append((line, 'unrecognised assignment in MMIORegion::MMIORegion'))

    def _cell_value(self, c, rhs, env, line):
        e = _strip_move(rhs)
        if not isinstance(e, dict):
            self.problems.append((line, 'cell value not understood'))
            return
        if e.get('k') == 'call' and e.get('cls') == 'Teakra::Cell':
            nm = e.get('name')
            a = e.get('args', [])
            if nm == 'ConstCell':
                c.update(kind='const', get={'kind': 'const', 'value': self.ev.eval(a[0], env)}, set={'kind': 'noset'})
            elif nm == 'RefCell':
                tgt = _obj_name(a[0], self.ev, env)
                p = field_path(a[0])
                c.update(kind='ref', get={'kind': 'ref', 'target': tgt, 'path': p}, set={'kind': 'ref', 'target': tgt, 'path': p})
            elif nm == 'MirrorCell':
                c.update(kind='mirror', get={'kind': 'mirror'}, set={'kind': 'mirror'})
            elif nm == 'BitFieldCell':
                c.update(kind='bitfield', slots=self._slots(a[0], env, line), set={'kind': 'bitfield'}, get={'kind': 'bitfield'})
            else:
                self.problems.append((line, 'unknown Cell factory ' + str(nm)))
        elif e.get('k') == 'construct' and e.get('cls') == 'Teakra::Cell' and not e.get('args'):
            c.update(kind='temporary-default')
        else:
            self.problems.append((line, 'cell value not understood: ' + str(e.get('k'))))

    def _slots(self, e, env, line):
        out = []
        lst = None
        for n in walk(e):
            if n.get('k') == 'initlist' and 'BitFieldSlot' in str(n.get('t', '')) and '[' in str(n.get('t', '')):
                lst = n
                break
        if lst is None:
            self.problems.append((line, 'BitFieldCell slot list not found'))
            return out
        for el in lst.get('elts', []):
            x = _strip_move(el)
            if x.get('k') == 'initlist' and len(x.get('elts', [])) == 4:
                pos = self.ev.eval(x['elts'][0], env)
                ln = self.ev.eval(x['elts'][1], env)
                out.append({'pos': pos, 'len': ln, 'set': self._callable(x['elts'][2], env, line),
                            'get': self._callable(x['elts'][3], env, line), 'line': x.get('l')})
            elif x.get('k') == 'call' and x.get('name') == 'RefSlot':
                a = x.get('args', [])
                pos = self.ev.eval(a[0], env)
                ln = self.ev.eval(a[1], env)
                tgt = _obj_name(a[2], self.ev, env)
                p = field_path(a[2])
                d = {'kind': 'ref', 'target': tgt, 'path': p}
                out.append({'pos': pos, 'len': ln, 'set': d, 'get': d, 'line': x.get('l'), 'refslot_fn': x.get('fn')})
            else:
                self.problems.append((x.get('l', line), 'slot not understood'))
        return out

    def _callable(self, e, env, line):
        e = _strip_move(e)
        if not isinstance(e, dict):
            return None
        k = e.get('k')
        if k == 'initlist' and not e.get('elts'):
            return {'kind': 'empty'}
        if k == 'construct' and not e.get('args'):
            return {'kind': 'empty'}
        if k == 'call' and str(e.get('fn', '')).startswith('std::bind<'):
            tgt = None
            for x in walk(e['args'][0]):
                if x.get('dk') == 'func':
                    tgt = x.get('fn')
            obj = _obj_name(e['args'][1], self.ev, env) if len(e['args']) > 1 else None
            bound = []
            for a in e['args'][2:]:
                a2 = unwrap_casts(a)
                if isinstance(a2, dict) and a2.get('k') == 'ref' and str(a2.get('qn', '')).startswith('std::placeholders::_'):
                    bound.append('_' + a2['qn'].rsplit('_', 1)[1])
                else:
                    bound.append(self.ev.eval(a, env))
            return {'kind': 'method', 'fn': tgt, 'obj': obj, 'bound': bound, 'line': e.get('l')}
        if k == 'lambda':
            caps = {}
            for cdesc in e.get('caps', []):
                if cdesc.get('name'):
                    nm = cdesc['name']
                    if cdesc.get('byref'):
                        caps[nm.split('@')[0]] = ('ref', nm.split('@')[0])
                    else:
                        caps[nm.split('@')[0]] = ('val', env.get(nm))
            return self._lambda(e.get('fn'), caps, env, e.get('l'))
        if k == 'call' and e.get('name') in ('NoSet', 'NoGet'):
            return {'kind': 'noset' if e['name'] == 'NoSet' else 'noget'}
        return {'kind': 'other', 'text': render(e)[:80]}

    def _lambda(self, fid, caps, env, line):
        """summarise a lambda body: a single forwarded method call, a constant return, or empty"""
        f = self.funcs.get(fid)
        d = {'kind': 'lambda', 'fn': fid, 'caps': caps, 'line': line}
        if f is None:
            return d
        stmts = f['body'].get('body', [])
        calls = [n for n in walk(f['body']) if n.get('k') == 'call' and n.get('fn') in self.funcs]
        rets = [n for n in walk(f['body']) if n.get('k') == 'return' and n.get('e') is not None]
        if not stmts:
            d['summary'] = 'empty'
            return d
        if len(rets) == 1 and const_value(rets[0]['e']) is not None and not calls:
            d['summary'] = 'const'
            d['value'] = const_value(rets[0]['e'])
            return d
        if len(calls) == 1:
            c = calls[0]
            lenv = {}
            for k2, v2 in caps.items():
                if v2[0] == 'val' and v2[1] is not None:
                    lenv[k2] = v2[1]
            # names inside the lambda may be uniquified: map by prefix
            lenv2 = {}
            for n in walk(f['body']):
                if n.get('k') == 'ref' and n.get('dk') == 'local':
                    base = n['name'].split('@')[0]
                    if base in lenv:
                        lenv2[n['name']] = lenv[base]
            lenv.update(lenv2)
            obj = _obj_name(c.get('obj'), self.ev, lenv) if c.get('obj') is not None else None
            bound = []
            for a in c.get('args', []):
                a2 = unwrap_casts(a)
                if isinstance(a2, dict) and a2.get('k') == 'ref' and a2.get('dk') == 'parm':
                    bound.append('_%d' % (a2.get('idx', 0) + 1))
                else:
                    bound.append(self.ev.eval(a, lenv))
            guard = None
            ifs = [n for n in stmts if n.get('k') == 'if']
            if ifs:
                guard = render(ifs[0].get('cond'), f)
            d.update(summary='call', call_fn=c['fn'], obj=obj, bound=bound, guard=guard)
            # a lambda that does nothing but forward to one method (`[&o, i](u16 v) { o.M(i, v); }`) is the same
            # binding as std::bind(&C::M, &o, i, _1)
            if guard is None and len(stmts) == 1 and obj is not None:
                st = stmts[0]
                inner = unwrap_casts(st.get('e')) if st.get('k') == 'return' else unwrap_casts(st)
                if inner is c and all(b is not None for b in bound):
                    return {'kind': 'method', 'fn': c['fn'], 'obj': obj, 'bound': bound, 'line': line, 'via_lambda': fid}
            return d
        d['summary'] = 'other'
        return d
