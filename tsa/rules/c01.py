"""C01 - instruction effects match the reference: the generator <-> interpreter agreement clause (structural part).

Clause 1 (numerical equality with the hardware reference) is NOT decided.
Clause 2: for every entry of the shared decode table the two sibling visitors
Interpreter (what a form does) and TestGenerator (what the generator promises
about it) are compared handler by handler."""
import re

from .. import decode, pseudo
from ..absint import Evaluator
from ..astq import walk, walk_parents, field_path, unwrap_casts, const_value, direct_writes
from ..flow import Flow, Client
from ..intervals import Intervals
from ..norm import render, render_stmt, Renderer, short_fn
from ..sib import switch_arms

INTERP = 'Teakra::Interpreter'
GEN = 'Teakra::Test::TestGenerator'
RS = 'Teakra::RegisterState'
PC_EFFECT_CALLS = {'SetPC', 'PopPC', 'PushPC', 'Repeat', 'BlockRepeat', 'RestoreBlockRepeat', 'StoreBlockRepeat',
                   'ContextStore', 'ContextRestore', 'ProgramWrite'}
ADDR_HELPERS = ('RnAddressAndModify', 'RnAddress', 'OffsetAddress', 'RnAndModify')


def gen_returns(f):
    """classification of every return of a generator handler"""
    out = []
    r = Renderer(f, inline_locals=False)
    for n in walk(f['body']):
        if n.get('k') != 'return' or n.get('e') is None:
            continue
        e = unwrap_casts(n['e'])
        mods = set()
        while True:
            while isinstance(e, dict) and e.get('k') == 'construct' and e.get('args') and (e.get('copymove') or len(e['args']) == 1):
                e = unwrap_casts(e['args'][0])
            if isinstance(e, dict) and e.get('k') == 'call' and e.get('name') in ('WithAnyExpand', 'WithMemoryExpand') and e.get('obj') is not None:
                mods.add(e['name'])
                e = unwrap_casts(e['obj'])
                continue
            break
        d = {'node': n, 'mods': mods, 'kind': 'other', 'text': r.r(n['e'])[:120]}
        if isinstance(e, dict) and e.get('k') == 'ref' and e.get('name') == 'DisabledConfig':
            d['kind'] = 'disabled'
        elif isinstance(e, dict) and e.get('k') == 'ref' and e.get('name') == 'AnyConfig':
            d['kind'] = 'any'
        elif isinstance(e, dict) and e.get('k') == 'call' and str(e.get('name', '')).startswith('ConfigWith'):
            d['kind'] = 'pin'
            d['pin'] = e['name']
            a = e.get('args', [])
            d['param'] = None
            if a:
                a0 = unwrap_casts(a[0])
                while isinstance(a0, dict) and a0.get('k') == 'construct' and a0.get('args') and a0.get('copymove'):
                    a0 = unwrap_casts(a0['args'][0])
                if isinstance(a0, dict) and a0.get('k') == 'ref' and a0.get('dk') == 'parm':
                    d['param'] = a0.get('idx')
                elif isinstance(a0, dict) and a0.get('k') == 'construct' and a0.get('args'):
                    d['param'] = ('const', const_value(a0['args'][0]))
        out.append(d)
    return out


class _Abort(Client):
    def join(self, a, b):
        return a if b is None else (b if a is None else a | b)


def always_aborts(f):
    fl = Flow(_Abort())
    return not fl.exits(f['body'], frozenset())


def interp_summary(ctx, h, F):
    """what the interpreter handler needs from the test vector"""
    r = Renderer(h, inline_locals=False)
    inits = {}
    bind = {}
    for n in walk(h['body']):
        if n.get('k') == 'var' and 'init' in n:
            if n.get('bindings'):
                for c in walk(n['init']):
                    if c.get('k') == 'call' and c.get('cls') == INTERP:
                        for i, b in enumerate(n['bindings']):
                            bind[b] = c
                        break
            else:
                inits[n['name']] = n['init']
        if n.get('k') == 'opcall' and n.get('op') == '=' and len(n.get('args', [])) == 2:
            lhs = unwrap_casts(n['args'][0])
            while isinstance(lhs, dict) and lhs.get('k') == 'construct' and lhs.get('args'):
                lhs = unwrap_casts(lhs['args'][0])
            if isinstance(lhs, dict) and lhs.get('k') == 'call' and str(lhs.get('fn', '')).startswith('std::tie'):
                for c in walk(n['args'][1]):
                    if c.get('k') == 'call' and c.get('cls') == INTERP:
                        for a in lhs.get('args', []):
                            a = unwrap_casts(a)
                            if isinstance(a, dict) and a.get('k') == 'ref':
                                bind[a['name']] = c
                        break

    def param_of(e, depth=0):
        """parameter index (or ('const', v)) an operand/unit expression derives from"""
        e = unwrap_casts(e)
        if depth > 8 or not isinstance(e, dict):
            return None
        cv = const_value(e)
        if cv is not None:
            return ('const', cv)
        k = e.get('k')
        if k == 'ref':
            if e.get('dk') == 'parm':
                return e.get('idx')
            if e.get('name') in bind:
                c = bind[e['name']]
                return param_of(c['args'][0], depth + 1) if c.get('args') else None
            if e.get('name') in inits:
                return param_of(inits[e['name']], depth + 1)
            return None
        if k == 'construct' and e.get('args'):
            return param_of(e['args'][0], depth + 1)
        if k == 'call':
            if e.get('name') in ('Index',) and e.get('obj') is not None:
                return param_of(e['obj'], depth + 1)
            if e.get('name') in ('GetArRnUnit', 'GetArpRnUnit') and e.get('args'):
                return param_of(e['args'][0], depth + 1)
            if e.get('name') in ADDR_HELPERS and e.get('args'):
                return param_of(e['args'][0], depth + 1)
        if k == 'opcall' and e.get('op') == '[]':
            # regs.r[GetArRnUnit(a)] : cursor register of bkrepsto/bkreprst
            return param_of(e['args'][1], depth + 1)
        return None

    addr = set()
    stack = False
    unknown = []
    for n in walk(h['body']):
        if n.get('k') == 'call' and n.get('cls') == 'Teakra::MemoryInterface' and n.get('name') in ('DataRead', 'DataWrite'):
            a = unwrap_casts(n['args'][0])
            seen = 0
            while isinstance(a, dict) and a.get('k') == 'ref' and a.get('dk') == 'local' and a['name'] in inits and seen < 5:
                a = unwrap_casts(inits[a['name']])
                seen += 1
            t = r.r(a)
            if 'RegisterState::sp)' in t:
                stack = True
                continue
            p = None
            if isinstance(a, dict) and a.get('k') == 'call' and a.get('name') in ADDR_HELPERS:
                p = param_of(a)
            elif isinstance(a, dict) and a.get('k') == 'ref' and a.get('name') in bind:
                p = param_of(a)
            if p is None:
                unknown.append(t[:80])
            else:
                addr.add(p)
        if n.get('k') == 'call' and n.get('cls') == INTERP and n.get('name') in ('LoadFromMemory', 'StoreToMemory') and n.get('args'):
            p = param_of(n['args'][0])
            if p is not None:
                addr.add(p)
            else:
                unknown.append('LoadFromMemory(?)')
    pc = set()
    for n in walk(h['body']):
        if n.get('k') == 'call' and n.get('name') in PC_EFFECT_CALLS and (n.get('cls') in (INTERP, 'Teakra::MemoryInterface')):
            pc.add(n['name'])
        if n.get('k') == 'call' and n.get('cls') == RS and n.get('name') in ('ShadowSwap', 'SwapAr', 'SwapArp', 'SwapAllArArp'):
            pc.add(n['name'])
    for p, n, how in direct_writes(h['body']):
        if (p[0] == RS and p[1] in ('pc', 'sp', 'prpage')) or (p[0] == INTERP and p[1] == 'idle'):
            pc.add('writes ' + p[1])
    busnames = []
    for n in walk(h['body']):
        if n.get('k') == 'call' and n.get('cls') == INTERP and n.get('name') in ('RegToBus16', 'RegFromBus16') and n.get('args'):
            a = unwrap_casts(n['args'][0])
            if isinstance(a, dict) and a.get('k') == 'call' and a.get('name') == 'GetName' and a.get('obj') is not None:
                o = unwrap_casts(a['obj'])
                if isinstance(o, dict) and o.get('k') == 'ref' and o.get('dk') == 'parm':
                    busnames.append((o.get('idx'), n['name'], str(o.get('t', '')).replace('const ', '')))
    return {'addr': addr, 'stack': stack, 'unknown': unknown, 'pc': pc, 'bus': busnames}


def operand_names(ctx, tname, depth=0):
    r = ctx.F['records'].get(tname)
    if r is None or depth > 5:
        return None
    if r.get('tn') == 'EnumOperand':
        return [x.get('i') for x in r['ta'][1].get('pack', [])]
    for b in r.get('bases', []):
        if b.get('tn') == 'EnumOperand':
            return [x.get('i') for x in b['ta'][1].get('pack', [])]
        x = operand_names(ctx, b.get('s'), depth + 1)
        if x is not None:
            return x
    return None


PIN_FOR_TYPE = {'Rn': 'ConfigWithAddress', 'ArRn1': 'ConfigWithArAddress', 'ArRn2': 'ConfigWithArAddress',
                'ArpRn1': 'ConfigWithArpAddress', 'ArpRn2': 'ConfigWithArpAddress', 'MemImm8': 'ConfigWithMemImm8',
                'MemR7Imm16': 'ConfigWithMemR7Imm16', 'MemR7Imm7s': 'ConfigWithMemR7Imm7s', 'MemImm16': 'WithMemoryExpand',
                'R0123': 'ConfigWithAddress', 'R45': 'ConfigWithAddress', 'R04': None}


def g8_conditional_aborts(ctx, G8, fi, fg, inst):
    """abort condition of the interpreter handler restricted to paths decided by operand values only, against the condition
       under which the generator emits the form"""
    from .. import summ, boolform
    if not any(n.get('k') == 'unreachable' for n in walk(fi['body'])):
        return
    try:
        si = summ.summarize(fi, ctx.F['functions'], asserts='ignore')
        sg = summ.summarize(fg, ctx.F['functions'], asserts='ignore')
    except summ.Unsupported:
        ctx.notes.append('G8 not evaluated for %s (handler outside the summarised fragment)' % inst)
        return

    def operand_only(f):
        return all(a.count('$') and 'f:' not in a and 'regs' not in a for a in boolform.atoms(f))
    aborts = boolform.F_
    for p in si.paths:
        # only deliberate UNREACHABLE() ends, decided by the operands alone (state-dependent `throw UnimplementedException`
        # vectors are skipped by the verifier and are not the generator's business)
        if p.end == 'abort' and operand_only(p.cond):
            aborts = boolform.any_of(aborts, p.cond)
    if not boolform.satisfiable(aborts):
        return
    emitted = boolform.F_
    for p in sg.paths:
        if p.end == 'return' and p.ret is not None and sg.R.r(p.ret) not in ('DisabledConfig', 'Teakra::Test::DisabledConfig'):
            if 'DisabledConfig' in sg.R.r(p.ret):
                continue
            emitted = boolform.any_of(emitted, p.cond)
    # decide per enumerator of the one operand both conditions select on (the operand always holds one of its enumerators)
    subj = set()
    for a in boolform.atoms(aborts) | boolform.atoms(emitted):
        ops = boolform._operands(a)
        if not ops:
            subj.add(None)
            continue
        x, y = ops
        subj.add(y if boolform._is_constant(x) or x.split('::')[-1].isidentifier() and '(' not in x else x)
    if len(subj) != 1 or None in subj:
        ctx.notes.append('G8 not evaluated for %s (conditions are not tests of one operand against enumerators)' % inst)
        return
    subject = subj.pop()
    m = re.search(r'Enum(?:All)?Operand<(\w+)', subject)
    enum = ctx.F['enums'].get(m.group(1)) if m else None
    if not enum:
        ctx.notes.append('G8 not evaluated for %s (enumeration of the operand not found)' % inst)
        return

    def at(f, name):
        env = {}
        for a in boolform.atoms(f):
            x, y = boolform._operands(a)
            c = x if y == subject else y
            env[a] = c.split('::')[-1] == name
        return boolform.ev(f, env)
    # EnumEnd is the count sentinel of EnumAllOperand, not a value an operand can hold
    bad = [e['name'] for e in enum['enumerators'] if e['name'] != 'EnumEnd' and at(aborts, e['name']) and at(emitted, e['name'])]
    if bad:
        ctx.report(G8, fg, fg['body'], inst + ' reserved operand values',
                   'the interpreter handler reaches UNREACHABLE() for operand value(s) %s, but the generator still emits the form for them' % bad)


def run(ctx):
    F = ctx.F['functions']
    G1, G2, G3, G5, G6, G7 = 'C01.G1', 'C01.G2', 'C01.G3', 'C01.G5', 'C01.G6', 'C01.G7'
    ctx.rule(G1, 'abort-free: an instruction form whose interpreter handler always aborts (UNREACHABLE / throw on every path) is '
                 'never emitted by the generator (every return of its TestGenerator sibling is DisabledConfig)', floor=300)
    ctx.rule(G2, 'single-step comparable: a form whose handler changes pc other than through the fetch, touches the stack pointer, '
                 'the program page, hardware-loop or context-switch state, or writes program memory is disabled in the generator', floor=300)
    ctx.rule(G3, 'operand pinning: every operand from which the handler derives a data address is pinned into a compared window by '
                 'each enabled generator return (ConfigWithAddress / ArAddress / ArpAddress / MemImm8 / MemR7Imm16 / MemR7Imm7s / '
                 'WithMemoryExpand for a 16-bit address word); a handler that addresses memory through an unpinned operand, or '
                 'through a different operand than the one pinned, is reported', floor=300)
    ctx.rule(G5, 'conditional aborts mirror: the operation sets guarding 40-bit operands in Interpreter::alm(Alm,Register,Ax) and '
                 'TestGenerator::alm are equal', floor=1)
    ctx.rule(G6, 'unimplemented registers: wherever the interpreter passes an operand name into RegToBus16 / RegFromBus16 and the '
                 'operand list contains a name whose arm aborts, the generator filters it with IsUnimplementedRegister', floor=40)
    ctx.rule(G7, 'window agreement: generator pins lie inside the windows the verifier compares (offsets in [10, size-10], page '
                 'lock = TestSpaceX >> 8, whitelisted short offsets), the verifier loops cover exactly TestSpaceX/Y + [0, size), '
                 'and the generator pre-bit-reverses a pinned register exactly when the interpreter reverses the address', floor=6)
    G8 = 'C01.G8'
    ctx.rule(G8, 'operand-dependent aborts mirror: where the interpreter handler reaches UNREACHABLE() for certain operand values '
                 '(a reserved code in a switch over the operand), the generator sibling returns DisabledConfig for those values', floor=100)
    ti = {e['index']: e for e in decode.table(ctx.F, INTERP)}
    tg = {e['index']: e for e in decode.table(ctx.F, GEN)}
    ctx.require(len(ti) == len(tg), 'decode tables of Interpreter and TestGenerator differ in length')
    pairs = {}
    for i, e in ti.items():
        g = tg[i]
        pairs.setdefault((e['handler'], g['handler']), []).append(e)
    summaries = {}
    unimpl = unimplemented_set(ctx)
    unreach = {nm: unreachable_arms(ctx, nm) for nm in ('RegToBus16', 'RegFromBus16')}
    n_pairs = 0
    for (hi, hg), entries in sorted(pairs.items(), key=lambda x: str(x[0])):
        fi, fg = F.get(hi), F.get(hg)
        if fi is None or fg is None:
            raise Exception('handler facts missing: %s / %s' % (hi, hg))
        ctx.touch(fi)
        ctx.touch(fg)
        n_pairs += 1
        rets = gen_returns(fg)
        enabled = [d for d in rets if d['kind'] != 'disabled']
        name = '%s/%d' % (fi['name'], len(fi['params']))
        inst = short_fn(hi).split('::')[-1] + '(' + ','.join(p['t'][:12] for p in fi['params'][:4]) + ')'
        s = interp_summary(ctx, fi, F)
        # ---- G1
        ctx.inst(G1)
        if always_aborts(fi) and enabled:
            ctx.report(G1, fg, enabled[0]['node'], inst, 'the interpreter handler always aborts (unimplemented / unreachable) but the generator emits this form: ' + enabled[0]['text'])
            continue
        # ---- G8
        ctx.inst(G8)
        g8_conditional_aborts(ctx, G8, fi, fg, inst)
        # ---- G2
        ctx.inst(G2)
        if (s['pc'] or s['stack']) and enabled:
            ctx.report(G2, fg, enabled[0]['node'], inst, 'the handler is not single-step comparable (%s%s) but the generator emits this form'
                       % (sorted(s['pc']), ' stack access' if s['stack'] else ''))
            continue
        # ---- G3
        ctx.inst(G3)
        if enabled:
            if s['unknown']:
                ctx.report(G3, fi, fi['body'], inst + ' address origin', 'data address of unknown origin in an enabled form: %s' % s['unknown'][:3])
            for d in enabled:
                pinned = set()
                if d['kind'] == 'pin' and d.get('param') is not None:
                    pinned.add(d['param'])
                need = set(s['addr'])
                for p in sorted(need, key=str):
                    if isinstance(p, tuple):
                        ok = d['kind'] == 'pin' and d['pin'] == 'ConfigWithAddress' and d.get('param') == p
                        what = 'register r%s' % p[1]
                    else:
                        pt = fi['params'][p]['t'] if p < len(fi['params']) else '?'
                        want = PIN_FOR_TYPE.get(pt)
                        if pt == 'MemImm16':
                            ok = 'WithMemoryExpand' in d['mods']
                        elif pt == 'MemR7Imm16':
                            ok = d['kind'] == 'pin' and d['pin'] == 'ConfigWithMemR7Imm16'
                        else:
                            ok = d['kind'] == 'pin' and d['pin'] == want and d.get('param') == p
                        what = 'operand %d (%s %s)' % (p, pt, fi['params'][p]['name'] if p < len(fi['params']) else '')
                    if not ok:
                        ctx.report(G3, fg, d['node'], inst + ' pin ' + str(p),
                                   'the handler addresses data memory through %s but this generator return (%s) does not pin it into a compared window'
                                   % (what, d['text']))
                # pinning something the handler does not dereference is harmless; pinning *instead of* is caught above
                # second word used as an immediate needs no pin; a 16-bit address word needs WithMemoryExpand
        # ---- G6
        for (pidx, busfn, tname) in s['bus']:
            names = operand_names(ctx, tname) or []
            bad = sorted(set(names) & unreach[busfn])
            ctx.inst(G6)
            if bad and enabled:
                guarded = False
                rg = Renderer(fg, inline_locals=False)
                for n in walk(fg['body']):
                    if n.get('k') == 'if' and 'IsUnimplementedRegister' in rg.r(n['cond']):
                        for c in walk(n['cond']):
                            if c.get('k') == 'call' and c.get('name') == 'IsUnimplementedRegister':
                                a = unwrap_casts(c['args'][0])
                                if isinstance(a, dict) and a.get('k') == 'call' and a.get('name') in ('GetName', 'GetNameForMovFromP'):
                                    o = unwrap_casts(a.get('obj'))
                                    if isinstance(o, dict) and o.get('dk') == 'parm' and o.get('idx') == pidx:
                                        th = gen_returns({'body': n['then']})
                                        if th and all(x['kind'] == 'disabled' for x in th):
                                            guarded = True
                if not guarded:
                    ctx.report(G6, fg, fg['body'], inst + ' operand %d' % pidx,
                               'operand %d (%s) can name registers whose %s arm aborts (%s) and the generator does not filter them with IsUnimplementedRegister'
                               % (pidx, tname, busfn, bad))
                elif not set(bad) <= unimpl:
                    ctx.report(G6, fg, fg['body'], inst + ' operand %d set' % pidx,
                               'IsUnimplementedRegister does not cover %s' % sorted(set(bad) - unimpl))
    ctx.require(n_pairs >= 300, 'handler pairs: %d' % n_pairs)
    # ---- G5
    sets = {}
    # the set of operations accepted with a 40-bit bus operand: a static set of AlmOp enumerators in alm(Alm, Register, Ax),
    # in a closure of it, or in a function it calls (found by role: its element type, not its name)
    for side in (INTERP, GEN):
        roots = [f for fid, f in F.items() if f['name'] == 'alm' and f.get('cls') == side]
        todo = list(roots)
        seen_ = set()
        depth_ = {id(f): 0 for f in roots}
        while todo:
            f = todo.pop()
            if id(f) in seen_:
                continue
            seen_.add(id(f))
            for n in walk(f.get('body')):
                if n.get('k') == 'var' and n.get('static') and 'set<' in str(n.get('t', '')) and 'AlmOp' in str(n.get('t', '')):
                    vals = sorted({const_value(x) for x in walk(n.get('init')) if x.get('k') == 'ref' and x.get('dk') == 'enum'} - {None})
                    sets[side] = (vals, f, n)
                fn_ = n.get('fn') if n.get('k') in ('call', 'lambda') else None
                if fn_ in F and depth_[id(f)] < 2 and (F[fn_].get('cls') == side or '::<lambda@' in fn_):
                    depth_.setdefault(id(F[fn_]), depth_[id(f)] + 1)
                    todo.append(F[fn_])
    ctx.inst(G5)
    if set(sets) != {INTERP, GEN}:
        ctx.report(G5, ('src/test_generator.cpp', GEN + '::alm', 0), 0, 'allowed_instruction', 'the guarded operation sets were not found on both sides: %s' % sorted(sets))
    elif sets[INTERP][0] != sets[GEN][0]:
        ctx.report(G5, sets[GEN][1], sets[GEN][2], 'allowed_instruction', 'interpreter allows %s with 40-bit operands, generator emits %s' % (sets[INTERP][0], sets[GEN][0]))
    g7_windows(ctx)
    ctx.sample({'pair': 'alm(Alm,Rn,StepZIDS,Ax)', 'address operand': 1, 'generator': 'ConfigWithAddress(a)'})
    ctx.assumptions += ['clause 1 (numerical equality with the hardware reference for every opcode x state) is NOT decided: the reference '
                        'result file is not in the repository and bit-precise equivalence is a solver task',
                        'that a pinned register stays in the window after configured non-unit steps of two-access forms is not decided']


def unimplemented_set(ctx):
    f = [g for k, g in ctx.F['functions'].items() if g['name'] == 'IsUnimplementedRegister']
    ctx.require(len(f) == 1, 'TestGenerator::IsUnimplementedRegister not found')
    ctx.touch(f[0])
    return {const_value(n['rhs']) for n in walk(f[0]['body']) if n.get('k') == 'bin' and n.get('op') == '==' and const_value(n.get('rhs')) is not None}


def unreachable_arms(ctx, name):
    f = [g for k, g in ctx.F['functions'].items() if g['name'] == name and g.get('cls') == INTERP]
    ctx.require(len(f) == 1, name + ' not found')
    sw = [n for n in walk(f[0]['body']) if n.get('k') == 'switch'][0]
    out = set()
    listed = set()
    default_unr = False
    for arm in switch_arms(sw):
        unr = any(x.get('k') == 'unreachable' for st in arm['stmts'] for x in walk(st)) and not any(x.get('k') in ('return', 'assign', 'call') for st in arm['stmts'] for x in walk(st))
        listed |= arm['labels']
        if unr:
            out |= arm['labels']
            if arm['default']:
                default_unr = True
    if default_unr:
        en = ctx.F['enums']['RegName']['enumerators']
        out |= {e['v'] for e in en if e['v'] not in listed}
    return out


def g7_windows(ctx):
    G7 = 'C01.G7'
    vs = ctx.F['vars']
    X, Y, S = (vs.get(k, {}).get('cv') for k in ('TestSpaceX', 'TestSpaceY', 'TestSpaceSize'))
    ctx.inst(G7)
    if None in (X, Y, S) or X & 0xFF or S < 0x100 or X + S > 0x10000 or Y + S > 0x10000 or not (X + S <= Y or Y + S <= X):
        ctx.report(G7, ('src/test.h', 'TestSpace', 0), 0, 'window constants', 'windows X=%s Y=%s size=%s are not two disjoint page-aligned ranges' % (X, Y, S))
        return
    gs = [g for g in ctx.F['functions'].values() if g['name'] == 'GenerateRandomState']
    ctx.require(len(gs) == 1, 'GenerateRandomState not found')
    g = gs[0]
    ctx.touch(g)
    r = Renderer(g, inline_locals=False)
    IV = Intervals(ctx.F, {})
    # every assignment of a window address: base + uniform(lo, hi) with [lo, hi] inside [0, size)
    n_pin = 0
    for n in walk(g['body']):
        if n.get('k') == 'assign' and n.get('op') == '=' and 'uniform' in r.r(n['rhs']):
            for c in walk(n['rhs']):
                if c.get('k') == 'call' and c.get('name') == 'uniform':
                    n_pin += 1
                    ctx.inst(G7)
                    lo, hi = const_value(c['args'][0]), const_value(c['args'][1])
                    if lo is None or hi is None or lo < 0 or hi >= S or lo > hi:
                        ctx.report(G7, g, n, 'pin offset', 'pinned offset range [%s, %s] is not inside the window size %s' % (lo, hi, S))
            t = r.r(n['rhs'])
            if str(X) not in t and str(Y) not in t and 'TestSpace' not in t:
                ctx.report(G7, g, n, 'pin base', 'pinned address is not based on TestSpaceX / TestSpaceY: ' + t[:120])
    ctx.require(n_pin >= 2, 'window pins in GenerateRandomState: %d' % n_pin)
    # page lock
    ctx.inst(G7)
    t = r.s(g['body'])
    if '(|= (. l:state State::mod1) %d)' % (X >> 8) not in t or '(&= (. l:state State::mod1) 65280)' not in t:
        ctx.report(G7, g, g['body'], 'page lock', 'lock_page does not set the data page to TestSpaceX >> 8')
    # whitelists
    for fn, bound in (('ConfigWithMemImm8', 0xFF), ('ConfigWithMemR7Imm7s', 10)):
        fs = [f for f in ctx.F['functions'].values() if f['name'] == fn]
        ctx.require(len(fs) == 1, fn + ' not found')
        ctx.inst(G7)
        vals = []
        for n in walk(fs[0]['body']):
            if n.get('k') == 'var' and n.get('name', '').startswith('random_pos'):
                vals = [const_value(x) for x in walk(n.get('init')) if x.get('k') == 'int' or 'cv' in x]
                vals = sorted({v for v in vals if v is not None and v < 0x10000})
        sv = [v if v < 0x8000 else v - 0x10000 for v in vals]
        if not vals or (fn == 'ConfigWithMemImm8' and max(vals) > 0xFF) or (fn == 'ConfigWithMemR7Imm7s' and max(abs(v) for v in sv) > bound):
            ctx.report(G7, fs[0], fs[0]['body'], fn + ' whitelist', 'whitelisted offsets %s can leave the compared window' % vals)
    # bit-reverse condition: generator vs interpreter
    W = pseudo.words(ctx.F)
    mod2 = {s['pos']: s['targets'][0] for s in W['mod2']['slots']}
    ev = Evaluator(ctx.F)
    ctx.inst(G7)
    found = False
    for n in walk(g['body']):
        if n.get('k') == 'if' and 'BitReverse' in r.s(n.get('then')) and 'mod2' in r.r(n.get('cond')):
            found = True
            # evaluate which mod2 bits the condition tests, for register index 0..7
            loopvar = None
            for x, parents in walk_parents(g['body']):
                if x is n:
                    loops = [p for p in parents if p.get('k') == 'for']
                    if loops:
                        for v in walk(loops[-1].get('init')):
                            if v.get('k') == 'var':
                                loopvar = v['name']
            terms = []

            def split(c, pol=True):
                c = unwrap_casts(c)
                if c.get('k') == 'bin' and c.get('op') == '&&' and pol:
                    split(c['lhs'], True)
                    split(c['rhs'], True)
                elif c.get('k') == 'un' and c.get('op') == '!':
                    split(c['e'], not pol)
                else:
                    terms.append((c, pol))
            split(n['cond'])
            for i in range(8):
                got = set()
                for c, pol in terms:
                    c = unwrap_casts(c)
                    sh = None
                    if c.get('k') == 'bin' and c.get('op') == '&' and const_value(c.get('rhs')) == 1:
                        inner = unwrap_casts(c['lhs'])
                        if inner.get('k') == 'bin' and inner.get('op') == '>>' and 'mod2' in r.r(inner['lhs']):
                            sh = ev.eval(inner['rhs'], {loopvar: i})
                    if sh is None or sh not in mod2:
                        got.add(('?', pol))
                    else:
                        got.add((mod2[sh], pol))
                want = {(('m', i), False), (('br', i), True)}
                if got != want:
                    ctx.report(G7, g, n, 'bit-reverse condition r%d' % i,
                               'the generator pre-reverses r%d under %s, the interpreter reverses the address under br[%d] && !m[%d]'
                               % (i, sorted(got, key=str), i, i))
                    break
    if not found:
        ctx.report(G7, g, g['body'], 'bit-reverse condition', 'the generator no longer pre-reverses pinned registers in bit-reverse mode')
    ra = ctx.fn('Teakra::Interpreter::RnAddress(unsigned int,unsigned int)')
    REGS = '(. f:Teakra::Interpreter::regs %s::' % RS
    from .. import summ, boolform
    rets = summ.summary(ctx, ra).returns()
    REV = boolform.all_of(boolform.A('([] %sbr) $0)' % REGS), boolform.neg(boolform.A('([] %sm) $0)' % REGS)))
    rev = rets.get('(call BitReverse $1)')
    if rev is None or boolform.equivalent(rev, REV) is not True:
        ctx.report(G7, ra, ra['body'], 'interpreter reverse condition', 'RnAddress reverses under %s' % (boolform.show(rev)[:200] if rev else 'no condition'))
    # verifier loops
    mains = [f for f in ctx.F['functions'].values() if f['name'] == 'main' and f['file'].startswith('src/test_verifier/')]
    ctx.require(len(mains) == 1, 'test_verifier main not found')
    m = mains[0]
    ctx.touch(m)
    rm = Renderer(m, inline_locals=False)
    ctx.inst(G7)
    loops = [n for n in walk(m['body']) if n.get('k') == 'for' and rm.r(n.get('cond')).endswith(' %d)' % S) and rm.r(n.get('cond')).startswith('(< l:')]
    txt = ' '.join(rm.s(l['body']) for l in loops)
    need = ['(+ %d l:' % X, '(+ %d l:' % Y]
    if len(loops) < 2 or not all(x in txt.replace('(+ l:offset %d)' % X, '(+ %d l:offset)' % X) or str(X) in txt for x in need[:1]) or str(Y) not in txt:
        ctx.report(G7, m, m['body'], 'verifier windows', 'the verifier does not load / compare exactly TestSpaceX/Y + [0, TestSpaceSize)')
