"""C07 - interrupts are delivered exactly once, in priority order, never spuriously (structural parts)."""
import re

from .. import callgraph, mmio
from ..astq import walk, walk_parents, direct_writes, field_path, unwrap_casts, const_value
from ..guards import guards_at
from ..norm import render, render_stmt, Renderer, short_fn
from ..runloop import RunLoop, REGS
from .widths import is_library

ICU = 'Teakra::ICU'
RS = 'Teakra::RegisterState'
BOOL = '(call std::bitset<16>::reference::operator bool on %s )'


def i1_routing(ctx):
    R = 'C07.I1'
    ctx.rule(R, 'routing guard in ICU::Trigger: on_interrupt(k) is control-dependent on bits[irq] and enabled[k][irq] of the same '
                'k / irq, on_vectored_interrupt on bits[irq] and vectored_enabled[irq] with GetVector(irq) and '
                'vector_context_switch[irq]; request |= bits precedes them; TriggerSingle(n) is Trigger(1 << n)', floor=4)
    f = ctx.fn(ICU + '::Trigger(unsigned short)')
    r = Renderer(f, inline_locals=False)
    bits = [v['name'] for v in walk(f['body']) if v.get('k') == 'var' and 'std::bitset<16>' in v.get('t', '') and r.r(v.get('init')) .endswith(' $0)')]
    ctx.inst(R)
    if len(bits) != 1:
        ctx.report(R, f, f['body'], 'Trigger bits', 'the triggered set is not IrqBits(irq_bits)')
        return
    b = 'l:' + bits[0]
    stmts = f['body'].get('body', [])
    req = [i for i, s in enumerate(stmts) if r.s(s) == '(|= f:%s::request %s)' % (ICU, b)]
    loop = [i for i, s in enumerate(stmts) if s.get('k') == 'for']
    if len(req) != 1 or not loop or req[0] > loop[0]:
        ctx.report(R, f, f['body'], 'Trigger request', 'the pending register is not updated with `request |= bits` before routing')
    inv = [n for n in walk(f['body']) if n.get('k') == 'opcall' and n.get('op') == '()']
    got = {'on_interrupt': 0, 'on_vectored_interrupt': 0}
    for n in inv:
        p = field_path(n['args'][0])
        if not p or p[1] not in got:
            continue
        got[p[1]] += 1
        ctx.inst(R)
        g = {(r.r(c), pol) for c, pol, s in guards_at(f['body'], n)}
        # the same guards in canonical form (operator bool of a bitset reference, negations and early `continue`s folded):
        # an atom X stands for "X is set"; give it the spelling the tests below expect as well
        from .. import boolform
        lits = boolform.literals(boolform.path_condition(f['body'], n, boolform.Former(f, renderer=r, expand_locals=False))) or set()
        for a_, pol_ in lits:
            g.add((a_, pol_))
            if a_.startswith('([] '):
                g.add((BOOL % a_, pol_))
        args = [r.r(a) for a in n['args'][1:]]
        # the irq loop variable: the one indexing bits
        irqs = [m.group(1) for c, pol in g for m in [re.match(r'^\(call std::bitset<16>::reference::operator bool on \(\[\] %s (l:[\w@]+)\) \)$' % re.escape(b), c)] if m and pol]
        if len(irqs) != 1:
            ctx.report(R, f, n, 'Trigger ' + p[1], 'signal is not guarded by bits[irq]: guards %s' % sorted(g))
            continue
        irq = irqs[0]
        if p[1] == 'on_interrupt':
            k = args[0] if args else '?'
            want = (BOOL % ('([] ([] f:%s::enabled %s) %s)' % (ICU, k, irq)), True)
            if want not in g:
                ctx.report(R, f, n, 'Trigger on_interrupt', 'core line %s is signalled without testing enabled[%s][%s]: guards %s' % (k, k, irq, sorted(g)))
        else:
            want = (BOOL % ('([] f:%s::vectored_enabled %s)' % (ICU, irq)), True)
            if want not in g:
                ctx.report(R, f, n, 'Trigger on_vectored_interrupt', 'vectored line is signalled without testing vectored_enabled[%s]' % irq)
            # (named temporaries for the two arguments are resolved to what they were computed from)
            rx = Renderer(f, inline_locals=True)
            args_x = [rx.r(a) for a in n['args'][1:]]
            wantv = ['(call %s::GetVector on this %s)' % (ICU, irq), '(!= ([] f:%s::vector_context_switch %s) 0)' % (ICU, irq)]
            if args != wantv and args_x != wantv and [BOOL % a if not a.startswith('(!= ') else a for a in args_x] != wantv:
                ctx.report(R, f, n, 'Trigger on_vectored_interrupt args', 'vector / context flag are not those of the triggering irq: %s' % args)
        extra = [c for c, pol in g if 'request' in c]
        if extra:
            ctx.report(R, f, n, 'Trigger ' + p[1] + ' request', 'routing consults the accumulated request register (re-signals stale requests): %s' % extra)
    if got != {'on_interrupt': 1, 'on_vectored_interrupt': 1}:
        ctx.report(R, f, f['body'], 'Trigger signals', 'expected one on_interrupt and one on_vectored_interrupt site, found %s' % got)
    # loops cover all 16 irqs and all core lines
    fors = [n for n in walk(f['body']) if n.get('k') == 'for']
    conds = sorted(r.r(n.get('cond')) for n in fors)
    if len(fors) != 2 or not any(c.endswith(' 16)') for c in conds) or not any('::size on f:%s::enabled' % ICU in c for c in conds):
        ctx.report(R, f, f['body'], 'Trigger loops', 'routing does not scan irq 0..15 x all core lines: %s' % conds)
    g = ctx.fn(ICU + '::TriggerSingle(unsigned int)')
    ctx.inst(R)
    if render_stmt(g['body'], g) != '{(call %s::Trigger on this (<< 1 $0))}' % ICU:
        ctx.report(R, g, g['body'], 'TriggerSingle', 'TriggerSingle(n) is not Trigger(1 << n)')
    gv = ctx.fn(ICU + '::GetVector(unsigned int) const')
    ctx.inst(R)
    if render_stmt(gv['body'], gv) != '{(return (| (<< ([] f:%s::vector_high $0) 16) ([] f:%s::vector_low $0)))}' % (ICU, ICU):
        ctx.report(R, gv, gv['body'], 'GetVector', 'vector address is not vector_low[irq] | vector_high[irq] << 16')


def i2_pending(ctx):
    R = 'C07.I2'
    ctx.rule(R, 'pending bits: ICU::request is written only by Trigger (|= bits), Acknowledge (&= ~bits) and Reset; '
                'GetRequest only reads; the routing masks enabled[k] / vectored_enabled are replaced by the written value in '
                'SetEnable / SetEnableVectored, cleared in Reset and modified nowhere else', floor=3)
    n = 0
    for fid, f in ctx.F['functions'].items():
        if not is_library(f):
            continue
        for n_ in walk(f.get('body')):
            tgt = None
            how = None
            if n_.get('k') == 'opcall' and n_.get('op') in ('|=', '&=', '=', '^=') and n_.get('args'):
                tgt, how = n_['args'][0], n_['op']
            elif n_.get('k') == 'call' and n_.get('obj') is not None and n_.get('name') in ('reset', 'set', 'flip'):
                tgt, how = n_['obj'], n_['name']
            p = field_path(tgt) if tgt is not None else None
            if p and (p[0], p[1]) == (ICU, 'request'):
                n += 1
                ctx.inst(R)
                ctx.touch(f)
                r = Renderer(f)
                nm = f['name']
                ok = False
                if nm == 'Trigger' and how == '|=':
                    ok = True
                elif nm == 'Acknowledge' and how == '&=' and r.r(n_['args'][1]).startswith('(~ (new std::bitset<16> $0))'):
                    ok = True
                elif nm == 'Reset' and how == 'reset':
                    ok = True
                if not ok:
                    ctx.report(R, f, n_, '%s request %s' % (nm, how), 'pending register modified by %s with %s %s'
                               % (short_fn(fid), how, r.r(n_['args'][1])[:60] if n_.get('args') and len(n_['args']) > 1 else ''))
    ctx.require(n >= 3, 'writers of ICU::request not found')
    # routing masks: what decides whether an IRQ reaches a line is exactly what software wrote last - enabled[k] and
    # vectored_enabled are replaced (plain `=`) by the bitset of the written value in SetEnable / SetEnableVectored, cleared in
    # Reset, and modified nowhere else (a `|=` there could add routes but never remove one)
    m = 0
    for fid, f in ctx.F['functions'].items():
        if not is_library(f):
            continue
        for n_ in walk(f.get('body')):
            tgt = how = None
            if n_.get('k') == 'opcall' and n_.get('op') in ('|=', '&=', '=', '^=', '<<=', '>>=') and n_.get('args'):
                tgt, how = n_['args'][0], n_['op']
            elif n_.get('k') == 'assign':
                tgt, how = n_.get('lhs'), n_.get('op')
            elif n_.get('k') == 'call' and n_.get('obj') is not None and n_.get('name') in ('reset', 'set', 'flip'):
                tgt, how = n_['obj'], n_['name']
            p = field_path(tgt) if tgt is not None else None
            if not p or p[0] != ICU or p[1] not in ('enabled', 'vectored_enabled'):
                continue
            m += 1
            ctx.inst(R)
            ctx.touch(f)
            nm = f['name']
            r = Renderer(f)
            val = r.r(n_['args'][1]) if n_.get('k') == 'opcall' and len(n_.get('args', [])) > 1 else (r.r(n_.get('rhs')) if n_.get('k') == 'assign' else '')
            ok = (nm == 'Reset' and how == 'reset') or \
                 (nm in ('SetEnable', 'SetEnableVectored') and how == '=' and re.match(r'^\(new std::bitset<16> \$\d\)$', val) is not None)
            if not ok:
                ctx.report(R, f, n_, '%s %s %s' % (nm, p[1], how),
                           'routing mask %s modified by %s with `%s %s`; it must be replaced by the written value (SetEnable*) or cleared (Reset)'
                           % (p[1], short_fn(fid), how, val[:60]))
    ctx.require(m >= 4, 'writers of the ICU routing masks not found (%d)' % m)


def i3_latches(ctx, RL):
    R = 'C07.I3'
    ctx.rule(R, 'core latches: regs.ip[i] / ipv are set to 1 only under the atomic exchange(false) of the matching latch at the top '
                'of the cycle and cleared only in the interrupt entry blocks; nothing else in the library writes them', floor=4)
    f, r = RL.f, RL.r
    RL.need('fetch', 'interrupt')
    # the sampling stage: everything in the cycle before the instruction fetch (the latch loop and the vectored latch test,
    # however they are phrased)
    sampling = RL.body[:RL.index('fetch')]
    for fid, g in ctx.F['functions'].items():
        if not is_library(g):
            continue
        for p, n, how in direct_writes(g.get('body')):
            if p[0] != RS or p[1] not in ('ip', 'ipv'):
                continue
            ctx.inst(R)
            ctx.touch(g)
            inst = '%s %s %s' % (short_fn(fid)[-30:], p[1], how)
            if g is not f:
                ctx.report(R, g, n, inst, 'interrupt pending latch written outside Interpreter::Run')
                continue
            val = const_value(n.get('rhs')) if n.get('k') == 'assign' and how == '=' else None
            gs = {(r.r(c), pol) for c, pol, s in guards_at(f['body'], n)}
            # the sampled value may sit in a named temporary: expand single-assignment locals
            from .. import boolform
            gs |= boolform.literals(boolform.path_condition(f['body'], n, boolform.Former(f, renderer=Renderer(f)))) or set()
            if val == 1:
                # must be directly guarded by exchange(false) of the matching latch
                if p[1] == 'ip':
                    idx = r.r(unwrap_casts(n['lhs'])['args'][1])
                    want = '(call std::atomic<bool>::exchange on ([] f:Teakra::Interpreter::interrupt_pending %s) 0 std::memory_order_seq_cst)' % idx
                else:
                    want = '(call std::atomic<bool>::exchange on f:Teakra::Interpreter::vinterrupt_pending 0 std::memory_order_seq_cst)'
                if (want, True) not in gs:
                    ctx.report(R, f, n, inst, 'latch set without the matching exchange(false) being true: guards %s' % sorted(gs))
                inside = any(x is n for st in sampling for x in walk(st))
                if not inside:
                    ctx.report(R, f, n, inst, 'latch set outside the sampling stage at the top of the cycle')
            elif val == 0:
                inside = any(x is n for x in walk(RL.stage['interrupt']))
                if not inside:
                    ctx.report(R, f, n, inst, 'latched request cleared outside the interrupt entry sequence (a masked request would be lost)')
            else:
                ctx.report(R, f, n, inst, 'pending latch is assigned something other than the constants 1 (sampled) / 0 (entered): %s'
                           % (r.r(n.get('rhs')) if n.get('k') == 'assign' else how))


def i4_entry(ctx, RL):
    R = 'C07.I4'
    ctx.rule(R, 'entry sequence: every vector jump is dominated by ie && !rep && im[i] && ip[i] (imv && ipv && !handled for the '
                'vectored line); on the same path ip/ipv = 0, ie = 0 and PushPC() come before the jump, ContextStore() after it iff '
                'ic[i] (the latched context flag); lines are scanned 0,1,2 with break at the first hit, vectored last; fixed '
                'vectors are 0x0006 + 8*i', floor=2)
    f, r = RL.f, RL.r
    RL.need('interrupt', 'dispatch', 'tick')
    blk = RL.stage['interrupt']
    ctx.inst(R)
    if not (RL.index('dispatch') < RL.index('interrupt') < RL.index('tick')):
        ctx.report(R, f, blk, 'interrupt stage order', 'interrupt entry is not between the instruction dispatch and the per-cycle tick')
    from .. import boolform
    FM = boolform.Former(f)
    stage_c = FM.form(blk['cond'])
    if boolform.equivalent(stage_c, boolform.all_of(boolform.A(REGS + 'ie)'), boolform.neg(boolform.A(REGS + 'rep)')))) is not True:
        ctx.report(R, f, blk, 'interrupt stage guard', 'interrupts are taken under %s, expected ie && !rep' % boolform.show(stage_c)[:200])
    jumps = [n for n in walk(blk) if n.get('k') == 'assign' and r.r(n['lhs']) == REGS + 'pc)']
    if len(jumps) != 2:
        ctx.report(R, f, blk, 'interrupt jumps', 'expected the fixed-vector and the vectored jump, found %d' % len(jumps))
        return
    pm = {}
    for n, parents in walk_parents(blk):
        pm[id(n)] = parents
    for j in jumps:
        ctx.inst(R)
        rhs = r.r(j['rhs'])
        vectored = 'vinterrupt_address' in rhs
        inst = 'vectored entry' if vectored else 'fixed-vector entry'
        pc = boolform.path_condition(blk, j, FM)

        def holds(atom, pol):
            lit = boolform.A(atom) if pol else boolform.neg(boolform.A(atom))
            return boolform.implies(pc, lit) is True
        # enclosing block statements
        parents = pm[id(j)]
        blocks = [p for p in parents if p.get('k') == 'block']
        seq = blocks[-1]['body']
        pos = [i for i, s in enumerate(seq) if s is j][0]
        before = [r.s(s) for s in seq[:pos]]
        after = seq[pos + 1:]
        if vectored:
            miss = [a for a in (REGS + 'imv)', REGS + 'ipv)') if not holds(a, True)]
            if not any(a.startswith('l:') and holds(a, False) for a in boolform.atoms(pc)):
                miss.append('!handled (a line accepted in the same cycle)')
            if miss:
                ctx.report(R, f, j, inst + ' guard', 'vectored entry is not guarded by %s (taken when %s)' % (sorted(miss), boolform.show(pc)[:260]))
            if REGS + 'ipv) 0)' not in ' '.join(before) or '(= ' + REGS + 'ipv) 0)' not in before:
                ctx.report(R, f, j, inst + ' latch', 'ipv is not cleared before the jump')
            ctxif = [s for s in after if s.get('k') == 'if' and 'ContextStore' in r.s(s)]
            if len(ctxif) != 1 or 'vinterrupt_context_switch' not in r.r(ctxif[0]['cond']):
                ctx.report(R, f, j, inst + ' context', 'context store is not conditional on the latched context-switch flag')
        else:
            m = re.match(r'^\(\+ \(\* 8 (l:[\w@]+)\) 6\)$', rhs)
            if not m:
                ctx.report(R, f, j, inst + ' vector', 'fixed vector is not 0x0006 + 8*i: ' + rhs)
                continue
            i = m.group(1)
            if not (holds('([] ' + REGS + 'im) %s)' % i, True) and holds('([] ' + REGS + 'ip) %s)' % i, True)):
                ctx.report(R, f, j, inst + ' guard', 'line entry is not guarded by im[i] && ip[i] of the same i: taken when %s' % boolform.show(pc)[:260])
            if '(= ([] ' + REGS + 'ip) %s) 0)' % i not in before:
                ctx.report(R, f, j, inst + ' latch', 'ip[i] is not cleared before the jump')
            ctxif = [s for s in after if s.get('k') == 'if' and 'ContextStore' in r.s(s)]
            if len(ctxif) != 1 or r.r(ctxif[0]['cond']) != '([] ' + REGS + 'ic) %s)' % i:
                ctx.report(R, f, j, inst + ' context', 'context store is not conditional on ic[i]')
            if not after or after[-1].get('k') != 'break':
                ctx.report(R, f, j, inst + ' priority', 'the priority scan does not stop at the first accepted line (no break)')
            # ascending scan from 0
            loops = [p for p in parents if p.get('k') == 'for']
            if not loops or const_value(([v for v in walk(loops[-1].get('init')) if v.get('k') == 'var'] or [{}])[0].get('init')) != 0 \
                    or not r.r(loops[-1].get('inc')).startswith(('(++ ', '(post++ ')):
                ctx.report(R, f, j, inst + ' priority', 'lines are not scanned upwards from int0')
        if '(= ' + REGS + 'ie) 0)' not in before:
            ctx.report(R, f, j, inst + ' ie', 'the global enable is not cleared before the jump')
        if '(call Teakra::Interpreter::PushPC on this )' not in before:
            ctx.report(R, f, j, inst + ' push', 'the return address is not pushed before the jump')
        elif before.index('(call Teakra::Interpreter::PushPC on this )') < max([i_ for i_, t in enumerate(before) if 'ie) 0)' in t] + [-1]) and False:
            pass
    # vectored last: its statement follows the fixed-line loop
    body = blk['then'].get('body', []) if blk['then'].get('k') == 'block' else [blk['then']]
    kinds = ['loop' if s.get('k') == 'for' else ('vec' if s.get('k') == 'if' and 'ipv' in r.r(s.get('cond')) else s.get('k')) for s in body]
    if [k for k in kinds if k in ('loop', 'vec')] != ['loop', 'vec']:
        ctx.report(R, f, blk, 'interrupt priority', 'the vectored line is not examined after int0..int2: %s' % kinds)


def i5_wiring(ctx):
    R = 'C07.I5'
    ctx.rule(R, 'wiring: every peripheral interrupt slot is bound in Teakra::Impl::Impl to icu.TriggerSingle(n) with a constant '
                'n < 16, the ICU slots to Processor::SignalInterrupt / SignalVectoredInterrupt, which forward to the interpreter '
                'latches; MMIO 0x200-0x20C reach the matching ICU accessors', floor=12)
    CG = callgraph.CallGraph(ctx.F, is_library)
    F = ctx.F['functions']
    slots = [k for k in CG.W.slots if k[1] in ('interrupt_handler', 'handler', 'semaphore_handler') and k[0].startswith('Teakra::')]
    ctx.require(len(slots) >= 5, 'peripheral interrupt slots not found: %s' % slots)
    for key in sorted(slots):
        # (forwarding lambdas are brought into bind form by the facts normalisation)
        ts = [t for t in CG.W.slots[key]['targets'] if t.get('func') is not None and is_library(t['func']) and t['kind'] in ('bind', 'lambda')
              and t['func']['id'].startswith('Teakra::Teakra::Impl::Impl(')]
        ctx.inst(R)
        if not ts:
            ctx.report(R, ('src/teakra.cpp', 'Teakra::Teakra::Impl::Impl', 0), 0, '%s::%s' % key, 'interrupt slot is not bound by the facade constructor')
            continue
        for t in ts:
            ctx.oblig(R)
            okb = False
            txt = ''
            if t['kind'] == 'bind':
                obj = render(t.get('obj'), t['func']) if t.get('obj') is not None else ''
                args = [const_value(a) for a in t.get('args', [])]
                txt = '%s on %s %s' % (short_fn(t.get('fn') or ''), obj, args)
                okb = short_fn(t.get('fn') or '') == 'Teakra::ICU::TriggerSingle' and obj in ('(& f:Teakra::Teakra::Impl::icu)', '(& (. this Teakra::Teakra::Impl::icu))') \
                    and len(args) == 1 and args[0] is not None and 0 <= args[0] < 16
            else:
                g = F.get(t['fn'])
                txt = render_stmt(g['body'], g) if g else ''
            if not okb:
                ctx.report(R, t['func'], t.get('site'), '%s::%s' % key, 'slot handler is not icu.TriggerSingle(constant < 16): ' + txt[:120])
    for key, want in (((ICU, 'on_interrupt'), 'Teakra::Processor::SignalInterrupt'), ((ICU, 'on_vectored_interrupt'), 'Teakra::Processor::SignalVectoredInterrupt')):
        ts = [t for t in CG.W.slots.get(key, {'targets': []})['targets'] if t.get('func') is not None and is_library(t['func'])]
        ctx.inst(R)
        if [short_fn(t.get('fn') or '') for t in ts] != [want]:
            ctx.report(R, ('src/teakra.cpp', 'Teakra::Teakra::Impl::Impl', 0), 0, '%s::%s' % key, 'ICU output is wired to %s, expected %s' % ([t.get('fn') for t in ts], want))
        else:
            args = [render(a) for a in ts[0].get('args', [])]
            exp = ['std::placeholders::_1'] if 'Vectored' not in want else ['std::placeholders::_1', 'std::placeholders::_2']
            if args != exp:
                ctx.report(R, ts[0]['func'], ts[0].get('site'), '%s::%s args' % key, 'arguments are not forwarded in order: %s' % args)
    for nm, inner in (('SignalInterrupt(unsigned int)', '(call Teakra::Interpreter::SignalInterrupt on (. (-> f:Teakra::Processor::impl) Teakra::Processor::Impl::interpreter) $0)'),
                      ('SignalVectoredInterrupt(unsigned int,bool)', '(call Teakra::Interpreter::SignalVectoredInterrupt on (. (-> f:Teakra::Processor::impl) Teakra::Processor::Impl::interpreter) $0 $1)')):
        g = ctx.fn('Teakra::Processor::' + nm)
        ctx.inst(R)
        if render_stmt(g['body'], g) != '{%s}' % inner:
            ctx.report(R, g, g['body'], 'Processor::' + nm.split('(')[0], 'does not forward to the interpreter latch')
    g = ctx.fn('Teakra::Interpreter::SignalInterrupt(unsigned int)')
    ctx.inst(R)
    if [render_stmt(st_, g) for st_ in g['body'].get('body', []) if st_.get('k') != 'assert'] != ['(= ([] f:Teakra::Interpreter::interrupt_pending $0) 1)']:
        ctx.report(R, g, g['body'], 'Interpreter::SignalInterrupt', 'does not latch interrupt_pending[i] = true')
    g = ctx.fn('Teakra::Interpreter::SignalVectoredInterrupt(unsigned int,bool)')
    ctx.inst(R)
    w = {}
    for st in g['body'].get('body', []):
        if st.get('k') == 'assert':
            continue
        if st.get('k') == 'opcall' and st.get('op') == '=':
            p = field_path(st['args'][0])
            w[p[1] if p else '?'] = render(st['args'][1], g)
    if w != {'vinterrupt_address': '$0', 'vinterrupt_pending': '1', 'vinterrupt_context_switch': '$1'}:
        ctx.report(R, g, g['body'], 'Interpreter::SignalVectoredInterrupt', 'latches %s' % w)
    M = mmio.Model(ctx.F)
    want = {0x200: (None, 'GetRequest'), 0x202: ('Acknowledge', 'GetAcknowledge'), 0x204: ('Trigger', 'GetTrigger'),
            0x206: ('SetEnable', 'GetEnable', 0), 0x208: ('SetEnable', 'GetEnable', 1), 0x20A: ('SetEnable', 'GetEnable', 2),
            0x20C: ('SetEnableVectored', 'GetEnableVectored')}
    for off, w_ in want.items():
        c = M.cells.get(off)
        ctx.inst(R)
        ok = c is not None
        if ok:
            s, g_ = c['set'], c['get']
            if w_[0] is not None:
                ok = ok and s and s.get('kind') == 'method' and short_fn(s['fn']) == ICU + '::' + w_[0] and s['obj'] == 'icu'
            ok = ok and g_ and g_.get('kind') == 'method' and short_fn(g_['fn']) == ICU + '::' + w_[1] and g_['obj'] == 'icu'
            if ok and len(w_) == 3:
                ok = s['bound'][0] == w_[2] and g_['bound'][0] == w_[2]
        if not ok:
            ctx.report(R, ('src/mmio.cpp', 'Teakra::MMIORegion::MMIORegion', c['line'] if c else 0), c['line'] if c else 0,
                       'MMIO %03X' % off, 'ICU register is not bound to %s' % (w_,))
    # enable registers: Set/GetEnable store per line
    g = ctx.fn(ICU + '::SetEnable(unsigned int,unsigned short)')
    ctx.inst(R)
    if '(= ([] f:%s::enabled $0) (new std::bitset<16> $1))' % ICU not in render_stmt(g['body'], g):
        ctx.report(R, g, g['body'], 'ICU::SetEnable', 'does not store the enable mask of the given core line')


def run(ctx):
    RL = RunLoop(ctx.F)
    ctx.touch(RL.f)
    i1_routing(ctx)
    i2_pending(ctx)
    i3_latches(ctx, RL)
    i4_entry(ctx, RL)
    i5_wiring(ctx)
    ctx.sample({'entry': 'fixed-vector', 'guards': ['ie', '!rep', 'im[i]', 'ip[i]'], 'sequence': ['ip[i]=0', 'ie=0', 'PushPC', 'pc=6+8i', 'ContextStore iff ic[i]', 'break']})
    ctx.assumptions += ['temporal clauses (first boundary at which the enables hold, exactly-once across histories) are not decided',
                        'IRQ numbers are not compared with icu.md (the property does not fix them)']
