"""C12 - MMIO registers hold what was written and do not alias one another."""
import os

from .. import mmio, docs
from ..astq import walk, direct_writes, field_path, field_chain, unwrap_casts, const_value
from ..facts import AnalysisBroken
from ..norm import render, render_stmt, Renderer, short_fn

# write-only / trigger / acknowledge cells: the documented couplings of the property
COUPLINGS = {
    0x022: 'timer 0 event write (EW): counts one event', 0x032: 'timer 1 event write (EW)',
    0x0C0: 'APBP reply 0: mailbox send / peek', 0x0C4: 'APBP reply 1', 0x0C8: 'APBP reply 2',
    0x0C2: 'APBP command 0: receive clears the ready flag', 0x0C6: 'APBP command 1', 0x0CA: 'APBP command 2',
    0x0CC: 'semaphore set (accumulates)', 0x0D0: 'semaphore acknowledge (write-one-to-clear)', 0x0D2: 'semaphore read-only view',
    0x0E0: 'AHBM busy flag (read-only)',
    0x18C: 'DMA SEOX read-only constant',
    0x1DE: 'DMA control: start on 0x40C0',
    0x200: 'ICU pending (read-only)', 0x202: 'ICU acknowledge', 0x204: 'ICU software trigger',
    0x2C6: 'BTDMP0 transmit FIFO', 0x346: 'BTDMP1 transmit FIFO', 0x2CA: 'BTDMP0 flush', 0x34A: 'BTDMP1 flush',
    0x01A: 'chip detect constant',
}
DOC_FILES = ['timer.md', 'dma.md', 'icu.md', 'ahbm.md', 'apbp.md', 'btdmp.md', 'miu.md']
DMA_WINDOW = range(0x1C0, 0x1E0)


def method_leaves(ctx, fn_id, bound, want):
    """rendered locations written (want='w') or read by the return value (want='r') of method fn_id,
       with its leading parameters fixed to the bound constants"""
    f = ctx.F['functions'].get(fn_id)
    if f is None:
        return None
    ctx.touch(f)
    env = {}
    for p, b in zip(f.get('params', []), bound):
        if isinstance(b, int):
            env[p['name']] = b
    r = Renderer(f, param_names=True, env=env)
    out = set()
    if want == 'w':
        for p, n, how in direct_writes(f.get('body')):
            tgt = n.get('lhs') if n.get('k') == 'assign' else (n.get('e') if n.get('k') == 'un' else (n.get('args') or [None])[0])
            out.add(r.r(tgt))
        # one level of forwarding (Apbp::X -> impl->data_channels[c].Y)
        for n in walk(f.get('body')):
            if n.get('k') == 'call' and n.get('fn') in ctx.F['functions'] and n.get('obj') is not None:
                callee = ctx.F['functions'][n['fn']]
                sub = method_leaves(ctx, n['fn'], [], 'w')
                if sub:
                    base = r.r(n['obj'])
                    out |= {'%s->%s' % (base, s) for s in sub}
    else:
        rets = [n['e'] for n in walk(f.get('body')) if n.get('k') == 'return' and n.get('e') is not None]
        for e in rets:
            for n in walk(e):
                if field_path(n) is not None and n.get('k') in ('mem', 'opcall', 'index'):
                    out.add(r.r(n))
            for n in walk(e):
                if n.get('k') == 'call' and n.get('fn') in ctx.F['functions'] and n.get('obj') is not None:
                    sub = method_leaves(ctx, n['fn'], [], 'r')
                    if sub:
                        base = r.r(n['obj'])
                        out |= {'%s->%s' % (base, s) for s in sub}
    return out


def callable_leaves(ctx, c, want):
    """(object, set of rendered leaves) for a cell/slot callable"""
    if c is None:
        return None, None
    k = c['kind']
    if k == 'ref':
        return c['target'], {c['target']}
    if k == 'method':
        b = [x for x in c['bound'] if not (isinstance(x, str) and x.startswith('_'))]
        return c['obj'], method_leaves(ctx, c['fn'], b, want)
    if k == 'lambda' and c.get('summary') == 'call':
        b = [x for x in c['bound'] if not (isinstance(x, str) and x.startswith('_'))]
        return c['obj'], method_leaves(ctx, c['call_fn'], b, want)
    return None, None


def b0_shapes(ctx):
    R = 'C12.B0'
    ctx.rule(R, 'cell plumbing has the shape the binding table assumes: MMIORegion::Read/Write index cells[addr] and call '
                'get/set; RefCell/RefSlot closures write and read their variable; BitFieldCell applies (value >> pos) & (2^len-1) '
                'on write, clears and ORs the slot range on read, and keeps unmodelled bits in its backing word', floor=6)
    F = ctx.F['functions']
    f = ctx.fn('Teakra::MMIORegion::Read(unsigned short)')
    ctx.inst(R)
    t = render_stmt(f['body'], f)
    if '(() (. ([] (. (-> f:Teakra::MMIORegion::impl) Teakra::MMIORegion::Impl::cells) $0) Teakra::Cell::get))' not in t:
        ctx.report(R, f, f['body'], 'MMIORegion::Read', 'Read(addr) does not return cells[addr].get()')
    f = ctx.fn('Teakra::MMIORegion::Write(unsigned short,unsigned short)')
    ctx.inst(R)
    t = render_stmt(f['body'], f)
    if '(() (. ([] (. (-> f:Teakra::MMIORegion::impl) Teakra::MMIORegion::Impl::cells) $0) Teakra::Cell::set) $1)' not in t:
        ctx.report(R, f, f['body'], 'MMIORegion::Write', 'Write(addr, v) does not call cells[addr].set(v)')
    # RefCell
    f = ctx.fn('Teakra::Cell::RefCell(unsigned short &)')
    ctx.inst(R)
    lam = [n for n in walk(f['body']) if n.get('k') == 'lambda']
    bodies = sorted(render_stmt(F[l['fn']]['body'], F[l['fn']], inline_locals=False, param_names=True) for l in lam if l['fn'] in F)
    if bodies != ['{(= $var $value)}', '{(return $var)}'] or not all(c.get('byref') for l in lam for c in l.get('caps', [])):
        ctx.report(R, f, f['body'], 'Cell::RefCell', 'RefCell closures are not {var = value} / {return var} by reference: %s' % bodies)
    # RefSlot instantiations
    n = 0
    for fid, g in F.items():
        if g.get('name') == 'RefSlot' and g.get('cls') == 'Teakra::BitFieldSlot':
            n += 1
            ctx.touch(g)
            ctx.inst(R)
            lam = [x for x in walk(g['body']) if x.get('k') == 'lambda']
            bodies = sorted(render_stmt(F[l['fn']]['body'], F[l['fn']], inline_locals=False, param_names=True) for l in lam if l['fn'] in F)
            if bodies != ['{(= $var $value)}', '{(return $var)}'] or not all(c.get('byref') for l in lam for c in l.get('caps', [])):
                ctx.report(R, g, g['body'], 'BitFieldSlot::RefSlot', 'RefSlot closures are not {var = value} / {return var}: %s' % bodies)
            init = [x for x in walk(g['body']) if x.get('k') == 'initlist' and 'BitFieldSlot' in str(x.get('t'))]
            if not init or [render(e, g) for e in init[0]['elts'][:2]] != ['$0', '$1']:
                ctx.report(R, g, g['body'], 'BitFieldSlot::RefSlot', 'RefSlot does not forward (pos, length) to the slot')
    ctx.require(n >= 2, 'BitFieldSlot::RefSlot instantiations missing')
    # BitFieldCell
    cands = [g for k, g in F.items() if k.startswith('Teakra::Cell::BitFieldCell(') and '::<lambda@' not in k]
    ctx.require(len(cands) == 1, 'Cell::BitFieldCell not found')
    f = cands[0]
    ctx.touch(f)
    ctx.inst(R)
    lam = [n for n in walk(f['body']) if n.get('k') == 'lambda']
    ctx.require(len(lam) == 2, 'BitFieldCell: expected a set and a get closure')
    for l in lam:
        g = F[l['fn']]
        t = render_stmt(g['body'], g, inline_locals=False)
        slotvar = [v['var']['name'] for v in walk(g['body']) if v.get('k') == 'rangefor']
        sv = slotvar[0] if slotvar else 'slot'
        if len(g.get('params', [])) == 1:
            want_call = '(() (. l:%s Teakra::BitFieldSlot::set) (& (- (<< 1 (. l:%s Teakra::BitFieldSlot::length)) 1) (>> $0 (. l:%s Teakra::BitFieldSlot::pos))))' % (sv, sv, sv)
            if want_call not in t or '(= (* l:storage) $0)' not in t.replace('(call std::__shared_ptr_access<unsigned short, __gnu_cxx::_S_atomic, false, false>::operator* on l:storage )', '(* l:storage)'):
                ctx.report(R, g, g['body'], 'BitFieldCell set', 'set closure is not `slot.set((value >> pos) & mask); *storage = value`: ' + t[:300])
        else:
            ok = '(&= l:value (~ (<< (- (<< 1 (. l:%s Teakra::BitFieldSlot::length)) 1) (. l:%s Teakra::BitFieldSlot::pos))))' % (sv, sv) in t \
                 and '(|= l:value (<< (() (. l:%s Teakra::BitFieldSlot::get)) (. l:%s Teakra::BitFieldSlot::pos)))' % (sv, sv) in t
            if not ok:
                ctx.report(R, g, g['body'], 'BitFieldCell get', 'get closure does not clear and OR each modelled slot range: ' + t[:300])


def run(ctx):
    M = mmio.Model(ctx.F, strict=False)
    for line, msg in M.problems:
        raise AnalysisBroken('C12: MMIORegion::MMIORegion line %s: %s' % (line, msg))
    ctx.require(len(M.cells) >= 105, 'MMIO binding table has only %d cells' % len(M.cells))
    b0_shapes(ctx)
    ctor = M.ctor
    R1, R2, R3, R4, R5 = 'C12.B1', 'C12.B2', 'C12.B3', 'C12.B4', 'C12.B5'
    ctx.rule(R1, 'get/set pairing: for each cell / bit-field slot with both directions modelled the location the setter writes '
                 'is the location the getter reads (same object, same field, same bound index); one-directional cells are the '
                 'documented couplings', floor=150)
    ctx.rule(R2, 'no aliasing: a storage location is the write target of at most one (offset, bit range); slots of one cell are '
                 'disjoint, inside 16 bits, and every cell offset is assigned once', floor=105)
    ctx.rule(R3, 'DMA channel window: every per-channel accessor indexes channels[active_channel] only, the window select is '
                 'bound at 0x1BE only, and every named field of a window register is modelled completely (no bit of it falls '
                 'into the backing word shared by the eight channels)', floor=18)
    ctx.rule(R4, 'documentation agreement: every modelled bit-field slot lies inside one named field of the register diagram at '
                 'that offset (timer.md, dma.md, icu.md, ahbm.md, apbp.md, btdmp.md, miu.md; +N*k families expanded)', floor=60)
    ctx.rule(R5, 'relocation and mirrors: MMIORead/MMIOWrite/ToMMIO reduce the address with MMIOSize-1, MMIOSize is the cell '
                 'count, and mmio_base is bound at one offset only', floor=4)

    targets = {}   # leaf -> [(offset, pos, len)]

    def loc(off):
        return ('src/mmio.cpp', 'Teakra::MMIORegion::MMIORegion', M.cells[off]['line'])

    def pair(off, pos, ln, s, g, line):
        inst = 'cell %03X' % off + ('' if pos is None else '[%d+%d]' % (pos, ln))
        so, sw = callable_leaves(ctx, s, 'w')
        go, gr = callable_leaves(ctx, g, 'r')
        ctx.inst(R1)
        both = sw is not None and gr is not None and s['kind'] != 'noset'
        if both and gr:
            if so != go:
                ctx.report(R1, ('src/mmio.cpp', 'Teakra::MMIORegion::MMIORegion', line), line, inst,
                           'setter acts on %s but getter reads %s' % (so, go))
            elif not (sw & gr):
                if off in COUPLINGS:
                    return
                ctx.report(R1, ('src/mmio.cpp', 'Teakra::MMIORegion::MMIORegion', line), line, inst,
                           'setter writes %s but getter reads %s' % (sorted(sw)[:4], sorted(gr)[:4]))
            else:
                for leaf in (sw & gr):
                    targets.setdefault((so, leaf), []).append((off, pos, ln))
        elif both and not gr:
            if off not in COUPLINGS and not (pos is not None and s.get('kind') == 'lambda' and g.get('summary') == 'const'
                                              and off in (0x20, 0x30)):
                ctx.report(R1, ('src/mmio.cpp', 'Teakra::MMIORegion::MMIORegion', line), line, inst,
                           'write-only / trigger cell that is not a documented coupling')
        else:
            # one direction unmodelled: must be a documented coupling, a read-only status slot, or reserved bits
            if s is not None and s.get('kind') not in ('empty', 'noset', None) and (g is None or g.get('kind') in ('empty',)):
                if off not in COUPLINGS:
                    ctx.report(R1, ('src/mmio.cpp', 'Teakra::MMIORegion::MMIORegion', line), line, inst,
                               'settable location without a getter that is not a documented coupling')

    for off in sorted(M.cells):
        c = M.cells[off]
        ctx.inst(R2)
        if len(c['assigned']) > 1:
            ctx.report(R2, loc(off), c['line'], 'cell %03X' % off, 'cell is assigned more than once (lines %s)' % c['assigned'])
        if c['kind'] == 'temporary-default':
            ctx.report(R2, loc(off), c['line'], 'cell %03X' % off, 'cell is overwritten with a temporary default Cell()')
        if off >= 0x800 or off < 0:
            ctx.report(R2, loc(off), c['line'], 'cell %03X' % off, 'offset outside the 0x800 window')
        if c['kind'] == 'bitfield':
            used = 0
            for s in c['slots']:
                ctx.oblig(R2)
                inst = 'cell %03X[%s+%s]' % (off, s['pos'], s['len'])
                if s['pos'] is None or s['len'] is None or s['len'] < 1 or s['pos'] + s['len'] > 16:
                    ctx.report(R2, loc(off), s['line'], inst, 'slot outside 16 bits')
                    continue
                m = ((1 << s['len']) - 1) << s['pos']
                if used & m:
                    ctx.report(R2, loc(off), s['line'], inst, 'slot overlaps another slot of the same cell')
                used |= m
                pair(off, s['pos'], s['len'], s['set'], s['get'], s['line'])
        else:
            pair(off, None, None, c['set'], c['get'], c['line'])
    for (obj, leaf), uses in sorted(targets.items(), key=str):
        ctx.oblig(R2)
        if len(uses) > 1:
            ctx.report(R2, loc(uses[1][0]), M.cells[uses[1][0]]['line'], 'leaf %s:%s' % (obj, leaf[:60]),
                       'storage location is bound at several places: %s' % ['%03X%s' % (o, '' if p is None else '[%d+%d]' % (p, l)) for o, p, l in uses])

    # ---- B3 channel window
    F = ctx.F['functions']
    rec = ctx.record('Teakra::Dma')
    ch = [fl for fl in rec['fields'] if fl['name'] == 'channels']
    ctx.require(ch and ch[0]['t'].get('tn') == 'std::array' and ch[0]['t']['ta'][1].get('i') == 8, 'Dma::channels is not std::array<Channel, 8>')
    sel = [o for o, c in M.cells.items() if c['set'] and c['set'].get('kind') == 'method' and short_fn(c['set']['fn']) == 'Teakra::Dma::ActivateChannel']
    ctx.inst(R3)
    if sel != [0x1BE]:
        ctx.report(R3, loc(sel[0]) if sel else ('src/mmio.cpp', 'Teakra::MMIORegion::MMIORegion', 0), 0, 'Dma::ActivateChannel',
                   'channel-window select bound at %s, expected 0x1BE only' % [hex(x) for x in sel])
    docs_all = load_docs(ctx)
    for off in sorted(M.cells):
        if off not in DMA_WINDOW:
            continue
        c = M.cells[off]
        cal = []
        if c['kind'] == 'bitfield':
            for s in c['slots']:
                cal += [s['set'], s['get']]
        else:
            cal += [c['set'], c['get']]
        for x in cal:
            if not x or x.get('kind') != 'method':
                continue
            ctx.inst(R3)
            f = F.get(x['fn'])
            ctx.require(f is not None, 'DMA accessor %s not found' % x['fn'])
            ctx.touch(f)
            idxs = set()
            for n in walk(f['body']):
                if n.get('k') == 'opcall' and n.get('op') == '[]':
                    p = field_path(n['args'][0])
                    if p and p[1] == 'channels':
                        idxs.add(render(n['args'][1], f))
            if idxs != {'f:Teakra::Dma::active_channel'}:
                ctx.report(R3, f, f['body'], short_fn(x['fn']), 'per-channel accessor indexes channels[%s], expected channels[active_channel]' % sorted(idxs))
        # named doc fields must be modelled completely
        for d in docs_all.get(off, []):
            for hi, lo, name in d['fields']:
                if docs.unnamed(name):
                    continue
                ctx.oblig(R3)
                if c['kind'] != 'bitfield':
                    continue   # whole word goes through the per-channel accessor
                exact = [s for s in c['slots'] if s['pos'] == lo and s['pos'] + s['len'] - 1 == hi and s['set'] and s['set'].get('kind') == 'method']
                if not exact:
                    ctx.report(R3, loc(off), c['line'], 'cell %03X %s[%d:%d]' % (off, name, hi, lo),
                               'documented field %s (bits %d..%d) of a channel-window register is not modelled exactly; its remaining '
                               'bits live in a backing word shared by all eight channels' % (name, hi, lo))

    # ---- B4 documentation containment
    for off in sorted(M.cells):
        c = M.cells[off]
        if c['kind'] != 'bitfield':
            continue
        ds = docs_all.get(off)
        if not ds:
            ctx.report(R4, loc(off), c['line'], 'cell %03X' % off, 'modelled bit-field register has no diagram row in the documentation')
            continue
        for s in c['slots']:
            if s['pos'] is None:
                continue
            if (s['set'] is None or s['set'].get('kind') == 'empty') and (s['get'] is None or s['get'].get('kind') == 'empty'):
                continue   # reserved placeholder
            ctx.inst(R4)
            lo, hi = s['pos'], s['pos'] + s['len'] - 1
            ok = False
            for d in ds:
                for fh, fl_, name in d['fields']:
                    if not docs.unnamed(name) and fl_ <= lo and hi <= fh:
                        ok = True
            if not ok:
                ctx.report(R4, loc(off), s['line'], 'cell %03X[%d+%d]' % (off, s['pos'], s['len']),
                           'modelled slot (bits %d..%d) does not lie inside a named field of the documented register layout %s'
                           % (hi, lo, [(a, b, n) for d in ds for a, b, n in d['fields'] if not docs.unnamed(n)]))

    # ---- B5
    f = ctx.fn('Teakra::MemoryInterface::MMIORead(unsigned short)')
    ctx.inst(R5)
    if '(call Teakra::MMIORegion::Read on f:Teakra::MemoryInterface::mmio (& $0 2047))' not in render_stmt(f['body'], f):
        ctx.report(R5, f, f['body'], 'MemoryInterface::MMIORead', 'host MMIO read does not reduce the address with MMIOSize-1')
    f = ctx.fn('Teakra::MemoryInterface::MMIOWrite(unsigned short,unsigned short)')
    ctx.inst(R5)
    if '(call Teakra::MMIORegion::Write on f:Teakra::MemoryInterface::mmio (& $0 2047) $1)' not in render_stmt(f['body'], f):
        ctx.report(R5, f, f['body'], 'MemoryInterface::MMIOWrite', 'host MMIO write does not reduce the address with MMIOSize-1')
    f = ctx.fn('Teakra::MemoryInterfaceUnit::ToMMIO(unsigned short) const')
    ctx.inst(R5)
    rets = [render(n['e'], f) for n in walk(f['body']) if n.get('k') == 'return']
    if rets != ['(& (- $0 f:Teakra::MemoryInterfaceUnit::mmio_base) 2047)']:
        ctx.report(R5, f, f['body'], 'MemoryInterfaceUnit::ToMMIO', 'window offset is not (addr - mmio_base) & (MMIOSize-1): %s' % rets)
    ctx.inst(R5)
    check_inmmio(ctx, R5)
    ms = ctx.F['vars'].get('Teakra::MemoryInterfaceUnit::MMIOSize')
    rc = ctx.record('Teakra::MMIORegion::Impl')
    ncell = [fl['t']['ta'][1]['i'] for fl in rc['fields'] if fl['name'] == 'cells']
    ctx.inst(R5)
    if not ms or ms.get('cv') != 0x800 or ncell != [0x800]:
        ctx.report(R5, ('src/memory_interface.h', 'Teakra::MemoryInterfaceUnit', 0), 0, 'MMIOSize', 'MMIOSize (%s) and the cell count (%s) disagree' % (ms and ms.get('cv'), ncell))
    base = [o for o, c in M.cells.items() if c['kind'] == 'ref' and c['set']['target'] == 'miu.mmio_base']
    ctx.inst(R5)
    if base != [0x11E]:
        ctx.report(R5, loc(base[0]) if base else ('src/mmio.cpp', 'Teakra::MMIORegion::MMIORegion', 0), 0, 'miu.mmio_base',
                   'MMIO window base bound at %s, expected 0x11E only' % [hex(b) for b in base])
    ctx.sample({'cell': '0x1DA', 'slots': [(s['pos'], s['len'], (s['set'] or {}).get('fn', '')[:40]) for s in M.cells[0x1DA]['slots']]})
    ctx.sample({'cell': '0x0C0', 'set': M.cells[0xC0]['set']['fn'][:50], 'obj': M.cells[0xC0]['set']['obj'], 'bound': M.cells[0xC0]['set']['bound']})
    ctx.assumptions += ['the register diagrams of src/*.md are the documentation the property refers to',
                        'FIFO / trigger dynamics are decided in C14-C16, not here']


def load_docs(ctx):
    out = {}
    root = os.path.join(ctx.F['repo'], 'src')
    for fn in DOC_FILES:
        d = docs.parse_file(os.path.join(root, fn))
        for off, rows in d.items():
            for r in rows:
                if r['stride']:
                    # expand families while the next documented base is not reached (bounded by 16 instances)
                    for n in range(16):
                        out.setdefault(off + n * r['stride'], []).append(r)
                else:
                    out.setdefault(off, []).append(r)
    # "same layout" families that the docs state in prose: timer 1 (+0x10), BTDMP 1 (+0x80)
    for off in list(out):
        if 0x20 <= off < 0x30:
            out.setdefault(off + 0x10, out[off])
        if 0x280 <= off < 0x300:
            out.setdefault(off + 0x80, out[off])
    return out


def check_inmmio(ctx, R5):
    """window test: base <= a < base + MMIOSize, with the upper bound NOT truncated to 16 bits (shared with C11.V6)"""
    from ..intervals import Intervals
    from .. import summ, boolform
    f = ctx.fn('Teakra::MemoryInterfaceUnit::InMMIO(unsigned short) const')
    IV = Intervals(ctx.F, {})
    BASE = 'f:Teakra::MemoryInterfaceUnit::mmio_base'
    # the bound expressions as written (whichever side of the comparison they are on)
    uppers = []
    for n in walk(f['body']):
        if n.get('k') == 'bin' and n.get('op') in ('<', '<=', '>', '>='):
            for a, b in ((n['lhs'], n['rhs']), (n['rhs'], n['lhs'])):
                if render(a, f) == '$0' and 'mmio_base' in render(b, f) and render(b, f) != BASE:
                    uppers.append(b)
    SM = summ.summary(ctx, f)
    got = SM.return_formula()
    ok = False
    for u in uppers:
        want = boolform.all_of(boolform.neg(boolform.A('(< $0 %s)' % BASE)), boolform.A('(< $0 %s)' % SM.R.r(u)))
        if boolform.equivalent(got, want) is True and IV.iv(u, f) == (0x800, 0xFFFF + 0x800):
            ok = True
    if not ok:
        ctx.report(R5, f, f['body'], 'MemoryInterfaceUnit::InMMIO',
                   'window test is not mmio_base <= addr < mmio_base + MMIOSize evaluated without 16-bit truncation '
                   '(a window relocated to 0xF800.. would not match, or low addresses would alias it): ' + boolform.show(got)[:200])
