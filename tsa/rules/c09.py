"""C09 - hardware loops execute their body exactly count+1 times (structural parts)."""
import re

from ..astq import walk, direct_writes, field_path, unwrap_casts, const_value
from ..flow import Flow, Client
from ..norm import render, render_stmt, Renderer, short_fn
from ..runloop import RunLoop, REGS
from .widths import is_library

RS = 'Teakra::RegisterState'
I = 'Teakra::Interpreter::'
CONSISTENT = frozenset({(0, 0), (1, 1)})   # (bcn != 0, lp)


class _LP(Client):
    """abstract state: set of (bcn_is_positive, lp) pairs; `bad` marks an underflowing --bcn"""

    def __init__(self, func):
        self.r = Renderer(func, inline_locals=False)
        self.bad = []
        self.BCN = None
        self.LP = None

    def join(self, a, b):
        if a is None:
            return b
        if b is None:
            return a
        return a | b

    def _which(self, e):
        p = field_path(e)
        if p and p[0] == RS and p[1] in ('bcn', 'lp'):
            return p[1]
        return None

    def transfer(self, e, st):
        if st is None or e is None:
            return st
        for n in self._order(e):
            st = self._one(n, st)
        return st

    def _order(self, e):
        # post-order: operands before operators
        out = []

        def rec(n):
            if not isinstance(n, dict):
                return
            from ..astq import children
            for c in children(n):
                rec(c)
            out.append(n)
        rec(e)
        return out

    def _one(self, n, st):
        k = n.get('k')
        if k == 'un' and n.get('op') in ('++', 'post++', '--', 'post--'):
            w = self._which(n.get('e'))
            if w == 'bcn':
                new = set()
                for (b, l) in st:
                    if n['op'] in ('++', 'post++'):
                        new.add((1, l))
                    else:
                        if b == 0:
                            self.bad.append(n)
                            new.add((0, l))
                            new.add((1, l))
                        else:
                            new.add((0, l))
                            new.add((1, l))
                return frozenset(new)
        if k == 'assign' and n.get('op') == '=':
            w = self._which(n.get('lhs'))
            if w is None:
                return st
            rhs = unwrap_casts(n.get('rhs'))
            cv = const_value(rhs)
            if cv is None and isinstance(rhs, dict) and rhs.get('k') == 'assign':
                cv = const_value(rhs.get('rhs'))     # lp = bcn = 1
            new = set()
            for (b, l) in st:
                vals = {1 if cv else 0} if cv is not None else self._truth(rhs, b, l)
                for v in vals:
                    new.add((b, v) if w == 'lp' else (v, l))
            return frozenset(new)
        return st

    def _truth(self, e, b, l):
        """possible truth values of expression e in the abstract state (bcn != 0) = b, lp = l"""
        e = unwrap_casts(e)
        if not isinstance(e, dict):
            return {0, 1}
        cv = const_value(e)
        if cv is not None:
            return {1 if cv else 0}
        w = self._which(e)
        if w == 'bcn':
            return {b}
        if w == 'lp':
            return {l}
        k = e.get('k')
        if k == 'un' and e.get('op') == '!':
            return {1 - v for v in self._truth(e.get('e'), b, l)}
        if k == 'bin' and e.get('op') in ('==', '!='):
            for x, y in ((e.get('lhs'), e.get('rhs')), (e.get('rhs'), e.get('lhs'))):
                c = const_value(unwrap_casts(y)) if isinstance(unwrap_casts(y), dict) else None
                if c == 0:
                    t = self._truth(x, b, l)
                    return {1 - v for v in t} if e['op'] == '==' else t
            return {0, 1}
        if k == 'bin' and e.get('op') == '&&':
            a, c = self._truth(e['lhs'], b, l), self._truth(e['rhs'], b, l)
            return {x & y for x in a for y in c}
        if k == 'bin' and e.get('op') == '||':
            a, c = self._truth(e['lhs'], b, l), self._truth(e['rhs'], b, l)
            return {x | y for x in a for y in c}
        if k == 'cond':
            out = set()
            for cval in self._truth(e.get('c'), b, l):
                out |= self._truth(e.get('a') if cval else e.get('b'), b, l)
            return out
        return {0, 1}

    def branch(self, cond, st):
        st = self.transfer(cond, st)
        if st is None:
            return None, None
        c = unwrap_casts(cond)
        t, f = set(st), set(st)
        w = self._which(c)
        neg = False
        if isinstance(c, dict) and c.get('k') == 'un' and c.get('op') == '!':
            w = self._which(c.get('e'))
            neg = True
        if w == 'lp':
            t = {x for x in st if x[1] == (0 if neg else 1)}
            f = {x for x in st if x[1] == (1 if neg else 0)}
        elif w == 'bcn':
            t = {x for x in st if x[0] == (0 if neg else 1)}
            f = {x for x in st if x[0] == (1 if neg else 0)}
        elif isinstance(c, dict) and c.get('k') == 'bin' and c.get('op') in ('==', '!=') and const_value(c.get('rhs')) == 0:
            w = self._which(c.get('lhs'))
            eq = c['op'] == '=='
            if w == 'bcn':
                t = {x for x in st if (x[0] == 0) == eq}
                f = {x for x in st if (x[0] == 0) != eq}
            elif w == 'lp':
                t = {x for x in st if (x[1] == 0) == eq}
                f = {x for x in st if (x[1] == 0) != eq}
        elif isinstance(c, dict) and c.get('k') == 'bin' and c.get('op') == '&&':
            t1, f1 = self.branch(c['lhs'], st)
            if t1 is None:
                return None, st
            t2, f2 = self.branch(c['rhs'], t1)
            return t2, self.join(f1, f2)
        return (frozenset(t) or None), (frozenset(f) or None)


def l1_typestate(ctx, RL):
    R = 'C09.L1'
    ctx.rule(R, 'in-loop typestate lp == (bcn != 0): every function that writes bcn or lp, started in a consistent state, leaves a '
                'consistent state on every path; --bcn never runs with bcn == 0; ++bcn is dominated by ASSERT(bcn <= 3); '
                'bkrep_stack[bcn-1] is only read under lp', floor=6)
    writers = {}
    for fid, f in ctx.F['functions'].items():
        if not is_library(f):
            continue
        for p, n, how in direct_writes(f.get('body')):
            if p[0] == RS and p[1] in ('bcn', 'lp'):
                writers.setdefault(fid, f)
    ctx.require(len(writers) >= 6, 'writers of bcn/lp: %s' % sorted(writers))
    for fid, f in sorted(writers.items()):
        if fid.startswith('Teakra::Redirector<') or fid.startswith('Teakra::RORedirector<'):
            continue
        ctx.inst(R)
        ctx.touch(f)
        cl = _LP(f)
        fl = Flow(cl)
        body = f['body']
        if f is RL.f:
            # one iteration of the cycle loop, excluding the dispatched instruction (checked on its own)
            body = {'k': 'block', 'body': [st for st in RL.body if st is not RL.stage.get('dispatch')]}
        exits = fl.exits(body, CONSISTENT)
        name = short_fn(fid)
        for st, node in exits:
            bad = set(st) - set(CONSISTENT)
            if bad:
                ctx.report(R, f, node or f['body'], name, 'a path leaves lp / bcn inconsistent: (bcn != 0, lp) in %s' % sorted(bad))
                break
        for n in cl.bad[:1]:
            ctx.report(R, f, n, name + ' --bcn', 'the loop nest counter can be decremented while it is 0')
    # reads of bkrep_stack[bcn - 1] only under lp
    from ..guards import guards_at
    n_reads = 0
    for fid, f in ctx.F['functions'].items():
        if not is_library(f):
            continue
        r = None
        for n in walk(f.get('body')):
            if n.get('k') == 'opcall' and n.get('op') == '[]':
                p = field_path(n['args'][0])
                if p and p[1] == 'bkrep_stack':
                    r = r or Renderer(f, inline_locals=False)
                    it = r.r(n['args'][1])
                    if 'bcn' in it and '(- ' in it:
                        n_reads += 1
                        ctx.inst(R)
                        ctx.touch(f)
                        # the guards that dominate the `bcn - 1` computation itself (it may sit in one arm of a selection)
                        tgt_ = next((x for x in walk(n['args'][1]) if x.get('k') == 'bin' and x.get('op') == '-' and 'bcn' in r.r(x.get('lhs'))), n)
                        g = {(r.r(c), pol) for c, pol, s in guards_at(f['body'], tgt_)}
                        if not any(pol and c.endswith('lp)') or pol and c.endswith('::lp') for c, pol in g):
                            ctx.report(R, f, n, short_fn(fid) + ' bkrep_stack[bcn-1]', 'top frame accessed without lp being set')
    ctx.require(n_reads >= 3, 'accesses of bkrep_stack[bcn-1] not found')


def l2_frame(ctx):
    R = 'C09.L2'
    ctx.rule(R, 'loop frame round trip: RestoreBlockRepeat reads the four words in the reverse order StoreBlockRepeat writes them, '
                'from/to frame 0, and decodes the flag word with the bit positions it was encoded with (lp 15, start high 0..1, '
                'end high 8..9); the stack shifts in opposite directions', floor=2)
    st = ctx.fn(I + 'StoreBlockRepeat(unsigned short &)')
    re_ = ctx.fn(I + 'RestoreBlockRepeat(unsigned short &)')
    rs = Renderer(st)           # locals inlined (flag)
    rr = Renderer(re_, inline_locals=False)
    F0 = '(. ([] %sbkrep_stack) 0) Teakra::RegisterState::BlockRepeatFrame::' % REGS
    ctx.inst(R, 2)
    # store sequence
    seq_s = []
    for n in walk(st['body']):
        if n.get('k') == 'call' and n.get('name') == 'DataWrite':
            if rs.r(n['args'][0]) != '(-- $0)':
                ctx.report(R, st, n, 'StoreBlockRepeat address', 'word is not stored at --address')
            t = Renderer(st, inline_locals=False).r(n['args'][1])
            if t == F0 + 'lc)':
                seq_s.append('lc')
            elif t == '(& %sstart) 65535)' % F0 or t == '(& 65535 %sstart))' % F0:
                seq_s.append('start')
            elif t == '(& %send) 65535)' % F0 or t == '(& 65535 %send))' % F0:
                seq_s.append('end')
            elif t.startswith('l:'):
                seq_s.append('flag')
            else:
                seq_s.append('?' + t[:60])
    seq_r = []
    for n in walk(re_['body']):
        tgt = None
        src = None
        if n.get('k') == 'assign' and n.get('op') == '=':
            tgt, src = rr.r(n['lhs']), n['rhs']
        elif n.get('k') == 'var' and 'init' in n:
            tgt, src = 'l:' + n['name'], n['init']
        if src is None:
            continue
        rd = [c for c in walk(src) if c.get('k') == 'call' and c.get('name') == 'DataRead']
        if not rd:
            continue
        if rr.r(rd[0]['args'][0]) != '(post++ $0)':
            ctx.report(R, re_, n, 'RestoreBlockRepeat address', 'word is not loaded from address++')
        if tgt == F0 + 'lc)':
            seq_r.append('lc')
        elif tgt == F0 + 'start)':
            seq_r.append('start')
        elif tgt == F0 + 'end)':
            seq_r.append('end')
        elif tgt.startswith('l:'):
            seq_r.append('flag')
            flagvar = tgt
        else:
            seq_r.append('?' + tgt[:60])
    if sorted(seq_s) != ['end', 'flag', 'lc', 'start'] or seq_r != list(reversed(seq_s)):
        ctx.report(R, re_, re_['body'], 'frame word order', 'store writes %s, restore reads %s (must be the reverse, all from frame 0)' % (seq_s, seq_r))
    # flag encoding
    flag_terms = set()
    for n in walk(st['body']):
        if n.get('k') == 'var' and n.get('name') == 'flag' and 'init' in n:
            flag_terms.add(Renderer(st, inline_locals=False).r(n['init']))
        if n.get('k') == 'assign' and n.get('op') == '|=' and Renderer(st, inline_locals=False).r(n['lhs']) == 'l:flag':
            flag_terms.add(Renderer(st, inline_locals=False).r(n['rhs']))
    want_s = {'(<< %slp) 15)' % REGS, '(>> %sstart) 16)' % F0, '(<< (>> %send) 16) 8)' % F0}
    if flag_terms != want_s:
        ctx.report(R, st, st['body'], 'flag encode', 'flag word is built from %s, expected lp<<15 | start>>16 | (end>>16)<<8' % sorted(flag_terms))
    txt = rr.s(re_['body'])
    dec_ok = '(var valid (>> l:flag 15))' in txt and \
             ('(= %send) (| (<< (& (>> l:flag 8) 3) 16) ' % F0) in txt and ('(= %sstart) (| (<< (& 3 l:flag) 16) ' % F0) in txt
    if not dec_ok:
        ctx.report(R, re_, re_['body'], 'flag decode', 'flag word is not decoded as valid = flag>>15, end high = (flag>>8)&3, start high = flag&3')
    # stack shift directions
    if 'std::copy_backward' not in txt or 'std::copy<' not in Renderer(st, inline_locals=False).s(st['body']):
        ctx.report(R, re_, re_['body'], 'stack shift', 'store does not shift the stack down with copy / restore up with copy_backward')


def l3_shape(ctx, RL):
    R = 'C09.L3'
    ctx.rule(R, 'loop bookkeeping in Run: after the fetch and before the dispatch, first the rep stage (counter 0 clears rep, else '
                '--repc and --pc once), then the lp stage (pc == end+1 of the top frame: counter 0 pops one level, else --lc and '
                'pc = start); Repeat / BlockRepeat store the count operand unmodified and the frame start = pc, end = operand', floor=4)
    f, r = RL.f, RL.r
    RL.need('fetch', 'expand', 'rep', 'lp', 'dispatch')
    ctx.inst(R)
    if not (RL.index('fetch') < RL.index('expand') < RL.index('rep') < RL.index('lp') < RL.index('dispatch')):
        ctx.report(R, f, RL.stage['rep'], 'stage order', 'stages are ordered %s; expected fetch, operand fetch, rep, lp, dispatch' % RL.order)
    from .. import summ, boolform
    A, N = boolform.A, boolform.neg

    def expect(stage, what, want, ignore_value=()):
        """the stage performs exactly the effects `want` {(lvalue, op, value): condition}"""
        SM = summ.summary_of(ctx, f, [stage])
        got = SM.effect_conditions(lambda e: e[0] == 'write' or (e[0] == 'call' and not SM.is_pure_call_text(e[1])))
        got2 = {}
        for e, c in got.items():
            key = (e[1], e[2], '*' if e[1] in ignore_value else e[3]) if e[0] == 'write' else ('call', e[1], '')
            got2[key] = boolform.any_of(got2.get(key, boolform.F_), c)
        probs = []
        for k_, c in want.items():
            if k_ not in got2:
                probs.append('missing %s %s %s' % k_)
            elif boolform.equivalent(got2[k_], c) is not True:
                probs.append('%s %s %s happens when %s' % (k_[0][-40:], k_[1], k_[2][-40:], boolform.show(got2[k_])[:160]))
        for k_ in got2:
            if k_ not in want:
                probs.append('unexpected %s %s %s' % (k_[0][-60:], k_[1], k_[2][-60:]))
        if probs:
            ctx.report(R, f, stage, what, '%s bookkeeping differs: %s' % (what, '; '.join(probs)[:500]))
    rep = RL.stage['rep']
    ctx.inst(R)
    REP, REPC, PC = REGS + 'rep)', REGS + 'repc)', REGS + 'pc)'
    expect(rep, 'rep stage', {(REP, '=', '0'): boolform.all_of(A(REP), N(A(REPC))),
                              (REPC, '--', ''): boolform.all_of(A(REP), A(REPC)),
                              (PC, '--', ''): boolform.all_of(A(REP), A(REPC))})
    lp = RL.stage['lp']
    ctx.inst(R)
    TOP = '(. ([] %sbkrep_stack) (- %sbcn) 1)) Teakra::RegisterState::BlockRepeatFrame::' % (REGS, REGS)
    LP, BCN = REGS + 'lp)', REGS + 'bcn)'
    HIT = boolform.all_of(A(LP), A('(== %s %s)' % tuple(sorted(['(+ %send) 1)' % TOP, PC]))))
    LC = A(TOP + 'lc)')
    expect(lp, 'lp stage', {(BCN, '--', ''): boolform.all_of(HIT, N(LC)),
                            (LP, '=', '*'): boolform.all_of(HIT, N(LC)),
                            (TOP + 'lc)', '--', ''): boolform.all_of(HIT, LC),
                            (PC, '=', TOP + 'start)'): boolform.all_of(HIT, LC)}, ignore_value=(LP,))
    g = ctx.fn_opt(I + 'Repeat(unsigned short)')
    repeat_helper = g
    ctx.inst(R)
    inlined_count = {}
    if g is not None:
        eff = summ.summary(ctx, g, asserts='ignore').effect_conditions()
        if {k[:4] for k in eff} != {('write', REPC, '=', '$0'), ('write', REP, '=', '1')} or any(boolform.equivalent(c, boolform.T) is not True for c in eff.values()):
            ctx.report(R, g, g['body'], 'Repeat', 'Repeat(n) is not {repc = n; rep = true}')
    else:
        # the helper was inlined into the rep handlers: each of them performs {repc = count; rep = true} itself
        hs = [x for x in ctx.F['functions'].values() if x.get('cls') == 'Teakra::Interpreter' and x['name'] in ('rep', 'rep_r6')]
        ctx.require(len(hs) >= 3, 'neither Interpreter::Repeat nor the rep handlers found')
        for h in hs:
            eff = summ.summary(ctx, h, asserts='ignore').effect_conditions()
            w = {k[:4]: c for k, c in eff.items() if k[0] == 'write'}
            cnt = [k[3] for k in w if k[1] == REPC and k[2] == '=']
            if len(cnt) != 1 or ('write', REP, '=', '1') not in w or len(w) != 2 or any(boolform.equivalent(c, boolform.T) is not True for c in w.values()):
                ctx.report(R, h, h['body'], short_fn(h['id'])[-30:], 'rep handler does not perform exactly {repc = count; rep = true}')
            else:
                inlined_count[h['id']] = cnt[0]
    g = ctx.fn(I + 'BlockRepeat(unsigned short,unsigned int)')
    ctx.inst(R)
    t = render_stmt(g['body'], g)
    FR = '(. ([] %sbkrep_stack) %sbcn)) Teakra::RegisterState::BlockRepeatFrame::' % (REGS, REGS)
    for piece in ('(= %sstart) %spc))' % (FR, REGS), '(= %send) $1)' % FR, '(= %slc) $0)' % FR, '(= %slp) 1)' % REGS, '(++ %sbcn))' % REGS):
        if piece not in t:
            ctx.report(R, g, g['body'], 'BlockRepeat', 'BlockRepeat does not perform ' + piece)
    # the frame must be filled before bcn is incremented
    if t.find('(++ %sbcn))' % REGS) < t.find('(= %slc) $0)' % FR):
        ctx.report(R, g, g['body'], 'BlockRepeat order', 'bcn is incremented before the new frame is written')
    # handlers pass the operand unmodified
    for nm in ('rep', 'bkrep'):
        for h in [x for x in ctx.F['functions'].values() if x.get('cls') == 'Teakra::Interpreter' and x['name'] in (nm, nm + '_r6')]:
            ctx.inst(R)
            ctx.touch(h)
            rh = Renderer(h)
            calls = [n for n in walk(h['body']) if n.get('k') == 'call' and n.get('name') in ('Repeat', 'BlockRepeat')]
            if repeat_helper is None and nm == 'rep':
                if h['id'] not in inlined_count:
                    continue            # reported above
                calls = [h['body']]
                a0 = inlined_count[h['id']]
            elif len(calls) != 1:
                ctx.report(R, h, h['body'], short_fn(h['id'])[-30:], 'does not call Repeat/BlockRepeat exactly once')
                continue
            else:
                a0 = rh.r(calls[0]['args'][0])
            if calls[0].get('name') == 'BlockRepeat' and len(calls[0].get('args', [])) > 1:
                # the end address comes from the instruction's address operand(s); the only machine state that may enter
                # is the program counter (the upper bits of a 16-bit address operand are those of the current pc)
                from ..astq import direct_reads
                from ..norm import Renderer as _R
                e1 = calls[0]['args'][1]
                rr_ = _R(h)
                # resolve locals to what they were computed from
                state = set()
                def _fields(e, depth=0):
                    for p_, n_ in direct_reads(e):
                        if p_[0] == RS:
                            state.add(p_[1])
                    for n_ in walk(e):
                        if n_.get('k') == 'ref' and n_.get('dk') == 'local' and n_.get('name') in rr_.locals and depth < 4:
                            _fields(rr_.locals[n_['name']], depth + 1)
                _fields(e1)
                extra = sorted(state - {'pc'})
                if extra:
                    ctx.report(R, h, calls[0], short_fn(h['id'])[-30:] + ' end address',
                               'the loop end address depends on register state other than pc: %s' % extra)
            ok = a0 in ('(call Imm<8>::Unsigned16 on $0 )', '(call Teakra::Interpreter::RegToBus16 on this (call EnumOperand<RegName, RegName::r0, RegName::r1, RegName::r2, RegName::r3, RegName::r4, RegName::r5, RegName::r7, RegName::y0, RegName::st0, RegName::st1, RegName::st2, RegName::p, RegName::pc, RegName::sp, RegName::cfgi, RegName::cfgj, RegName::b0h, RegName::b1h, RegName::b0l, RegName::b1l, RegName::ext0, RegName::ext1, RegName::ext2, RegName::ext3, RegName::a0, RegName::a1, RegName::a0l, RegName::a1l, RegName::a0h, RegName::a1h, RegName::lc, RegName::sv>::GetName on $0 ) 0)',
                        '([] %sr) 6)' % REGS) or a0.startswith('(call Teakra::Interpreter::RegToBus16 on this (call EnumOperand<RegName') and a0.endswith('::GetName on $0 ) 0)')
            if not ok:
                ctx.report(R, h, calls[0], short_fn(h['id'])[-30:], 'loop count is not the operand value itself: ' + a0[:120])


def run(ctx):
    RL = RunLoop(ctx.F)
    ctx.touch(RL.f)
    l1_typestate(ctx, RL)
    l2_frame(ctx)
    l3_shape(ctx, RL)
    ctx.sample({'frame store order': ['lc', 'start', 'end', 'flag'], 'restore order': ['flag', 'end', 'start', 'lc']})
    ctx.assumptions += ['iteration counts and equality with unrolled code are counting properties over executions and are not decided']
