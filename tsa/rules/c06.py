"""C06 - Run(n) is equivalent to n single-cycle steps, however it is sliced (structural necessary conditions)."""
from ..astq import walk, walk_parents, field_path, unwrap_casts, const_value, direct_writes
from ..cases import CaseWalker, NZ
from ..guards import guards_at
from ..norm import render, render_stmt, Renderer, short_fn
from ..runloop import RunLoop, REGS
from .widths import is_library

CB = 'Teakra::CoreTiming::Callbacks'
CT = 'Teakra::CoreTiming'


def implementers(ctx):
    out = []
    for name, r in ctx.F['records'].items():
        if any(b.get('s') == CB for b in r.get('bases', [])) and not r.get('abstract'):
            out.append(r)
    return out


def s1_complete(ctx, impls):
    R = 'C06.S1'
    ctx.rule(R, 'callbacks complete: every class derived from CoreTiming::Callbacks overrides Tick, GetMaxSkip and Skip and '
                'registers itself exactly once in its constructor; CoreTiming::Skip takes the minimum over all registered '
                'callbacks and hands the same tick count to all of them; CoreTiming::Tick visits all', floor=4)
    F = ctx.F['functions']
    lib = [r for r in impls if r['file'].startswith('src/')]
    ctx.require(len(lib) >= 2, 'timing components found: %s' % [r['name'] for r in impls])
    for r in impls:
        ctx.inst(R)
        ms = {m['name']: m for m in r['methods']}
        for need in ('Tick', 'GetMaxSkip', 'Skip'):
            m = ms.get(need)
            if m is None or not m.get('overrides'):
                ctx.report(R, (r['file'], r['name'], r['line']), r['line'], r['name'] + '::' + need, 'timing component does not override ' + need)
        if not r['file'].startswith('src/'):
            continue
        ctors = [f for f in F.values() if f.get('ctor') and f.get('cls') == r['name']]
        for c in ctors:
            ctx.touch(c)
            regs = [n for n in walk(c['body']) if n.get('k') == 'call' and n.get('name') == 'RegisterCallbacks']
            if len(regs) != 1 or render(regs[0]['args'][0], c) != 'this' or guards_at(c['body'], regs[0]):
                ctx.report(R, c, c['body'], r['name'] + ' registration', 'constructor does not register `this` exactly once, unconditionally')
    f = ctx.fn(CT + '::Skip(unsigned long)')
    ctx.inst(R)
    import re as _re
    def elem_names(g):
        """render with every range-for element variable called l:callbacks (its name is immaterial)"""
        t_ = render_stmt(g['body'], g, inline_locals=False)
        for n in walk(g['body']):
            if n.get('k') == 'rangefor' and isinstance(n.get('var'), dict):
                t_ = t_.replace('l:' + n['var']['name'], 'l:callbacks')
        return _re.sub(r'@\d+', '', t_)
    t = elem_names(f)
    m_ = _re.search(r'\(var (\S+) \$0\)', t)
    if m_:
        # the running minimum is a local initialised with the budget; its name is immaterial
        t = t.replace('l:' + m_.group(1), 'l:ticks').replace('(var %s ' % m_.group(1), '(var ticks ')
    RC = 'f:%s::registered_callbacks' % CT
    ok = '(var ticks $0)' in t and '(rangefor %s {(= l:ticks (call std::min<unsigned long> l:ticks (call %s::GetMaxSkip on l:callbacks )))})' % (RC, CB) in t \
        and '(rangefor %s {(call %s::Skip on l:callbacks l:ticks)})' % (RC, CB) in t and t.rstrip('}').endswith('(return l:ticks)') \
        and t.index('GetMaxSkip') < t.index('::Skip on')
    if not ok:
        ctx.report(R, f, f['body'], 'CoreTiming::Skip', 'fast-forward is not min over all horizons followed by Skip(ticks) on all, returning ticks: ' + t[:400])
    f = ctx.fn(CT + '::Tick()')
    ctx.inst(R)
    if elem_names(f) != '{(rangefor %s {(call %s::Tick on l:callbacks )})}' % (RC, CB):
        ctx.report(R, f, f['body'], 'CoreTiming::Tick', 'per-cycle tick does not visit every registered callback')
    f = ctx.fn(CT + '::RegisterCallbacks(Teakra::CoreTiming::Callbacks *)')
    ctx.inst(R)
    if 'push_back on %s' % RC not in render_stmt(f['body'], f):
        ctx.report(R, f, f['body'], 'CoreTiming::RegisterCallbacks', 'registration does not append to the callback list')


def guard_fields(f):
    """fields tested by the early-out guards of a function: top-level `if (c) return ...;` statements"""
    out = set()
    for st in f['body'].get('body', []):
        if st.get('k') == 'if' and st.get('else') is None:
            th = st.get('then') or {}
            ex = th.get('k') == 'return' or (th.get('k') == 'block' and th.get('body') and th['body'][-1].get('k') == 'return' and len(th['body']) == 1)
            whole = st is f['body']['body'][0] and len(f['body']['body']) == 1   # whole body under `if (enable) { ... }`
            if ex or whole:
                for n in walk(st['cond']):
                    p = field_path(n)
                    if p and n.get('k') == 'mem':
                        out.add(p[1])
                    if n.get('k') == 'call' and n.get('name') in ('empty',) and n.get('obj') is not None:
                        q = field_path(n['obj'])
                        if q:
                            out.add(q[1] + '.empty')
            else:
                break
        elif st.get('k') == 'assert':
            continue
        else:
            break
    return out


def s2_s3_agreement(ctx, impls):
    R2 = 'C06.S2'
    ctx.rule(R2, 'guard agreement: per timing component the state fields tested by the early-out guards of Tick and of Skip '
                 'coincide, and GetMaxSkip returns Infinity under (at least) the same fields', floor=2)
    R3 = 'C06.S3'
    ctx.rule(R3, 'effect agreement: the state a bulk step may change is a subset of what single ticks may change; Skip never '
                 'raises an interrupt (the horizon stops before it); audio frames emitted inside a skip come from the same '
                 'audio_callback(sample) call as in Tick', floor=2)
    F = ctx.F['functions']
    for r in impls:
        if not r['file'].startswith('src/'):
            continue
        cls = r['name']
        fs = {}
        for nm in ('Tick', 'Skip', 'GetMaxSkip'):
            c = [f for f in F.values() if f.get('cls') == cls and f['name'] == nm]
            ctx.require(len(c) == 1, '%s::%s not found' % (cls, nm))
            fs[nm] = c[0]
            ctx.touch(c[0])
        ctx.inst(R2)
        from .. import summ, boolform
        st_, ss_, sh_ = (summ.summary(ctx, fs[k], asserts='ignore') for k in ('Tick', 'Skip', 'GetMaxSkip'))
        ft, fsk = st_.frozen_condition(F), ss_.frozen_condition(F)
        inf = sh_.returns().get('18446744073709551615', boolform.F_)
        # Skip(0) may or may not be a no-op; compare for a non-zero amount
        if boolform.equivalent(ft, fsk, assume=boolform.A('$0')) is not True:
            ctx.report(R2, fs['Skip'], fs['Skip']['body'], cls + ' Tick/Skip guards',
                       'Tick does nothing when %s but Skip when %s' % (boolform.show(ft)[:200], boolform.show(fsk)[:200]))
        if boolform.implies(ft, inf) is not True:
            ctx.report(R2, fs['GetMaxSkip'], fs['GetMaxSkip']['body'], cls + ' horizon guards',
                       'GetMaxSkip does not report Infinity under every condition that freezes the component: frozen when %s, Infinity when %s'
                       % (boolform.show(ft)[:200], boolform.show(inf)[:200]))
        # horizon Infinity return is really Infinity
        ctx.inst(R3)

        def writes(f, depth=0, seen=None):
            seen = seen or set()
            out = set()
            if f['id'] in seen or depth > 3:
                return out
            seen.add(f['id'])
            for p, n, how in direct_writes(f['body']):
                out.add(p[1])
            for n in walk(f['body']):
                if n.get('k') == 'call' and n.get('fn') in F and F[n['fn']].get('cls') == cls:
                    out |= writes(F[n['fn']], depth + 1, seen)
            return out
        wt, ws = writes(fs['Tick']), writes(fs['Skip'])
        if not ws <= wt:
            ctx.report(R3, fs['Skip'], fs['Skip']['body'], cls + ' Skip effects', 'Skip may write %s which Tick never writes' % sorted(ws - wt))
        inv_s = [field_path(n['args'][0]) for n in walk(fs['Skip']['body']) if n.get('k') == 'opcall' and n.get('op') == '()' and n.get('args')]
        for p in inv_s:
            if p and p[1] == 'interrupt_handler':
                ctx.report(R3, fs['Skip'], fs['Skip']['body'], cls + ' Skip interrupt', 'a bulk step raises an interrupt (it would be delivered late)')
        # state updated together with a dequeue in Tick must also be updated with the dequeue in Skip
        from .c16 import block_after

        def pop_updates(f):
            out = None
            for n in walk(f['body']):
                if n.get('k') == 'call' and n.get('name') == 'pop' and n.get('obj') is not None and field_path(n['obj']):
                    ws_ = set()
                    for st in block_after(f, n):
                        if st.get('k') == 'assign':
                            p_ = field_path(st['lhs'])
                            if p_:
                                ws_.add(p_[1])
                    out = ws_ if out is None else (out & ws_)
            return out
        pt, ps_ = pop_updates(fs['Tick']), pop_updates(fs['Skip'])
        if pt is not None and ps_ is not None:
            ctx.oblig(R3)
            # the horizon stops before the frame that empties the queue, so the empty flag cannot change in Skip
            missing = {x for x in pt if 'empty' not in x} - ps_
            if missing:
                ctx.report(R3, fs['Skip'], fs['Skip']['body'], cls + ' Skip dequeue state',
                           'Tick updates %s together with each dequeue, Skip does not (the state after a fast-forward differs)' % sorted(missing))
        inv_t = {p[1] for p in [field_path(n['args'][0]) for n in walk(fs['Tick']['body']) if n.get('k') == 'opcall' and n.get('op') == '()' and n.get('args')] if p}
        others = {p[1] for p in inv_s if p} - inv_t
        if others:
            ctx.report(R3, fs['Skip'], fs['Skip']['body'], cls + ' Skip outputs', 'Skip produces outputs Tick never produces: %s' % sorted(others))


def s4_mirror(ctx):
    # shared with C15.T4: the timer's MMIO mirror is refreshed on every path that changes the counter
    R = 'C06.S4'
    ctx.rule(R, 'derived-state pairing: every path of Timer::Tick / Skip / Restart / TickEvent that changes counter calls '
                'UpdateMMIO() afterwards (the MMIO mirror is observable right after a skip)', floor=8)
    cw = CaseWalker(ctx.F, 'Teakra::Timer')
    for s_ in ('Tick()', 'Skip(unsigned long)', 'Restart()', 'TickEvent()'):
        f = ctx.fn('Teakra::Timer::' + s_)
        for mv in range(4):
            for cz in (0, NZ):
                for p in cw.paths(f, {'pause': 0, 'count_mode': mv, 'counter': cz}):
                    ctx.inst(R)
                    lw = max([i for i, e in enumerate(p) if e[0] == 'assign' and e[4] == 'counter'] + [-1])
                    lu = max([i for i, e in enumerate(p) if e[0] in ('call', 'call*') and e[1] == 'UpdateMMIO'] + [-1])
                    if lw >= 0 and lu < lw:
                        ctx.report(R, f, f['body'], 'Timer::%s mirror' % s_.split('(')[0], 'a path changes counter without UpdateMMIO() afterwards')


def s5_loop(ctx, RL):
    R = 'C06.S5'
    ctx.rule(R, 'fetch-loop shape: idle is cleared at entry of Run and in both interrupt entry sequences; the only statement that '
                'sets it is the taken self-branch of brr; in the idle stage the skipped amount is added to the cycle counter and '
                'the extra core_timing.Tick() is guarded by the remaining budget and precedes the fetch; every iteration ends '
                'with exactly one core_timing.Tick() after the interrupt stage', floor=6)
    f, r = RL.f, RL.r
    RL.need('idle', 'fetch', 'interrupt', 'tick')
    IDLE = 'f:Teakra::Interpreter::idle'
    ctx.inst(R)
    if '(= %s 0)' % IDLE not in [r.s(s) for s in RL.prologue]:
        ctx.report(R, f, f['body'], 'Run entry', 'idle is not cleared when Run is entered (a stale idle state would fast-forward a new slice)')
    # interrupt entries clear idle
    jumps = [n for n in walk(RL.stage['interrupt']) if n.get('k') == 'assign' and r.r(n['lhs']) == REGS + 'pc)']
    for j in jumps:
        ctx.inst(R)
        blk = None
        for x, parents in walk_parents(RL.stage['interrupt']):
            if x is j:
                blk = [p for p in parents if p.get('k') == 'block'][-1]
        txt = [r.s(s) for s in blk['body']] if blk else []
        if '(= %s 0)' % IDLE not in txt:
            kind = 'vectored' if 'vinterrupt_address' in r.r(j['rhs']) else 'fixed-vector'
            ctx.report(R, f, j, 'interrupt entry idle (%s)' % kind, 'the %s interrupt entry does not leave the idle state: the handler would be fast-forwarded' % kind)
    # writers of idle
    for fid, g in ctx.F['functions'].items():
        if g.get('cls') != 'Teakra::Interpreter':
            continue
        for p, n, how in direct_writes(g.get('body')):
            if p[1] != 'idle' or p[0] != 'Teakra::Interpreter':
                continue
            ctx.inst(R)
            ctx.touch(g)
            v = const_value(n.get('rhs')) if n.get('k') == 'assign' else None
            if v == 1:
                rg = Renderer(g)
                gs = {(rg.r(c), pol) for c, pol, s in guards_at(g['body'], n)}
                ok = g['name'] == 'brr' and any(c in ('(== (call RelAddr7::Relative32 on $0 ) 4294967295)', '(== 4294967295 (call RelAddr7::Relative32 on $0 ))') and pol for c, pol in gs) \
                    and any('ConditionPass' in c and pol for c, pol in gs)
                if not ok:
                    ctx.report(R, g, n, 'idle = true in ' + g['name'], 'idle is entered somewhere other than the taken self-branch (brr -1): guards %s' % sorted(gs))
            elif v == 0:
                if g['name'] not in ('Run', 'Reset'):
                    ctx.report(R, g, n, 'idle = false in ' + g['name'], 'idle cleared outside Run / Reset')
            else:
                ctx.report(R, g, n, 'idle write in ' + g['name'], 'idle assigned a non-constant')
    # idle stage
    st = RL.stage['idle']
    ctx.inst(R)
    t = r.s(st)
    loopvar = [v['name'] for v in walk(RL.loop.get('init')) if v.get('k') == 'var']
    lv = 'l:' + loopvar[0] if loopvar else '?'
    want_skip = '(var skipped (call %s::Skip on f:Teakra::Interpreter::core_timing (sum $0 | 1 %s)))' % (CT, lv)    # cycles - i - 1, linear form
    sk = [v['name'] for v in walk(st) if v.get('k') == 'var']
    ws = want_skip.replace('skipped', sk[0]) if sk else want_skip
    ok = ws in t and '(+= %s l:%s)' % (lv, sk[0] if sk else '?') in t \
        and '(if (< %s (- $0 1)) {(++ %s) (call %s::Tick on f:Teakra::Interpreter::core_timing )})' % (lv, lv, CT) in t
    if not ok:
        ctx.report(R, f, st, 'idle stage', 'idle fast-forward is not Skip(cycles - i - 1); i += skipped; if (i < cycles - 1) { ++i; Tick(); }: ' + t[:400])
    if RL.index('idle') > RL.index('fetch'):
        ctx.report(R, f, st, 'idle stage order', 'the fast-forward does not precede the fetch')
    # exactly one Tick per iteration at the end
    ticks = [i for i, nme in enumerate(RL.order) if nme.startswith('tick')]
    ctx.inst(R)
    if ticks != [len(RL.order) - 1] or RL.index('interrupt') != len(RL.order) - 2:
        ctx.report(R, f, RL.loop, 'per-cycle tick', 'each iteration does not end with interrupt stage followed by exactly one core_timing.Tick(): %s' % RL.order)
    n_tick = sum(1 for n in walk(RL.loop) if n.get('k') == 'call' and n.get('name') == 'Tick' and n.get('cls') == CT)
    if n_tick != 2:
        ctx.report(R, f, RL.loop, 'tick count', 'the cycle loop contains %d core_timing.Tick() calls, expected the idle one and the per-cycle one' % n_tick)
    # loop bound
    ctx.inst(R)
    if r.r(RL.loop.get('cond')) != '(< %s $0)' % lv or r.r(RL.loop.get('inc')) not in ('(++ %s)' % lv, '(post++ %s)' % lv):
        ctx.report(R, f, RL.loop, 'cycle loop', 'the cycle loop is not for (i = 0; i < cycles; ++i)')
    # Processor::Run / Teakra::Run forward the budget
    g = ctx.fn('Teakra::Processor::Run(unsigned int)')
    ctx.inst(R)
    if 'Teakra::Interpreter::Run on (. (-> f:Teakra::Processor::impl) Teakra::Processor::Impl::interpreter) $0)' not in render_stmt(g['body'], g):
        ctx.report(R, g, g['body'], 'Processor::Run', 'cycle budget is not forwarded unchanged')


def run(ctx):
    RL = RunLoop(ctx.F)
    ctx.touch(RL.f)
    impls = implementers(ctx)
    s1_complete(ctx, impls)
    s2_s3_agreement(ctx, impls)
    s4_mirror(ctx)
    s5_loop(ctx, RL)
    ctx.sample({'component': 'Teakra::Timer', 'Tick guards': ['pause', 'count_mode'], 'Skip guards': ['pause', 'count_mode']})
    ctx.assumptions += ['trace equivalence over unbounded histories and the arithmetic of horizons are not decided (model-checking / differential territory)']
