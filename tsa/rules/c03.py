"""C03 - accumulator add/subtract/compare/logic results, flags and saturation (structural parts)."""
import json
import os

from ..facts import AnalysisBroken
from ..astq import walk, direct_writes, field_path, unwrap_casts, const_value
from ..cases import CaseWalker
from ..norm import render, render_stmt, Renderer, short_fn
from ..sib import switch_arms

I = 'Teakra::Interpreter::'
RS = 'Teakra::RegisterState'
FLAGS = {'fz', 'fm', 'fe', 'fn', 'fc0', 'fc1', 'fv', 'fvl'}
TBL = os.path.join(os.path.dirname(os.path.dirname(os.path.abspath(__file__))), 'tables', 'c03_family.json')


def flat_events(paths):
    """all events of all paths, including the alternatives of summarised callee paths"""
    out = []

    def rec(ev):
        for e in ev:
            if e[0] == 'call*':
                for alt in e[2]:
                    rec(alt)
                out.append(('call', e[1], ()))
            else:
                out.append(e)
    for p in paths:
        rec(p)
    return out


def interp(ctx, name, arity=None, ptypes=None):
    out = []
    for f in ctx.F['functions'].values():
        if f.get('cls') == 'Teakra::Interpreter' and f['name'] == name and not f.get('lambda'):
            if arity is not None and len(f['params']) != arity:
                continue
            if ptypes is not None and [p['t'] for p in f['params']][:len(ptypes)] != ptypes:
                continue
            out.append(f)
            ctx.touch(f)
    return out


def run(ctx):
    T = json.load(open(TBL))
    A1, A2, A3, A4 = ('C03.A%d' % i for i in range(1, 5))
    ctx.rule(A1, 'compare forms change flags only: with the operation fixed to a compare / test kind the may-write set on the '
                 'register state is inside {fz, fm, fe, fn, fc0, fc1, fv, fvl} plus the post-modified address register, no '
                 'accumulator writer is reached and no data write happens', floor=12)
    ctx.rule(A2, 'single saturating writer: arithmetic operations write an accumulator only through SatAndSetAccAndFlag, which '
                 'computes the flags from the unsaturated value before saturating; every other accumulator writer is a listed '
                 'bitwise / exchange form', floor=60)
    ctx.rule(A3, 'operand extension table (T-rule): ExtendOperandForAlm and the accumulator arms of RegFromBus16 extend 16-bit '
                 'operands as the operation defines (sign-extend, high half, zero-extend)', floor=6)
    ctx.rule(A4, 'flag writers: fe / fn are computed only in SetAccFlag; the limit flag flm is set only by SaturateAcc and the '
                 'shifter and never cleared by an instruction handler', floor=4)
    F = ctx.F['functions']
    cw = CaseWalker(ctx.F, 'Teakra::Interpreter', max_paths=200)
    almop = {e['name']: e['v'] for e in ctx.F['enums']['AlmOp']['enumerators']}
    albop = {e['name']: e['v'] for e in ctx.F['enums']['AlbOp']['enumerators']}
    modaop = {e['name']: e['v'] for e in ctx.F['enums']['ModaOp']['enumerators']}
    ACCW = ('SetAcc', 'SetAccAndFlag', 'SatAndSetAccAndFlag')

    def summary(f, case):
        ev = flat_events(cw.paths(f, case))
        writes = {e[4] for e in ev if e[0] == 'assign'}
        calls = {e[1] for e in ev if e[0] == 'call'}
        return writes, calls

    def flags_only(f, case, inst, allow=()):
        ctx.inst(A1)
        w, c = summary(f, case)
        bad = {x for x in w if x not in FLAGS and x not in allow and x not in ('r',)}
        if bad:
            ctx.report(A1, f, f['body'], inst, 'a compare/test form writes %s besides the flags' % sorted(bad))
        accw = [x for x in c if x in ACCW]
        if accw:
            ctx.report(A1, f, f['body'], inst + ' acc', 'a compare/test form stores a result through %s' % sorted(accw))
        if any(x.endswith('DataWrite') or x in ('StoreToMemory',) for x in c):
            ctx.report(A1, f, f['body'], inst + ' memory', 'a compare/test form writes data memory')
    ag = ctx.fn(I + 'AlmGeneric(AlmOp,unsigned long,Ax)')
    for op in T['alm_flags_only']:
        flags_only(ag, {'$op': almop[op]}, 'AlmGeneric ' + op)
    for nm in ('cmp', 'cmp_b0_b1', 'cmp_b1_b0', 'cmp_p1_to', 'cmpu', 'tstb', 'tstb_r6', 'tst0', 'tst1'):
        for f in interp(ctx, nm):
            flags_only(f, {}, '%s/%d' % (nm, len(f['params'])))
    t4 = [f for f in interp(ctx, 'tst4b') if len(f['params']) == 2]
    for f in t4:
        flags_only(f, {}, 'tst4b/2')
    for f in interp(ctx, 'alb') + interp(ctx, 'alb_r6'):
        for op in ('Tst0', 'Tst1', 'Cmpv'):
            flags_only(f, {'$op.name': albop[op]}, '%s/%d %s' % (f['name'], len(f['params']), op), allow=())
    # ---- A2
    _have = {f['name'] for f in F.values() if f.get('cls') == 'Teakra::Interpreter'}
    _gone = sorted(x for x in T['plain_writers'] if x not in _have)
    plain = set(T['plain_writers'])
    for x in list(_gone):
        # a shared helper that was inlined into the handlers that used it: those handlers are the plain writers now
        if x in T.get('helper_callers', {}) and all(c in _have for c in T['helper_callers'][x]):
            plain |= set(T['helper_callers'][x])
            _gone.remove(x)
    ctx.require(not _gone, 'listed plain accumulator writers vanished (inlined into their callers?): %s' % _gone)
    for op in T['alm_saturating'] + T['alm_plain'] + T['alm_no_acc'] + T['alm_flags_only']:
        ctx.inst(A2)
        w, c = summary(ag, {'$op': almop[op]})
        used = {x for x in c if x in ('SetAccAndFlag', 'SatAndSetAccAndFlag')}
        # SatAndSetAccAndFlag itself reaches SetAcc; the inlined summary contains the callee events, so look at top-level callers only
        top = set()
        for p in cw.paths(ag, {'$op': almop[op]}):
            for e in p:
                if e[0] in ('call', 'call*') and e[1] in ACCW:
                    top.add(e[1])
                    break_ = True
        # the first accumulator writer reached on each path decides the family
        firsts = set()
        for p in cw.paths(ag, {'$op': almop[op]}):
            fst = [e[1] for e in p if e[0] in ('call', 'call*') and e[1] in ACCW]
            if fst:
                firsts.add(fst[0])
        want = {'SatAndSetAccAndFlag'} if op in T['alm_saturating'] else ({'SetAccAndFlag'} if op in T['alm_plain'] else set())
        if firsts != want:
            ctx.report(A2, ag, ag['body'], 'AlmGeneric ' + op, 'operation %s writes the accumulator through %s, expected %s' % (op, sorted(firsts), sorted(want)))
    moda = ctx.fn(I + 'Moda(ModaOp,RegName,EnumAllOperand<CondValue>)')
    for op in T['moda_saturating'] + T['moda_plain'] + T['moda_shift']:
        ctx.inst(A2)
        firsts = set()
        for p in cw.paths(moda, {'$op': modaop[op]}):
            fst = [e[1] for e in p if e[0] in ('call', 'call*') and e[1] in ACCW + ('ShiftBus40',)]
            if fst:
                firsts.add(fst[0])
        want = {'SatAndSetAccAndFlag'} if op in T['moda_saturating'] else ({'SetAccAndFlag'} if op in T['moda_plain'] else {'ShiftBus40'})
        if firsts != want:
            ctx.report(A2, moda, moda['body'], 'Moda ' + op, 'operation %s writes the accumulator through %s, expected %s' % (op, sorted(firsts), sorted(want)))
    # who may use the non-saturating writers
    n_w = 0
    for fid, f in F.items():
        if f.get('cls') != 'Teakra::Interpreter' or f.get('lambda'):
            continue
        kinds = set()
        for n in walk(f['body']):
            if n.get('k') == 'call' and n.get('name') in ACCW and n.get('cls') == 'Teakra::Interpreter':
                kinds.add(n['name'])
        for p, n, how in direct_writes(f['body']):
            if p[0] == RS and p[1] in ('a', 'b'):
                kinds.add('direct')
        if not kinds:
            continue
        n_w += 1
        ctx.inst(A2)
        ctx.touch(f)
        if kinds - {'SatAndSetAccAndFlag'} and f['name'] not in plain:
            ctx.report(A2, f, f['body'], '%s/%d' % (f['name'], len(f['params'])),
                       'accumulator written through %s by a function that is not a listed bitwise / exchange form '
                       '(arithmetic results must go through SatAndSetAccAndFlag)' % sorted(kinds - {'SatAndSetAccAndFlag'}))
    ctx.require(n_w >= 80, 'accumulator writers found: %d' % n_w)
    f = ctx.fn(I + 'SatAndSetAccAndFlag(RegName,unsigned long)')
    ctx.inst(A2)
    from .. import summ, boolform
    SATA = boolform.A('(. f:Teakra::Interpreter::regs %s::sata)' % RS)
    FLAG = '(call Teakra::Interpreter::SetAccFlag on this $1)'
    SATV = '(call Teakra::Interpreter::SaturateAcc on this $1)'
    okp = True
    seqs = summ.summary(ctx, f, asserts='ignore').effect_sequences(lambda e: e[0] == 'call')
    for cond, seq, p_ in seqs:
        names = [e[1] for e in seq]
        sat_off = boolform.implies(cond, SATA) is True
        sat_on = boolform.implies(cond, boolform.neg(SATA)) is True
        stored = '(call Teakra::Interpreter::SetAcc on this $0 %s)' % (SATV if sat_on else '$1')
        if not (sat_on or sat_off) or not names or names[0] != FLAG or names[-1] != stored \
                or [n_ for n_ in names[1:-1] if n_ != SATV] or (sat_on and SATV not in names):
            okp = False
    if not okp or not seqs:
        ctx.report(A2, f, f['body'], 'SatAndSetAccAndFlag', 'flags are not derived from the unsaturated value before saturation-on-write: '
                   + str([(boolform.show(c)[-30:], [e[1][-50:] for e in sq]) for c, sq, p_ in seqs])[:300])
    # saturation on read: both read helpers (with and without the limit flag) saturate exactly when MOD0.SAT is clear
    # (the write helper above uses MOD0.SATA): siblings must test the same mode bit
    SAT = boolform.A('(. f:Teakra::Interpreter::regs %s::sat)' % RS)
    for nm, satfn in (('GetAndSatAcc(RegName)', 'SaturateAcc'), ('GetAndSatAccNoFlag(RegName) const', 'SaturateAccNoFlag')):
        g = ctx.fn(I + nm)
        ctx.inst(A2)
        rets = summ.summary(ctx, g, asserts='ignore').returns()
        GA = '(call Teakra::Interpreter::GetAcc on this $0)'
        want = {'(call Teakra::Interpreter::%s on this %s)' % (satfn, GA): boolform.neg(SAT), GA: SAT}
        if set(rets) != set(want) or any(boolform.equivalent(rets[k], want[k]) is not True for k in want):
            ctx.report(A2, g, g['body'], nm.split('(')[0], 'saturation on read is not `sat == 0 ? %s(acc) : acc`: %s'
                       % (satfn, {k[-60:]: boolform.show(v)[-60:] for k, v in rets.items()}))
    f = ctx.fn(I + 'SetAccAndFlag(RegName,unsigned long)')
    ctx.inst(A2)
    if render_stmt(f['body'], f) != '{(call Teakra::Interpreter::SetAccFlag on this $1) (call Teakra::Interpreter::SetAcc on this $0 $1)}':
        ctx.report(A2, f, f['body'], 'SetAccAndFlag', 'is not SetAccFlag(value); SetAcc(name, value)')
    # ---- A3
    ex = ctx.fn(I + 'ExtendOperandForAlm(AlmOp,unsigned short)')
    from .. import summ, boolform
    rets = summ.summary(ctx, ex, asserts='ignore').returns()
    KIND = {'(call SignExtend<16U, unsigned long> $1)': 'sext16', '(call SignExtend<32U, unsigned long> (<< $1 16))': 'high', '$1': 'zext'}
    WANT = {'Cmp': 'sext16', 'Sub': 'sext16', 'Add': 'sext16', 'Addh': 'high', 'Subh': 'high'}
    for op, v in almop.items():
        if op == 'Reserved':
            continue
        ctx.inst(A3)
        got = []
        for val, cond in rets.items():
            t = boolform.eval_selector(cond, '$0', v, almop)
            if t is None:
                raise AnalysisBroken('C03: ExtendOperandForAlm selects on something other than the operation: ' + boolform.show(cond)[:160])
            if t:
                got.append(KIND.get(val, val))
        want = WANT.get(op, 'zext')
        if got != [want]:
            ctx.report(A3, ex, ex['body'], 'ExtendOperandForAlm ' + op, '16-bit operand of %s is extended as %s, the operation defines %s' % (op, got, want))
    rf = ctx.fn(I + 'RegFromBus16(RegName,unsigned short)')
    rr = Renderer(rf)
    rn = {e['name']: e['v'] for e in ctx.F['enums']['RegName']['enumerators']}
    sw = [n for n in walk(rf['body']) if n.get('k') == 'switch'][0]
    got = {}
    for arm in switch_arms(sw):
        calls = [rr.r(n['args'][1]) for st in arm['stmts'] for n in walk(st) if n.get('k') == 'call' and n.get('name') == 'SatAndSetAccAndFlag']
        for l in arm['labels']:
            got[l] = calls
    for nm, want in (('a0', ['(call SignExtend<16U, unsigned long> $1)']), ('a0l', ['$1']), ('a0h', ['(call SignExtend<32U, unsigned long> (<< $1 16))'])):
        for pre in ('a0', 'a1', 'b0', 'b1'):
            name = pre + nm[2:]
            ctx.inst(A3)
            if got.get(rn[name]) != want:
                ctx.report(A3, rf, sw, 'RegFromBus16 ' + name, 'bus value is placed in %s as %s, expected %s' % (name, got.get(rn[name]), want))
    # ---- A4
    for fid, f in F.items():
        if f.get('cls') != 'Teakra::Interpreter' or f.get('lambda'):
            continue
        for p, n, how in direct_writes(f['body']):
            if p[0] != RS:
                continue
            if p[1] in ('fe', 'fn'):
                ctx.inst(A4)
                ctx.touch(f)
                if f['name'] == 'SetAccFlag':
                    continue
                rr_ = Renderer(f)
                # restoring a value saved from the same field is allowed (tst4b keeps fe/fn across the shift)
                rhs = rr_.r(n.get('rhs'))
                if rhs == '(. f:Teakra::Interpreter::regs %s::%s)' % (RS, p[1]):
                    continue
                ctx.report(A4, f, n, '%s %s' % (f['name'], p[1]), 'extension / normalized flag computed outside SetAccFlag: ' + rhs[:80])
            if p[1] == 'flm':
                ctx.inst(A4)
                ctx.touch(f)
                v = const_value(n.get('rhs')) if n.get('k') == 'assign' else None
                if f['name'] not in ('SaturateAcc', 'ShiftBus40') or v != 1:
                    ctx.report(A4, f, n, '%s flm' % f['name'], 'limit flag written by %s with %s (only SaturateAcc / the shifter may set it, nothing clears it)' % (f['name'], v))
    # contradiction rule: a flag formula whose comparison can never be true (operand intervals disjoint) is dead
    from ..intervals import Intervals
    IV = Intervals(ctx.F, {})
    n_cmp = 0
    for fid, f in F.items():
        if f.get('cls') != 'Teakra::Interpreter' or f.get('lambda'):
            continue
        for p, n, how in direct_writes(f['body']):
            if p[0] != RS or p[1] not in FLAGS or n.get('k') != 'assign':
                continue
            rhs = unwrap_casts(n.get('rhs'))
            if not (isinstance(rhs, dict) and rhs.get('k') == 'bin' and rhs.get('op') in ('==', '!=')):
                continue
            n_cmp += 1
            ctx.oblig(A4)
            a, b = IV.iv(rhs['lhs'], f), IV.iv(rhs['rhs'], f)
            if a is not None and b is not None and (a[1] < b[0] or b[1] < a[0]):
                ctx.report(A4, f, n, '%s %s formula' % (f['name'], p[1]),
                           'the comparison that computes %s can never hold: left operand in %s, right operand in %s' % (p[1], a, b))
    ctx.require(n_cmp >= 10, 'flag comparisons found: %d' % n_cmp)
    saf = ctx.fn(I + 'SetAccFlag(unsigned long)')
    ctx.inst(A4)
    w = sorted(p[1] for p, n, how in direct_writes(saf['body']))
    if w != ['fe', 'fm', 'fn', 'fz']:
        ctx.report(A4, saf, saf['body'], 'SetAccFlag', 'SetAccFlag writes %s, expected fz fm fe fn' % w)
    ctx.sample({'operation': 'AlmGeneric Cmp', 'writes': ['fc0', 'fv', 'fvl', 'fz', 'fm', 'fe', 'fn'], 'accumulator writer': None})
    ctx.assumptions += ['exact 40-bit results, carry/overflow at bit 39, flag formulas and saturation bounds are numerical and are not decided']
