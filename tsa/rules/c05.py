"""C05 - assembly text and machine code correspond one-to-one (structural parts)."""
from .. import decode
from ..astq import walk, field_path, unwrap_casts, const_value
from ..guards import guards_at
from ..norm import render, render_stmt, Renderer, short_fn

DIS = 'Teakra::Disassembler::'
V = 'Teakra::Disassembler::Disassembler'
STR = 'std::basic_string<char, std::char_traits<char>, std::allocator<char>>'


def t1_c_binding(ctx):
    R = 'C05.T1'
    ctx.rule(R, 'C binding: every store into the caller buffer has an index below dstlen (loop bound dstlen-1 under dstlen != 0, '
                'no unsigned wrap), a NUL is stored right after the copied text on every path with dst && dstlen, the copied '
                'characters are those of Do(opcode, expansion) and the returned length is that string\'s length', floor=3)
    cands = [f for f in ctx.F['functions'].values() if f['name'] == 'Teakra_Disasm_Do']
    ctx.require(len(cands) == 1, 'Teakra_Disasm_Do not found')
    f = cands[0]
    ctx.touch(f)
    r = Renderer(f, inline_locals='pure')
    from .. import boolform
    FM = boolform.Former(f, renderer=r)
    params = [p['name'] for p in f['params']]
    ctx.require(len(params) == 4, 'Teakra_Disasm_Do signature changed')
    dst, dstlen = '$0', '$1'
    # text source
    srcs = [n for n in walk(f['body']) if n.get('k') == 'var' and 'init' in n and STR in n.get('t', '')]
    ctx.inst(R)
    text = None
    for v in srcs:
        if r.r(v['init']).startswith('(call Teakra::Disassembler::Do $2 $3'):
            text = v['name']
    if text is None:
        ctx.report(R, f, f['body'], 'text source', 'the text is not Disassembler::Do(opcode, expansion)')
        return
    rets = [r.r(n['e']) for n in walk(f['body']) if n.get('k') == 'return']
    if not rets or set(rets) != {'(call %s::length on l:%s )' % (STR, text)}:
        ctx.report(R, f, f['body'], 'return value', 'does not return the length of the text: %s' % rets)
    stores = []
    for n in walk(f['body']):
        if n.get('k') == 'assign' and n.get('op') == '=':
            l = unwrap_casts(n['lhs'])
            if l.get('k') == 'index' and r.r(l['base']) == dst:
                stores.append((n, l))
    ctx.require(len(stores) >= 2, 'stores into the caller buffer not found')
    loops = [n for n in walk(f['body']) if n.get('k') == 'for']
    nul_ok = False
    for n, l in stores:
        ctx.inst(R)
        idx = r.r(l['idx'])
        pc = boolform.path_condition(f['body'], n, FM)
        inst = 'dst[%s]' % idx
        if boolform.implies(pc, boolform.A(dst)) is not True or boolform.implies(pc, boolform.A(dstlen)) is not True:
            ctx.report(R, f, n, inst, 'store into the caller buffer is not guarded by dst && dstlen: reached when %s' % boolform.show(pc)[:200])
            continue
        in_loop = [lp for lp in loops if any(x is n for x in walk(lp.get('body')))]
        if in_loop:
            lp = in_loop[0]
            conds = []

            def split(c):
                c = unwrap_casts(c)
                if c.get('k') == 'bin' and c.get('op') == '&&':
                    split(c['lhs'])
                    split(c['rhs'])
                else:
                    conds.append(r.r(c))
            split(lp.get('cond'))
            var = idx
            inc = r.r(lp.get('inc'))
            if not (var.startswith('l:') and '(< %s (- %s 1))' % (var, dstlen) in conds and inc in ('(++ %s)' % var, '(post++ %s)' % var)):
                ctx.report(R, f, n, inst, 'copy loop is not bounded by i < dstlen-1 with unit increment: cond %s inc %s' % (conds, inc))
            if '(< %s (call %s::length on l:%s ))' % (var, STR, text) not in conds:
                ctx.report(R, f, n, inst, 'copy loop is not bounded by the text length')
            if r.r(n['rhs']) != '([] l:%s %s)' % (text, var):
                ctx.report(R, f, n, inst, 'copied character is not text[i]: ' + r.r(n['rhs']))
            # loop variable starts at 0 and is only incremented by the loop
            decl = [v for v in walk(f['body']) if v.get('k') == 'var' and 'l:' + v['name'] == var]
            if not decl or const_value(decl[0].get('init')) != 0:
                ctx.report(R, f, n, inst, 'copy index does not start at 0')
            others = [x for x in walk(f['body']) if x.get('k') in ('assign', 'un') and x is not lp.get('inc')
                      and r.r(x.get('lhs') if x.get('k') == 'assign' else x.get('e')) == var and (x.get('k') == 'assign' or x.get('op') in ('++', '--', 'post++', 'post--'))]
            if others:
                ctx.report(R, f, others[0], inst, 'copy index is modified outside the loop increment')
        else:
            # terminator: NUL at dst[i] where i is the copy index after the loop (i <= dstlen-1 and i <= len)
            if const_value(n['rhs']) != 0:
                ctx.report(R, f, n, inst, 'store outside the copy loop is not the terminating NUL')
                continue
            loopvars = []
            for lp in loops:
                c = r.r(lp.get('cond'))
                for v in walk(f['body']):
                    if v.get('k') == 'var' and '(< l:%s (- %s 1))' % (v['name'], dstlen) in c:
                        loopvars.append('l:' + v['name'])
            if idx in loopvars:
                # must come after the loop in the same block
                nul_ok = True
            elif idx == '(- %s 1)' % dstlen:
                ctx.report(R, f, n, inst, 'NUL is stored at dst[dstlen-1] only: the bytes between the end of the text and the end of a '
                                          'longer buffer stay uninitialised, so the C string is not the token text')
            else:
                ctx.report(R, f, n, inst, 'terminator index is neither the copy index nor provably below dstlen')
    ctx.inst(R)
    if not nul_ok:
        ctx.report(R, f, f['body'], 'NUL termination', 'no NUL store at the end of the copied text on the dst && dstlen path')


def t2_chain(ctx):
    R = 'C05.T2'
    ctx.rule(R, 'text forwarding: Do joins exactly the tokens of GetTokenList(opcode, expansion, ar_arp); GetTokenList dispatches '
                'Decode<Disassembler>(opcode).call(dsm, opcode, expansion) on a visitor configured with the caller\'s ar/arp', floor=2)
    f = ctx.fn(DIS + 'GetTokenList(unsigned short,unsigned short,std::optional<Teakra::Disassembler::ArArpSettings>)')
    ctx.inst(R)
    r0 = Renderer(f, inline_locals=False)
    t = r0.s(f['body'])
    vis = [v['name'] for v in walk(f['body']) if v.get('k') == 'var' and v.get('t') == V]
    DEC = '(call Decode<%s> $0)' % V
    dec = [v['name'] for v in walk(f['body']) if v.get('k') == 'var' and 'init' in v and r0.r(v.get('init')) == DEC]
    # the decoder may be a named local or the Decode<V>(opcode) call itself
    objs = ['l:%s' % d for d in dec] + [DEC]
    ok = len(vis) == 1 and '(call %s::SetArArp on l:%s $2)' % (V, vis[0]) in t \
        and any('(call Matcher<%s>::call on %s l:%s $0 $1)' % (V, o, vis[0]) in t for o in objs) \
        and t.index('SetArArp') < t.index('Matcher<%s>::call' % V)
    if not ok:
        ctx.report(R, f, f['body'], 'Disassembler::GetTokenList', 'token list is not Decode<Disassembler>(opcode).call(dsm, opcode, expansion) with SetArArp(ar_arp): ' + t[:300])
    f = ctx.fn(DIS + 'Do(unsigned short,unsigned short,std::optional<Teakra::Disassembler::ArArpSettings>)')
    ctx.inst(R)
    r = Renderer(f, inline_locals=False)
    t = r.s(f['body'])
    ok = '(var v (call Teakra::Disassembler::GetTokenList $0 $1 $2))'.replace('var v', 'var ' + _first_var(f)) in t
    if not ok:
        ctx.report(R, f, f['body'], 'Disassembler::Do', 'joined text is not built from GetTokenList(opcode, expansion, ar_arp)')
    others = [n for n in walk(f['body']) if n.get('k') == 'call' and short_fn(n.get('fn', '')).startswith('Teakra::') and short_fn(n['fn']) != 'Teakra::Disassembler::GetTokenList']
    if others:
        ctx.report(R, f, others[0], 'Disassembler::Do', 'joined text consults %s besides the token list' % short_fn(others[0]['fn']))


def _first_var(f):
    for n in walk(f['body']):
        if n.get('k') == 'var':
            return n['name']
    return '?'


def t3_parser(ctx, R='C05.T3'):
    """shared with C02.R2: the assembler is generated from the disassembler for every first word"""
    if R not in ctx.rules:
        ctx.rule(R, 'assembler generation: GenerateParser visits every first word 0..0xFFFF, inserts GetTokenList(o) / '
                    'NeedExpansion(o) of that word, keeps the first opcode per text, skips only [ERROR] renderings and later '
                    'duplicates (which must be bit-supersets), and Parse returns only stored opcode / expansion', floor=6)
    f = ctx.fn('Teakra::GenerateParser()')
    r = Renderer(f, inline_locals=False)
    loops = [n for n in f['body'].get('body', []) if n.get('k') == 'for']
    ctx.inst(R)
    if len(loops) != 1:
        ctx.report(R, f, f['body'], 'GenerateParser loop', 'expected one loop over all opcodes')
        return
    lp = loops[0]
    var = None
    for v in walk(lp.get('init')):
        if v.get('k') == 'var':
            var = v
    init_ok = var is not None and const_value(var.get('init')) == 0
    cond = r.r(lp.get('cond'))
    inc = r.r(lp.get('inc'))
    vn = 'l:' + var['name'] if var else '?'
    from ..absint import type_info
    ti = type_info(var.get('t')) if var else None
    from ..loops import loop_range
    rng = loop_range(f, lp)
    if not (init_ok and rng and rng[1:] == (0, 65536, 1) and ti and ti[0] > 16):
        ctx.report(R, f, lp, 'GenerateParser range', 'opcode loop is not `for (wider-than-16-bit i = 0; i < 0x10000; ++i)`: init %s cond %s inc %s type %s'
                   % (r.s(lp.get('init')), cond, inc, var.get('t') if var else None))
    # the loop body as guarded effects (E11): what is stored in the node reached by the token walk, and when
    from .. import summ, boolform
    r2 = Renderer(f, inline_locals='pure')
    ctx.inst(R)
    toks = [v for v in walk(lp['body']) if v.get('k') == 'var' and isinstance(v.get('init'), dict)
            and r2.r(v['init']).startswith('(call Teakra::Disassembler::GetTokenList %s 0 ' % vn)]
    if len(toks) != 1:
        ctx.report(R, f, lp, 'GenerateParser sources', 'tokens / expansion flag are not GetTokenList(o) / NeedExpansion(o) of the loop opcode')
        return
    tok_var = 'l:' + toks[0]['name']
    SM = summ.summary_of(ctx, f, [lp['body']], asserts='ignore')
    eff = SM.effect_conditions(lambda e: e[0] == 'write' and 'Teakra::ParserImpl::Node::' in e[1])
    stores = {e[1].rsplit('::', 1)[-1].rstrip(')'): (e, c) for e, c in eff.items()}
    ctx.inst(R)
    if len(eff) != 3 or set(stores) != {'end', 'opcode', 'expansion'} or len({e[1].rsplit(' ', 1)[0] for e in eff}) != 1 \
            or stores['end'][0][2:] != ('=', '1') or stores['opcode'][0][2:] != ('=', vn) \
            or stores['expansion'][0][2:] != ('=', '(call Teakra::Disassembler::NeedExpansion %s)' % vn):
        ctx.report(R, f, lp, 'GenerateParser stores', 'the node does not store end / opcode = o / expansion = NeedExpansion(o): %s' % sorted(eff)[:3])
        return
    # when: not an [ERROR] rendering, and the node has no opcode yet (first opcode per text wins) - nothing else
    ctx.inst(R)
    err_lams = []
    for x in walk(lp['body']):
        if x.get('k') == 'lambda':
            for fid, g in ctx.F['functions'].items():
                if fid.startswith(x['fn'].split('<lambda@')[0]) and ('<lambda@' + x['fn'].split('<lambda@')[1].split('>')[0]) in fid and g.get('body'):
                    if '"[ERROR]"' in render_stmt(g['body'], g):
                        err_lams.append(x)
    node = stores['end'][0][1].rsplit(' ', 1)[0]
    END = node + ' Teakra::ParserImpl::Node::end)'
    for nm, (e, c) in sorted(stores.items()):
        lits = boolform.literals(c)
        okc = lits is not None and len(lits) == 2 and (END, False) in lits
        if okc:
            other = [a for a, pol in lits if a != END]
            okc = len(other) == 1 and (other[0], False) in lits and 'std::any_of' in other[0] \
                and (tok_var in other[0] or '(call Teakra::Disassembler::GetTokenList %s 0 ' % vn in other[0]) and bool(err_lams)
        if not okc:
            ctx.report(R, f, lp, 'GenerateParser skips', 'node.%s is stored when %s; expected exactly: not an [ERROR] rendering and the text has no opcode yet'
                       % (nm, boolform.show(c)[:200]))
            break
    # a later opcode with the same text is dropped only after checking that it adds nothing but (unused) bits
    ctx.inst(R)
    asserts = [r2.s(x) for x in walk(lp['body']) if x.get('k') == 'assert']
    if not any('(assert (== (& (. ' in t and '(~ %s)) 0))' % vn in t for t in asserts):
        ctx.report(R, f, lp, 'GenerateParser duplicate guard', 'a later opcode with the same text is skipped without checking that it only adds (unused) bits: ' + str(asserts)[:200])
    # Parse
    pf = [g for k, g in ctx.F['functions'].items() if k.startswith('Teakra::ParserImpl::Parse(')]
    ctx.require(len(pf) == 1, 'ParserImpl::Parse not found')
    g = pf[0]
    ctx.touch(g)
    ctx.inst(R)
    rets = [render(n['e'], g, inline_locals=False) for n in walk(g['body']) if n.get('k') == 'return']
    import re as _re
    pat = _re.compile(r'^\{\(\?: \(\. l:(\S+) Teakra::ParserImpl::Node::expansion\) Teakra::Parser::Opcode::ValidWithExpansion '
                      r'Teakra::Parser::Opcode::Valid\) \(\. l:(\S+) Teakra::ParserImpl::Node::opcode\)\}')
    good = [x for x in rets if (lambda m: m and m.group(1) == m.group(2))(pat.match(x))]
    bad = [x for x in rets if not x.startswith('{Teakra::Parser::Opcode::Invalid') and x not in good]
    if not good and len(bad) == 2:
        # the same selection written as two guarded returns: ValidWithExpansion under node.expansion, Valid under !node.expansion
        from ..guards import guards_at
        pat2 = _re.compile(r'^\{Teakra::Parser::Opcode::(ValidWithExpansion|Valid) \(\. l:(\S+) Teakra::ParserImpl::Node::opcode\)\}')
        seen = {}
        for n in walk(g['body']):
            if n.get('k') != 'return':
                continue
            m = pat2.match(render(n['e'], g, inline_locals=False))
            if not m:
                continue
            gs = {(render(c, g, inline_locals=False), pol) for c, pol, src in guards_at(g['body'], n)}
            want_pol = m.group(1) == 'ValidWithExpansion'
            if ('(. l:%s Teakra::ParserImpl::Node::expansion)' % m.group(2), want_pol) in gs:
                seen[m.group(1)] = m.group(2)
        if set(seen) == {'ValidWithExpansion', 'Valid'} and len(set(seen.values())) == 1:
            good, bad = ['two guarded returns'], []
    if len(good) != 1 or bad:
        ctx.report(R, g, g['body'], 'ParserImpl::Parse', 'Parse returns something other than the stored opcode / expansion or Invalid: %s' % rets)


def d1_operands_printed(ctx):
    R = 'C05.D1'
    ctx.rule(R, 'every operand is printed: in every disassembler handler bound by the decode table each parameter is used in '
                'building the returned token vector', floor=300)
    t = decode.table(ctx.F, V)
    seen = set()
    for e in t:
        h = e['handler']
        if h in seen:
            continue
        seen.add(h)
        f = ctx.F['functions'].get(h)
        if f is None:
            continue
        ctx.touch(f)
        ctx.inst(R)
        used = {n['name'] for n in walk(f['body']) if n.get('k') == 'ref' and n.get('dk') == 'parm'}
        for p in f.get('params', []):
            if p['name'] and p['name'] not in used and not p['t'].startswith('Unused'):
                ctx.report(R, f, f['body'], '%s(%s)' % (short_fn(h).split('::')[-1], p['name']),
                           'operand `%s` (%s) of %s is never used: different operand values print the same text' % (p['name'], p['t'][:30], e['name']))


def run(ctx):
    t1_c_binding(ctx)
    t2_chain(ctx)
    t3_parser(ctx)
    d1_operands_printed(ctx)
    ctx.sample({'function': 'Teakra_Disasm_Do', 'stores': ['dst[i] = r[i] for i < dstlen-1 && i < len', 'dst[i] = 0']})
    ctx.assumptions += ['injectivity of rendering, the Parse round trip and the hwtest firmware byte comparison need the produced '
                        'strings / executing the assembler and are not decided (DESIGN.md C05)']
