"""Field-width invariants of RegisterState (C18.O3 / C20.W5).

PseudoRegister::Get ORs *unmasked* fields, so reading a status word back is
exact iff every field exposed by a slot of length L stays below 2^L.  The
invariant `F < 2^L` is assumed at reads and proved at every writer in the
library: assignments (interval of the right-hand side), bit-wise compound
assignments, swaps / copies within one width class (shadow banks),
increments under a dominating bound, in-class initialisers.
"""
from ..astq import walk, direct_writes, field_path, unwrap_casts, const_value, path_str
from ..facts import unit_kind, AnalysisBroken
from ..guards import guards_at
from ..intervals import Intervals
from ..norm import render, short_fn

RS = 'Teakra::RegisterState'


def declared_bits(W):
    bits = {}
    for w, d in W.items():
        for s in d['slots']:
            for (f, i) in s['targets']:
                if f == 'a.e':
                    continue
                bits.setdefault(f, s['len'])
    return bits


def is_library(f):
    if f['file'].startswith('include/'):
        return True
    return unit_kind(f.get('unit', f['file'])) == 'lib' and f['file'].startswith('src/') and f['file'].count('/') == 1 \
        and not f['file'].startswith('src/test')


def callers_index(F):
    idx = {}
    for fid, f in F['functions'].items():
        for n in walk(f.get('body')):
            if n.get('k') == 'call' and n.get('fn'):
                idx.setdefault(n['fn'], []).append((f, n))
    return idx


class WidthProver:
    def __init__(self, ctx, W, rid):
        self.ctx = ctx
        self.F = ctx.F
        self.rid = rid
        self.bits = declared_bits(W)
        self.fb = {(RS, f): (0, (1 << b) - 1) for f, b in self.bits.items()}
        self.classes = {}
        self.callers = None
        self.IV = None

    # width classes: fields linked by swap / Store / Restore / plain copies share one width
    def link_classes(self):
        parent = {}

        def find(x):
            parent.setdefault(x, x)
            while parent[x] != x:
                parent[x] = parent[parent[x]]
                x = parent[x]
            return x

        def union(a, b):
            ra, rb = find(a), find(b)
            if ra != rb:
                parent[ra] = rb
        links = []
        for fid, f in self.F['functions'].items():
            if not is_library(f):
                continue
            for n in walk(f.get('body')):
                if n.get('k') == 'call' and n.get('name') == 'swap' and str(n.get('fn', '')).startswith('std::swap'):
                    ps = [field_path(a) for a in n.get('args', [])]
                    if len(ps) == 2 and all(ps):
                        links.append(((ps[0][0], ps[0][1]), (ps[1][0], ps[1][1]), f, n))
                elif n.get('k') == 'assign' and n.get('op') == '=':
                    a = field_path(n.get('lhs'))
                    b = field_path(n.get('rhs'))
                    if a and b and isinstance(unwrap_casts(n.get('rhs')), dict) and \
                            unwrap_casts(n['rhs']).get('k') in ('mem', 'opcall', 'bin', 'index'):
                        # only whole-value copies F = G (no arithmetic)
                        r = unwrap_casts(n['rhs'])
                        if field_path(r) and (r.get('k') != 'bin' or r.get('op') in ('->*', '.*')):
                            links.append(((a[0], a[1]), (b[0], b[1]), f, n))
        for a, b, f, n in links:
            # only link when one side has a declared width (shadow of a status field)
            if a in self.fb or b in self.fb or find(a) in [find(x) for x in self.fb]:
                union(a, b)
        groups = {}
        for x in list(parent):
            groups.setdefault(find(x), set()).add(x)
        for g in groups.values():
            decl = {self.fb[x] for x in g if x in self.fb}
            if not decl:
                continue
            if len(decl) > 1:
                self.ctx.report(self.rid, ('include/teakra/impl/register.h', RS, 0), 0,
                                'width-class ' + ','.join(sorted(x[1] for x in g if x in self.fb)),
                                'fields of different architectural width are exchanged/copied: %s'
                                % sorted((x[1], self.fb[x][1]) for x in g if x in self.fb))
                continue
            b = decl.pop()
            for x in g:
                self.fb.setdefault(x, b)
        self.linked = {(a, b) for a, b, _, _ in links} | {(b, a) for a, b, _, _ in links}

    def param_bounds(self, f, depth=0):
        """join of argument intervals over all library call sites of f (None entries = unbounded)"""
        if self.callers is None:
            self.callers = callers_index(self.F)
        sites = self.callers.get(f['id'], [])
        if not sites:
            return {}
        res = {}
        for pi, p in enumerate(f.get('params', [])):
            cur = None
            first = True
            for (cf, cn) in sites:
                args = cn.get('args', [])
                if pi >= len(args):
                    cur = None
                    break
                penv = self.param_bounds(cf, depth + 1) if depth < 2 and self._uses_params(args[pi]) else {}
                iv = self.IV.iv(args[pi], cf, None, penv)
                if iv is None:
                    cur = None
                    break
                cur = iv if first else (min(cur[0], iv[0]), max(cur[1], iv[1]))
                first = False
            res[p['name']] = cur
        return res

    @staticmethod
    def _uses_params(e):
        return any(n.get('k') == 'ref' and n.get('dk') == 'parm' for n in walk(e))

    def prove(self):
        ctx, rid = self.ctx, self.rid
        self.link_classes()
        self.IV = Intervals(self.F, self.fb)
        n_writes = 0
        for fid, f in self.F['functions'].items():
            if not is_library(f):
                continue
            ws = direct_writes(f.get('body'))
            if not ws:
                continue
            penv = None
            for (p, n, how) in ws:
                key = (p[0], p[1])
                if key not in self.fb:
                    continue
                n_writes += 1
                ctx.touch(f)
                ctx.inst(rid)
                lo, hi = self.fb[key]
                inst = '%s %s' % (path_str(p).replace('Teakra::', ''), how)
                if n.get('k') == 'assign' and how == '=':
                    rhs = n['rhs']
                    # chained a = b = v: value of the inner assignment is v
                    iv = self.IV.iv(rhs, f)
                    if not (iv and iv[0] >= lo and iv[1] <= hi) and self._uses_params(rhs):
                        if penv is None:
                            penv = self.param_bounds(f)
                        iv = self.IV.iv(rhs, f, None, penv)
                    if not (iv and iv[0] >= lo and iv[1] <= hi):
                        ctx.report(rid, f, n, inst, 'value written to %s may exceed its %d-bit field (right-hand side in %s): %s'
                                   % (p[1], hi.bit_length(), iv, render(rhs, f)[:120]))
                elif how in ('|=', '^=', '&='):
                    rhs = n.get('rhs') if n.get('k') == 'assign' else (n.get('args') or [None, None])[1]
                    iv = self.IV.iv(rhs, f)
                    if how != '&=' and not (iv and iv[0] >= lo and iv[1] <= hi):
                        ctx.report(rid, f, n, inst, 'bits outside the %d-bit field %s may be set (operand in %s)' % (hi.bit_length(), p[1], iv))
                elif how == 'swap':
                    other = [field_path(a) for a in n.get('args', [])]
                    other = [o for o in other if o and (o[0], o[1]) != key]
                    ok = other and all(self.fb.get((o[0], o[1])) == (lo, hi) for o in other)
                    if not ok:
                        ctx.report(rid, f, n, inst, 'field %s is swapped with a location of different/unknown width: %s'
                                   % (p[1], [path_str(o) for o in other]))
                elif how in ('++', 'post++'):
                    if not self._guarded_inc(f, n, key, hi):
                        ctx.report(rid, f, n, inst, 'increment of %s without a dominating bound keeping it inside %d bits' % (p[1], hi.bit_length()))
                elif how in ('--', 'post--'):
                    if not self._guarded_dec(f, n, key):
                        ctx.report(rid, f, n, inst, 'decrement of %s without a dominating non-zero guard (would wrap to 0xFFFF)' % p[1])
                elif how.startswith('byref:'):
                    ctx.report(rid, f, n, inst, 'field %s is passed by mutable reference' % p[1])
                else:
                    ctx.report(rid, f, n, inst, 'unrecognised kind of write to width-bounded field %s' % p[1])
        # in-class initialisers
        rec = ctx.record(RS)
        for fl in rec['fields']:
            key = (RS, fl['name'])
            if key in self.fb and 'init' in fl:
                ctx.inst(rid)
                vals = [const_value(x) for x in walk(fl['init']) if x.get('k') == 'int' or 'cv' in x]
                vals = [v for v in vals if v is not None]
                lo, hi = self.fb[key]
                if any(v < lo or v > hi for v in vals):
                    ctx.report(rid, ('include/teakra/impl/register.h', RS, fl.get('l', 0)), fl.get('l', 0), 'init ' + fl['name'],
                               'in-class initialiser of %s exceeds its %d-bit field: %s' % (fl['name'], hi.bit_length(), vals))
        ctx.require(n_writes >= 150, 'only %d writes to width-bounded register fields found' % n_writes)
        return self.fb

    def _guarded_inc(self, f, n, key, hi):
        for c, pol, src in guards_at(f['body'], n):
            c = unwrap_casts(c)
            if not (isinstance(c, dict) and c.get('k') == 'bin'):
                continue
            op = c.get('op')
            l, r = c.get('lhs'), c.get('rhs')
            pl = field_path(l)
            if not pl or (pl[0], pl[1]) != key:
                continue
            cv = const_value(r)
            if cv is None:
                continue
            if not pol:
                op = {'<': '>=', '<=': '>', '>': '<=', '>=': '<', '==': '!=', '!=': '=='}.get(op)
            bound = None
            if op == '<=':
                bound = cv
            elif op == '<':
                bound = cv - 1
            elif op == '==':
                bound = cv
            if bound is not None and bound + 1 <= hi:
                return True
        return False

    def _guarded_dec(self, f, n, key):
        # accepted guards: F != 0, F > 0, F (truthy), F >= c (c>=1); and for bcn the lp typestate (lp == (bcn != 0),
        # established by C09.L1)
        for c, pol, src in guards_at(f['body'], n):
            c = unwrap_casts(c)
            if not isinstance(c, dict):
                continue
            pc = field_path(c)
            if pc and (pc[0], pc[1]) == key and pol:
                return True
            if pc and pol and key == (RS, 'bcn') and (pc[0], pc[1]) == (RS, 'lp'):
                return True
            if c.get('k') == 'bin':
                pl = field_path(c.get('lhs'))
                cv = const_value(c.get('rhs'))
                op = c.get('op')
                if not pol:
                    op = {'<': '>=', '<=': '>', '>': '<=', '>=': '<', '==': '!=', '!=': '=='}.get(op)
                if pl and (pl[0], pl[1]) == key and cv is not None:
                    if (op == '!=' and cv == 0) or (op == '>' and cv >= 0) or (op == '>=' and cv >= 1):
                        return True
        return False


_cache = {}


def prove_widths(ctx, W, rid):
    wp = WidthProver(ctx, W, rid)
    return wp.prove()


def rule_w5(ctx, W):
    R = 'C20.W5'
    ctx.rule(R, 'exact read-back: every field exposed through a slot of length L stays below 2^L at every writer in the '
                'library (assignments by interval, compound bit operations, swaps/copies within one width class, '
                'guarded ++/--, in-class initialisers)', floor=150)
    prove_widths(ctx, W, R)
