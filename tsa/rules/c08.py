"""C08 - calls, returns, stack push/pop and context switches restore state exactly (structural mirrors, engine E6)."""
import re

from ..facts import AnalysisBroken
from ..astq import walk, field_path, unwrap_casts, const_value, direct_writes
from ..norm import render, render_stmt, Renderer, short_fn
from ..sib import switch_arms, loc_key, locs_in, stack_ops, resolve_local
from .widths import is_library

I = 'Teakra::Interpreter::'
RS = 'Teakra::RegisterState'
REGS = '(. f:Teakra::Interpreter::regs %s::' % RS


def handlers(ctx, name):
    out = [f for f in ctx.F['functions'].values() if f.get('cls') == 'Teakra::Interpreter' and f['name'] == name and not f.get('lambda')]
    for f in out:
        ctx.touch(f)
    return out


def p1_pc(ctx):
    R = 'C08.P1'
    ctx.rule(R, 'PushPC / PopPC: under each word order (cpc) the pop reads the two words in the reverse order of the pushes and '
                'reassembles l | h << 16 of pc & 0xFFFF / pc >> 16', floor=2)
    push = ctx.fn(I + 'PushPC()')
    pop = ctx.fn(I + 'PopPC()')
    from .. import summ, boolform
    ctx.inst(R, 2)
    SP, SQ = summ.summary(ctx, push, asserts='ignore'), summ.summary(ctx, pop, asserts='ignore')
    PC = REGS + 'pc)'
    HALF = {'(& %s 65535)' % PC: 'low', '(& 65535 %s)' % PC: 'low', '(>> %s 16)' % PC: 'high'}
    WR = '(call Teakra::MemoryInterface::DataWrite on f:Teakra::Interpreter::mem (-- %ssp)) ' % REGS
    RD = '(call Teakra::MemoryInterface::DataRead on f:Teakra::Interpreter::mem (post++ %ssp)) 0)' % REGS
    pushes = []        # (condition, [role of the 1st word pushed, role of the 2nd])
    for cond, seq, p_ in SP.effect_sequences(lambda e: e[0] == 'call' and 'DataWrite' in e[1]):
        roles = []
        for e in seq:
            val_ = e[1][len(WR):-1] if e[1].startswith(WR) else ''
            if val_.endswith(' 0'):
                val_ = val_[:-2]          # the defaulted bypass_mmio argument
            roles.append(HALF.get(val_))
        pushes.append((cond, roles))
    pops = []
    for cond, seq, p_ in SQ.effect_sequences(lambda e: e[0] == 'call'):
        if not boolform.satisfiable(cond):
            continue            # (a selection made twice on the same flag: the mixed combinations cannot happen)
        reads = [e for e in p_.effects if e[0] == 'call' and e[1] == RD]
        setpc = [e for e in p_.effects if e[0] == 'call' and 'Interpreter::SetPC' in e[1]]
        roles = None
        if len(reads) == 2 and len(setpc) == 1:
            arg = unwrap_casts(setpc[0][-1]['args'][0])
            hi = lo = None
            if isinstance(arg, dict) and arg.get('k') == 'bin' and arg.get('op') == '|':
                for side in (arg.get('lhs'), arg.get('rhs')):
                    x = unwrap_casts(side)
                    if isinstance(x, dict) and x.get('k') == 'bin' and x.get('op') == '<<' and const_value(unwrap_casts(x.get('rhs'))) == 16:
                        y = unwrap_casts(x.get('lhs'))
                        hi = y.get('_seq') if isinstance(y, dict) else None
                    elif isinstance(x, dict):
                        lo = x.get('_seq')
            order = {reads[0][-1].get('_seq'): 0, reads[1][-1].get('_seq'): 1}
            if hi in order and lo in order and hi != lo:
                roles = [None, None]
                roles[order[hi]] = 'high'
                roles[order[lo]] = 'low'
        pops.append((cond, roles))
    if len(pushes) < 2 or len(pops) < 2 or any(None in (r_ or [None]) or len(r_) != 2 for c_, r_ in pushes) or any(r_ is None for c_, r_ in pops):
        ctx.report(R, pop, pop['body'], 'PushPC/PopPC halves', 'pc is not pushed as pc & 0xFFFF and pc >> 16 / not reassembled as l | h << 16: %s / %s'
                   % ([r_ for c_, r_ in pushes], [r_ for c_, r_ in pops]))
        return
    for cq, rq_ in pops:
        ctx.oblig(R)
        match = [rp_ for cp, rp_ in pushes if boolform.satisfiable(boolform.all_of(cp, cq))]
        for rp_ in match:
            if rp_ != list(reversed(rq_)):
                ctx.report(R, pop, pop['body'], 'PushPC/PopPC order when %s' % boolform.show(cq)[-40:],
                           'push order %s is not the reverse of pop order %s' % (rp_, rq_))
    # both orders exist and are selected by the same mode bit
    conds_p = sorted(boolform.show(c_) for c_, r_ in pushes)
    conds_q = sorted(boolform.show(c_) for c_, r_ in pops)
    same = all(any(boolform.equivalent(cp, cq) is True for cq, _ in pops) for cp, _ in pushes) and \
        all(any(boolform.equivalent(cp, cq) is True for cp, _ in pushes) for cq, _ in pops)
    if not same or 'cpc' not in ''.join(conds_p):
        ctx.report(R, pop, pop['body'], 'PushPC/PopPC guards', 'push and pop do not branch on the same word-order condition: %s / %s' % (conds_p, conds_q))


def _arm_keys(ctx, f, arm, rend, writing):
    keys = set()
    unreachable = False
    for st in arm['stmts']:
        for n in walk(st):
            if n.get('k') == 'unreachable':
                unreachable = True
        if writing:
            for n in walk(st):
                if n.get('k') == 'assign':
                    k = loc_key(n['lhs'], f, rend)
                    if k:
                        keys.add(k)
                elif n.get('k') == 'call':
                    k = loc_key(n, f, rend)
                    if k and n.get('name') in ('Set', 'SatAndSetAccAndFlag', 'SetAcc', 'SetAccAndFlag', 'ProductFromBus32'):
                        keys.add(k)
                    if n.get('name') == 'Lc':
                        keys.add(('lc',))
        else:
            for n in walk(st):
                if n.get('k') == 'return' and n.get('e') is not None:
                    for k in locs_in(n['e'], f, rend):
                        keys.add(k)
    return keys, unreachable


def p2_bus(ctx):
    R = 'C08.P2'
    ctx.rule(R, 'register transfer switches: for every register name RegToBus16 reads the storage that RegFromBus16 writes '
                '(same field and index, same pseudo-register word, same accumulator); GetAcc / SetAcc arm sets coincide', floor=45)
    g = ctx.fn(I + 'RegToBus16(RegName,bool)')
    s = ctx.fn(I + 'RegFromBus16(RegName,unsigned short)')
    rg, rs = Renderer(g), Renderer(s)
    swg = [n for n in walk(g['body']) if n.get('k') == 'switch']
    sws = [n for n in walk(s['body']) if n.get('k') == 'switch']
    ctx.require(len(swg) == 1 and len(sws) == 1, 'RegToBus16 / RegFromBus16 switch not found')
    en = {e['v']: e['name'] for e in ctx.F['enums']['RegName']['enumerators']}
    gm, sm = {}, {}
    for arm in switch_arms(swg[0]):
        keys, unr = _arm_keys(ctx, g, arm, rg, False)
        for l in arm['labels']:
            gm[l] = (keys, unr)
    for arm in switch_arms(sws[0]):
        keys, unr = _arm_keys(ctx, s, arm, rs, True)
        for l in arm['labels']:
            sm[l] = (keys, unr)
    ACCW = {'a0': 0, 'a0l': 0, 'a0h': 0, 'a0e': 0, 'a1': 4, 'a1l': 4, 'a1h': 4, 'a1e': 4}
    for v in sorted(set(gm) | set(sm)):
        nm = en.get(v, str(v))
        ctx.inst(R)
        if v not in gm or v not in sm:
            ctx.report(R, g if v not in gm else s, (swg if v not in gm else sws)[0], 'RegName::' + nm, 'register has an arm in only one of RegToBus16 / RegFromBus16')
            continue
        (gk, gu), (sk, su) = gm[v], sm[v]
        if gu != su:
            ctx.report(R, s, sws[0], 'RegName::' + nm, 'register is unimplemented (UNREACHABLE) in one direction only')
            continue
        if gu:
            continue

        def norm(keys):
            out = set()
            for k in keys:
                if k[0] == 'acc':
                    out.add(('acc', 'reg'))
                elif k[0] == 'product':
                    out.add(('product', 0))
                elif k[0] == 'field' and k[1] in ('p', 'pe'):
                    out.add(('product', 0))
                elif k[0] == 'field' and k[1] == 'regs':
                    continue
                else:
                    out.add(k)
            return out
        a, b = norm(gk), norm(sk)
        # reading aXl/aXh may also test the saturation mode
        a.discard(('field', 'sat', None))
        if a != b:
            ctx.report(R, s, sws[0], 'RegName::' + nm, 'RegToBus16 reads %s but RegFromBus16 writes %s' % (sorted(a, key=str), sorted(b, key=str)))
    # GetAcc / SetAcc
    ga = ctx.fn(I + 'GetAcc(RegName) const')
    sa = ctx.fn(I + 'SetAcc(RegName,unsigned long)')
    ra, rb = Renderer(ga), Renderer(sa)
    am, bm = {}, {}
    for arm in switch_arms([n for n in walk(ga['body']) if n.get('k') == 'switch'][0]):
        keys, unr = _arm_keys(ctx, ga, arm, ra, False)
        for l in arm['labels']:
            am[l] = keys
    for arm in switch_arms([n for n in walk(sa['body']) if n.get('k') == 'switch'][0]):
        keys, unr = _arm_keys(ctx, sa, arm, rb, True)
        for l in arm['labels']:
            bm[l] = keys
    for v in sorted(set(am) | set(bm)):
        ctx.inst(R)
        if {k for k in am.get(v, set()) if k[1] != 'regs'} != {k for k in bm.get(v, set()) if k[1] != 'regs'}:
            ctx.report(R, sa, sa['body'], 'acc RegName::' + en.get(v, str(v)),
                       'GetAcc reads %s but SetAcc writes %s' % (sorted(am.get(v, []), key=str), sorted(bm.get(v, []), key=str)))
        # the expected accumulator for each name
        want = None
        nm = en.get(v, '')
        if nm[:2] in ('a0', 'a1', 'b0', 'b1'):
            want = ('field', nm[0], int(nm[1]))
            if want not in am.get(v, set()):
                ctx.report(R, ga, ga['body'], 'acc RegName::' + nm, 'GetAcc(%s) reads %s' % (nm, sorted(am.get(v, []), key=str)))


PAIRS = [('push_r6', 'pop_r6'), ('push_repc', 'pop_repc'), ('push_x0', 'pop_x0'), ('push_x1', 'pop_x1'), ('push_y1', 'pop_y1'),
         ('push_prpage', 'pop_prpage')]


def _combine_roles(f, rend):
    """locals used as (h << 16) | l in f"""
    roles = {}
    for n in walk(f['body']):
        if n.get('k') == 'bin' and n.get('op') == '|':
            t = rend.r(n)
            m = re.search(r'\(<< (l:[\w@]+) 16\)', t)
            if m:
                roles[m.group(1)] = 'high'
                for x in (n.get('lhs'), n.get('rhs')):
                    tx = rend.r(x)
                    if re.match(r'^l:[\w@]+$', tx) and tx != m.group(1):
                        roles[tx] = 'low'
    return roles


def _role_of(text, roles):
    """low / high half of a 32-bit value: by the local that holds it or by the expression itself"""
    if text in roles:
        return roles[text]
    if re.match(r'^\(& .* 65535\)$', text) or re.match(r'^\(& 65535 .*\)$', text):
        return 'low'
    if re.match(r'^\(>> .* 16\)$', text):
        return 'high'
    return None


def _split_roles(f, rend):
    roles = {}
    for v in walk(f['body']):
        if v.get('k') == 'var' and 'init' in v:
            t = rend.r(v['init'])
            if re.match(r'^\(& .* 65535\)$', t) or re.match(r'^\(& 65535 .*\)$', t):
                roles['l:' + v['name']] = 'low'
            elif re.match(r'^\(>> .* 16\)$', t):
                roles['l:' + v['name']] = 'high'
    return roles


def p3_pairs(ctx):
    R = 'C08.P3'
    ctx.rule(R, 'dedicated push/pop pairs: same storage, as many --sp writes as sp++ reads, multi-word values popped in the '
                'reverse order of their pushes', floor=10)
    # single-word named pairs
    for pu, po in PAIRS:
        fu, fo = handlers(ctx, pu), handlers(ctx, po)
        ctx.require(len(fu) == 1 and len(fo) == 1, 'handler pair %s / %s not found' % (pu, po))
        fu, fo = fu[0], fo[0]
        ctx.inst(R)
        ou, oo = stack_ops(fu), stack_ops(fo)
        ru, ro = Renderer(fu), Renderer(fo)
        if [o[0] for o in ou] != ['push'] or [o[0] for o in oo] != ['pop']:
            ctx.report(R, fo, fo['body'], '%s/%s' % (pu, po), 'stack traffic is not one --sp write / one sp++ read: %s / %s' % ([o[0] for o in ou], [o[0] for o in oo]))
            continue
        src = [k for k in locs_in(ou[0][1], fu, ru) if k[1] != 'regs']
        dst = [loc_key(n['lhs'], fo, ro) for n in walk(fo['body']) if n.get('k') == 'assign']
        dst = [k for k in dst if k and k[1] not in ('regs', 'sp')]
        if len(src) != 1 or len(dst) != 1 or src[0] != dst[0]:
            ctx.report(R, fo, fo['body'], '%s/%s' % (pu, po), 'push reads %s but pop writes %s' % (src, dst))
    # typed pairs: push(T)/pop(T)
    typed = [('push', 'pop', 'Register'), ('push', 'pop', 'ArArpSttMod'), ('push', 'pop', 'Abe'), ('push', 'pop', 'Px')]
    for pu, po, ty in typed:
        fu = [f for f in handlers(ctx, pu) if f['params'] and ty in f['params'][0]['t'] or (ty == 'Abe' and f['params'] and 'b0e' in f['params'][0]['t'])]
        fo = [f for f in handlers(ctx, po) if f['params'] and ty in f['params'][0]['t'] or (ty == 'Abe' and f['params'] and 'b0e' in f['params'][0]['t'])]
        if ty == 'Register':
            fu = [f for f in handlers(ctx, pu) if f['params'] and f['params'][0]['t'] == 'Register']
            fo = [f for f in handlers(ctx, po) if f['params'] and f['params'][0]['t'] == 'Register']
        ctx.require(len(fu) == 1 and len(fo) == 1, 'handler pair push(%s)/pop(%s) not found (%d/%d)' % (ty, ty, len(fu), len(fo)))
        fu, fo = fu[0], fo[0]
        ctx.inst(R)
        ou, oo = stack_ops(fu), stack_ops(fo)
        if len(ou) != len(oo) or any(o[0] != 'push' for o in ou) or any(o[0] != 'pop' for o in oo):
            ctx.report(R, fo, fo['body'], 'push/pop(%s)' % ty, 'stack traffic differs: %s / %s' % ([o[0] for o in ou], [o[0] for o in oo]))
            continue
        ru, ro = Renderer(fu, inline_locals=False), Renderer(fo, inline_locals=False)
        if len(ou) == 2:
            sr = _split_roles(fu, ru)
            cr = _combine_roles(fo, ro)
            pw = [_role_of(ru.r(o[1]), sr) for o in ou]
            pr = [cr.get('l:' + o[1]) for o in oo]
            if None in pw or None in pr or pw != list(reversed(pr)):
                ctx.report(R, fo, fo['body'], 'push/pop(%s) order' % ty, 'push order %s is not the reverse of pop order %s' % (pw, pr))
        # storage: both go through the same accessor family on the same operand
        su = {k for k in locs_in(fu['body'], fu, Renderer(fu)) if k[0] in ('bus16', 'acc', 'product')}
        so = {k for k in locs_in(fo['body'], fo, Renderer(fo)) if k[0] in ('bus16', 'acc', 'product')}
        if {k[0] for k in su} != {k[0] for k in so} or {k[1] for k in su} != {k[1] for k in so}:
            ctx.report(R, fo, fo['body'], 'push/pop(%s) storage' % ty, 'push reads %s, pop writes %s' % (sorted(su), sorted(so)))
    # the extension word: pop(Abe) must rebuild all bits above 32 of the accumulator, i.e. sign-extend as many bits as the
    # accumulator has above 32 (the width the arithmetic unit itself uses: SignExtend<W> of AddSub), under the matching mask
    import re as _re
    addsub = [f for f in ctx.F['functions'].values() if f.get('cls') == 'Teakra::Interpreter' and f['name'] == 'AddSub']
    widths = sorted({int(m.group(1)) for f in addsub for n in walk(f['body']) if n.get('k') == 'call'
                     for m in [_re.match(r'SignExtend<(\d+)U', short_fn(n.get('fn') or ''))] if m and int(m.group(1)) > 32})
    ctx.require(len(widths) == 1, 'accumulator width not evident from AddSub: %s' % widths)
    W = widths[0]
    fo = [f for f in handlers(ctx, 'pop') if f['params'] and ('Abe' in f['params'][0]['t'] or 'b0e' in f['params'][0]['t'])]
    ctx.require(len(fo) == 1, 'pop(Abe) not found')
    ctx.inst(R)
    ext = []
    for n in walk(fo[0]['body']):
        if n.get('k') == 'call':
            m = _re.match(r'SignExtend<(\d+)U', short_fn(n.get('fn') or ''))
            if m:
                arg = unwrap_casts(n['args'][0]) if n.get('args') else None
                mask = const_value(unwrap_casts(arg.get('rhs'))) if isinstance(arg, dict) and arg.get('k') == 'bin' and arg.get('op') == '&' else None
                if mask is None and isinstance(arg, dict) and arg.get('k') == 'bin' and arg.get('op') == '&':
                    mask = const_value(unwrap_casts(arg.get('lhs')))
                ext.append((int(m.group(1)), mask))
    if len(ext) != 1 or ext[0][0] != W - 32 or ext[0][1] != (1 << (W - 32)) - 1:
        ctx.report(R, fo[0], fo[0]['body'], 'pop(Abe) extension width',
                   'the popped extension is sign-extended as %s (bits, mask); the accumulator has %d bits above bit 31, so a pushed '
                   'extension does not come back' % (ext, W - 32))
    # pusha(Ax) / pusha(Bx) / popa(Ab)
    pa = handlers(ctx, 'pusha')
    po = handlers(ctx, 'popa')
    ctx.require(len(pa) == 2 and len(po) == 1, 'pusha/popa handlers not found')
    for fu in pa:
        ctx.inst(R)
        ou, oo = stack_ops(fu), stack_ops(po[0])
        ru, ro = Renderer(fu, inline_locals=False), Renderer(po[0], inline_locals=False)
        sr = _split_roles(fu, ru)
        cr = _combine_roles(po[0], ro)
        pw = [_role_of(ru.r(o[1]), sr) for o in ou]
        pr = [cr.get('l:' + o[1]) for o in oo]
        if len(pw) != 2 or len(pr) != 2 or None in pw or None in pr or pw != list(reversed(pr)):
            ctx.report(R, po[0], po[0]['body'], 'pusha/popa order', 'push order %s is not the reverse of pop order %s' % (pw, pr))


def _assign_pairs(f, st, rend):
    out = set()
    for n in walk(st):
        if n.get('k') == 'assign' and n.get('op') == '=':
            l, r = loc_key(n['lhs'], f, rend), loc_key(resolve_local(f, n['rhs']), f, rend)
            if l and r:
                out.add((l, r))
        elif n.get('k') == 'call' and n.get('name') in ('SetAccAndFlag', 'SetAcc', 'SatAndSetAccAndFlag'):
            cv = const_value(n['args'][0])
            en = {4: ('field', 'a', 1), 0: ('field', 'a', 0), 8: ('field', 'b', 0), 12: ('field', 'b', 1)}
            r = loc_key(resolve_local(f, n['args'][1]), f, rend)
            if cv in en and r:
                out.add((en[cv], r))
        elif n.get('k') == 'call' and n.get('name') == 'swap' and str(n.get('fn', '')).startswith('std::swap'):
            a, b = loc_key(n['args'][0], f, rend), loc_key(n['args'][1], f, rend)
            if a and b:
                out.add((a, b))
                out.add((b, a))
    return out


def p4_context(ctx):
    R = 'C08.P4'
    ctx.rule(R, 'context switch mirrors: ContextRestore is ContextStore with sources and destinations swapped under equal guards; '
                'Shadow Store/Restore fold over the same registers; every Swap body consists only of std::swap(main, its own '
                'shadow) and is therefore an involution; banke exchanges each register with its own bank; SwapAr/SwapArp/'
                'SwapAllArArp cover ar0-1 and arp0-3', floor=40)
    st = ctx.fn(I + 'ContextStore()')
    re_ = ctx.fn(I + 'ContextRestore()')
    rs, rr = Renderer(st), Renderer(re_)
    ctx.inst(R)
    a, b = st['body'].get('body', []), re_['body'].get('body', [])
    # statements that only bump a statistics counter (a field nothing reads except its own update and a const accessor) are
    # not steps of the context switch
    from ..cases import observation_only_fields
    obs = observation_only_fields(ctx.F, 'Teakra::Interpreter')

    def _counts_only(x):
        t = x.get('e') if x.get('k') == 'un' and x.get('op') in ('++', 'post++') else (x.get('lhs') if x.get('k') == 'assign' and x.get('op') == '+=' else None)
        p_ = field_path(t) if t is not None else None
        return bool(p_) and p_[0] == 'Teakra::Interpreter' and p_[1] in obs
    a = [x for x in a if not _counts_only(x)]
    b = [x for x in b if not _counts_only(x)]
    if len(a) != len(b):
        ctx.report(R, re_, re_['body'], 'ContextStore/Restore length', 'store has %d top-level steps, restore has %d' % (len(a), len(b)))
    # the steps touch disjoint registers, so their order is immaterial: pair calls by name and conditionals by guard
    from .. import boolform
    fa, fb = boolform.Former(st), boolform.Former(re_)
    want_calls = {'ShadowStore': 'ShadowRestore', 'ShadowSwap': 'ShadowSwap'}
    ca = sorted(x.get('name') for x in a if x.get('k') == 'call')
    cb = sorted(y.get('name') for y in b if y.get('k') == 'call')
    ctx.oblig(R, 2)
    if ca != sorted(want_calls) or cb != sorted(want_calls.values()):
        ctx.report(R, re_, re_['body'], 'ContextStore/Restore calls', 'store calls %s, restore calls %s' % (ca, cb))
    other = [x.get('k') for x in a + b if x.get('k') not in ('call', 'if')]
    if other:
        ctx.report(R, re_, re_['body'], 'ContextStore/Restore steps', 'unexpected step kinds %s' % other)
    # ... as long as no step reads or overwrites what an earlier step of the same function has written (a save must see the
    # entry value: ShadowStore reads the flags that the accumulator exchange of the ccnta branch rewrites)
    from ..effects import Effects
    EF = Effects(ctx.F)
    for fn_, steps in ((st, a), (re_, b)):
        eff = [EF.of_node(x) for x in steps]
        for i in range(len(steps)):
            for j in range(i + 1, len(steps)):
                ctx.oblig(R)
                dep = sorted(x[1] for x in (eff[i][1] & eff[j][0]) | (eff[i][1] & eff[j][1]))
                if dep:
                    ctx.report(R, fn_, steps[j], '%s order' % fn_['name'],
                               'step %d (line %s) uses %s after step %d (line %s) has already changed it: the context is not saved / restored from the entry values'
                               % (j, steps[j].get('l'), dep[:6], i, steps[i].get('l')))
    ifs_b = [y for y in b if y.get('k') == 'if']
    for i, x in enumerate([x for x in a if x.get('k') == 'if']):
        ctx.oblig(R)
        cx = fa.form(x['cond'])
        inst = 'ContextStore/Restore guard %s' % boolform.show(cx)[-40:]
        pol = None
        y = None
        for cand in ifs_b:
            cy = fb.form(cand['cond'])
            if boolform.equivalent(cx, cy) is True:
                y, pol = cand, True
            elif boolform.equivalent(cx, boolform.neg(cy)) is True:
                y, pol = cand, False
        if y is None:
            ctx.report(R, re_, re_['body'], inst, 'restore has no step under the guard %s of the store' % boolform.show(cx)[:120])
            continue
        for br in ('then', 'else'):
            ybr = br if pol else ('else' if br == 'then' else 'then')
            if (x.get(br) is None) != (y.get(ybr) is None):
                ctx.report(R, re_, y, inst, 'one side lacks the %s branch' % br)
                continue
            if x.get(br) is None:
                continue
            pa, pb = _assign_pairs(st, x[br], rs), _assign_pairs(re_, y[ybr], rr)
            mirror = {(r, l) for (l, r) in pa}
            exch_a = all((r, l) in pa for (l, r) in pa) and pa
            exch_b = all((r, l) in pb for (l, r) in pb) and pb
            if exch_a and exch_b:
                if pa != pb:
                    ctx.report(R, re_, y[ybr], inst + ' ' + br, 'store exchanges %s, restore exchanges %s' % (sorted(pa, key=str), sorted(pb, key=str)))
            elif mirror != pb:
                ctx.report(R, re_, y[ybr], inst + ' ' + br, 'restore assignments %s are not the mirror of store assignments %s'
                           % (sorted(pb, key=str), sorted(pa, key=str)))
    F = ctx.F['functions']
    # ShadowRegister Store / Restore per register; lists fold over the same bases
    stores = {k: f for k, f in F.items() if k.startswith(RS + '::ShadowRegister<') and f['name'] == 'Store'}
    restores = {k: f for k, f in F.items() if k.startswith(RS + '::ShadowRegister<') and f['name'] == 'Restore'}
    ctx.require(len(stores) >= 8 and len(stores) == len(restores), 'ShadowRegister Store/Restore instantiations: %d/%d' % (len(stores), len(restores)))
    for k, f in stores.items():
        ctx.inst(R)
        ctx.touch(f)
        g = F.get(k.replace('::Store(', '::Restore('))
        if g is None:
            ctx.report(R, f, f['body'], short_fn(k)[-50:], 'no matching Restore')
            continue
        a = render_stmt(f['body'], f)
        b = render_stmt(g['body'], g)
        m = re.match(r'^\{\(= (f:[^ ]+::shadow) (\(->\* \$0 \(& \w+\)\))\)\}$', a)
        if not m or b != '{(= %s %s)}' % (m.group(2), m.group(1)):
            ctx.report(R, g, g['body'], short_fn(k)[-50:], 'Store/Restore are not mirror assignments: %s / %s' % (a, b))
    for lst in ('ShadowRegisterList',):
        ls = [f for k, f in F.items() if k.startswith(RS + '::' + lst + '<') and f['name'] == 'Store']
        lr = [f for k, f in F.items() if k.startswith(RS + '::' + lst + '<') and f['name'] == 'Restore']
        ctx.require(len(ls) == 1 and len(lr) == 1, lst + ' Store/Restore not instantiated')
        ctx.inst(R)
        ca = sorted(short_fn(n['fn']).replace('::Store', '') for n in walk(ls[0]['body']) if n.get('k') == 'call' and n.get('name') == 'Store')
        cb = sorted(short_fn(n['fn']).replace('::Restore', '') for n in walk(lr[0]['body']) if n.get('k') == 'call' and n.get('name') == 'Restore')
        if ca != cb or len(ca) < 8:
            ctx.report(R, lr[0], lr[0]['body'], lst, 'Store and Restore fold over different register sets')
    f = ctx.fn(RS + '::ShadowStore()')
    g = ctx.fn(RS + '::ShadowRestore()')
    ctx.inst(R)
    if 'Store on f:%s::shadow_registers this' % RS not in render_stmt(f['body'], f) or 'Restore on f:%s::shadow_registers this' % RS not in render_stmt(g['body'], g):
        ctx.report(R, g, g['body'], 'ShadowStore/ShadowRestore', 'do not forward to shadow_registers.Store/Restore(this)')
    # every Swap: only std::swap(main register, own shadow member)
    n_swap = 0
    for k, f in F.items():
        if not (k.startswith(RS + '::ShadowSwap') and f['name'] == 'Swap'):
            continue
        if 'ShadowSwapRegisterList<' in k:
            ctx.inst(R)
            calls = [n for n in walk(f['body']) if n.get('k') == 'call']
            if not calls or any(n.get('name') != 'Swap' for n in calls):
                ctx.report(R, f, f['body'], 'ShadowSwapRegisterList::Swap', 'list Swap does something other than calling every member Swap')
            continue
        n_swap += 1
        ctx.inst(R)
        ctx.touch(f)
        r = Renderer(f)
        stmts = f['body'].get('body', [])
        shadows = set()
        for st_ in stmts:
            if st_.get('k') == 'decl' and all(const_value(v_.get('init')) is not None for v_ in st_.get('vars', [])):
                continue        # a named compile-time constant (an index computed once)
            ok = st_.get('k') == 'call' and st_.get('name') == 'swap' and str(st_.get('fn', '')).startswith('std::swap') and len(st_.get('args', [])) == 2
            if ok:
                ta, tb = r.r(st_['args'][0]), r.r(st_['args'][1])
                main = [t for t in (ta, tb) if '$0' in t]
                shad = [t for t in (ta, tb) if t.startswith('f:')]
                ok = len(main) == 1 and len(shad) == 1
                if ok:
                    if shad[0] in shadows:
                        ok = False
                    shadows.add(shad[0])
            if not ok:
                ctx.report(R, f, st_, short_fn(k)[-60:], 'Swap body contains something other than std::swap(self->register, own shadow): ' + r.s(st_)[:120])
    ctx.require(n_swap >= 12, 'only %d Swap instantiations found' % n_swap)
    # SwapAr / SwapArp / SwapAllArArp
    from .. import summ, boolform
    from ..loops import loop_range
    maps = {}
    for fn, pre, n in (('SwapAr(unsigned short)', 'ar', 2), ('SwapArp(unsigned short)', 'arp', 4)):
        f = ctx.fn(RS + '::' + fn)
        ctx.inst(R)
        eff = summ.summary(ctx, f, asserts='ignore').effect_conditions(lambda e: e[0] == 'call' and '::Swap on ' in e[1])
        m = {}
        for i in range(n):
            objs = []
            for e, c in eff.items():
                t = boolform.eval_selector(c, '$0', i)
                if t is None:
                    raise AnalysisBroken('C08: %s selects on something other than its index' % fn)
                if t:
                    objs.append(e[1].split(' on ')[1].split(' ')[0].rstrip(')'))
            m[i] = sorted(objs)
        want = {i: ['f:%s::shadow_swap_%s%d' % (RS, pre, i)] for i in range(n)}
        maps[fn.split('(')[0]] = m
        if m != want:
            ctx.report(R, f, f['body'], fn.split('(')[0], 'index -> bank mapping is %s' % m)
    f = ctx.fn(RS + '::SwapAllArArp()')
    ctx.inst(R)
    got = [render(n.get('obj'), f) for n in walk(f['body']) if n.get('k') == 'call' and n.get('name') == 'Swap']
    loops_ = [n for n in walk(f['body']) if n.get('k') == 'for']
    for n in walk(f['body']):
        if n.get('k') == 'call' and n.get('name') in maps and n.get('args'):
            a0 = unwrap_casts(n['args'][0])
            cv = const_value(a0) if isinstance(a0, dict) else None
            idxs = None
            if cv is not None:
                idxs = [cv]
            elif isinstance(a0, dict) and a0.get('k') == 'ref':
                for lp in loops_:
                    rng = loop_range(f, lp)
                    if rng and rng[0] == a0.get('name') and any(x is n for x in walk(lp.get('body'))):
                        idxs = list(range(rng[1], rng[2], rng[3]))
            if idxs is None:
                raise AnalysisBroken('C08: SwapAllArArp: bank index of %s is not a constant or a constant-range loop variable' % n['name'])
            for i_ in idxs:
                got += maps[n['name']].get(i_, ['?'])
    got = sorted(got)
    want = sorted('f:%s::shadow_swap_%s' % (RS, x) for x in ('ar0', 'ar1', 'arp0', 'arp1', 'arp2', 'arp3'))
    if got != want:
        ctx.report(R, f, f['body'], 'SwapAllArArp', 'swaps %s, expected all of ar0-1 and arp0-3' % got)
    # banke
    f = handlers(ctx, 'banke')
    ctx.require(len(f) == 1, 'banke handler not found')
    f = f[0]
    r = Renderer(f)
    banks = {}
    for n in walk(f['body']):
        if n.get('k') == 'call' and n.get('name') == 'swap' and str(n.get('fn', '')).startswith('std::swap'):
            ctx.inst(R)
            a, b = loc_key(n['args'][0], f, r), loc_key(n['args'][1], f, r)
            if not a or not b:
                ctx.report(R, f, n, 'banke swap', 'swap operands are not register fields')
                continue
            main, bank = (a, b) if not str(b[1]).endswith('b') or str(a[1]).endswith('b') and False else (a, b)
            if str(a[1]).endswith('b') and not str(b[1]).endswith('b'):
                main, bank = b, a
            want = ('r%db' % main[2]) if main[1] == 'r' else (main[1] + 'b')
            if bank[1] != want or bank[2] is not None:
                ctx.report(R, f, n, 'banke %s' % (main[1] if main[1] != 'r' else 'r%d' % main[2]),
                           'register %s is exchanged with bank %s, its own bank is %s' % (main, bank[1], want))
            if bank[1] in banks:
                ctx.report(R, f, n, 'banke bank ' + bank[1], 'bank register used by two exchanges')
            banks[bank[1]] = main
    ctx.require(len(banks) >= 8, 'banke: only %d exchanges found' % len(banks))
    # guards of the exchanges are not modified by them
    written = {k[1] for k in banks} | {v[1] for v in banks.values()}
    for n in walk(f['body']):
        if n.get('k') == 'if':
            for x in walk(n['cond']):
                p = field_path(x)
                if p and p[0] == RS and p[1] in written:
                    ctx.report(R, f, n, 'banke guard', 'an exchange guard depends on %s, which banke itself exchanges (not an involution)' % p[1])


def p5_call_ret(ctx):
    R = 'C08.P5'
    ctx.rule(R, 'call/return mirror: every call form pushes pc before it jumps on the taken path; every return form pops pc; '
                'reti / retic set ie = 1, retic additionally restores the context', floor=8)
    for f in handlers(ctx, 'call') + handlers(ctx, 'calla') + handlers(ctx, 'callr'):
        ctx.inst(R)
        r = Renderer(f, inline_locals=False)
        seq = []
        for n in walk(f['body']):
            if n.get('k') == 'call' and n.get('name') == 'PushPC':
                seq.append('push')
            elif n.get('k') == 'call' and n.get('name') == 'SetPC':
                seq.append('jump')
            elif n.get('k') == 'assign' and r.r(n['lhs']) == REGS + 'pc)':
                seq.append('jump')
        if seq != ['push', 'jump']:
            ctx.report(R, f, f['body'], short_fn(f['id'])[-40:], 'call form does not push pc exactly once before jumping: %s' % seq)
        else:
            # both under the same guard
            from ..guards import guards_at
            pn = [n for n in walk(f['body']) if n.get('k') == 'call' and n.get('name') == 'PushPC'][0]
            jn = [n for n in walk(f['body']) if (n.get('k') == 'call' and n.get('name') == 'SetPC') or (n.get('k') == 'assign' and r.r(n['lhs']) == REGS + 'pc)')][0]
            ga = [(r.r(c), p) for c, p, s in guards_at(f['body'], pn)]
            gb = [(r.r(c), p) for c, p, s in guards_at(f['body'], jn)]
            if ga != gb:
                ctx.report(R, f, jn, short_fn(f['id'])[-40:], 'push and jump are under different conditions')
    for nm, need in (('ret', ['PopPC']), ('rets', ['PopPC']), ('reti', ['PopPC', 'ie=1']), ('retic', ['PopPC', 'ie=1', 'ContextRestore'])):
        for f in handlers(ctx, nm):
            ctx.inst(R)
            r = Renderer(f, inline_locals=False)
            got = []
            for n in walk(f['body']):
                if n.get('k') == 'call' and n.get('name') in ('PopPC', 'ContextRestore', 'ContextStore', 'PushPC'):
                    got.append(n['name'])
                elif n.get('k') == 'assign' and r.r(n['lhs']) == REGS + 'ie)':
                    got.append('ie=%s' % r.r(n['rhs']))
            if sorted(got) != sorted(need):
                ctx.report(R, f, f['body'], nm, 'return form performs %s, expected %s' % (got, need))


def run(ctx):
    p1_pc(ctx)
    p2_bus(ctx)
    p3_pairs(ctx)
    p4_context(ctx)
    p5_call_ret(ctx)
    ctx.sample({'pair': 'push(Px)/pop(Px)', 'push_order': ['low', 'high'], 'pop_order': ['high', 'low']})
    ctx.assumptions += ['value round trips under saturation and flag effects of pops are not decided (the property itself excludes saturation)']
