"""C04 - multiplier products and barrel-shifter results (structural parts)."""
from ..facts import AnalysisBroken
from ..astq import walk, direct_writes, direct_reads, field_path, unwrap_casts, const_value
from ..cases import CaseWalker
from ..norm import render, render_stmt, Renderer, short_fn
from ..sib import switch_arms

I = 'Teakra::Interpreter::'
RS = 'Teakra::RegisterState'


def interp_functions(ctx):
    return [f for f in ctx.F['functions'].values() if f.get('cls') == 'Teakra::Interpreter' and not f.get('lambda') and f.get('body')]


def run(ctx):
    M1, M2, M3, M4 = ('C04.M%d' % i for i in range(1, 5))
    ctx.rule(M1, 'every product read applies the product shift: regs.p[] / regs.pe[] are read only in ProductToBus40, '
                 'ProductToBus32_NoShift (the documented no-shift store), DoMultiplication and the p0h arm of RegFromBus16, and '
                 'written only in DoMultiplication, ProductFromBus32 and that arm', floor=8)
    ctx.rule(M2, 'accumulate before launch: in every function that both reads a product (ProductToBus40 / ProductSum) and starts '
                 'a multiplication of the same unit, no product read follows the DoMultiplication call', floor=15)
    ctx.rule(M3, 'sign selection / product-shift tables (T-rules): MulGeneric maps each multiply kind to its (x signed, y signed) '
                 'pair; ProductToBus40 maps ps to (shift, sign-extension width) = none/33, >>1/32, <<1/34, <<2/35; '
                 'DoMultiplication half-word modes select y >> 8 / y & 0xFF for the documented hwm codes', floor=10)
    ctx.rule(M4, 'shifter dispatch: Moda Shr/Shr4/Shl/Shl4 pass the literal shift values 0xFFFF/0xFFFC/1/4; every shift '
                 'instruction reaches the single ShiftBus40; ShiftBus40 keeps the original sign for saturation', floor=8)
    F = ctx.F['functions']
    # ---- M1
    # mov2 is the documented no-shift store (it reads p through ProductToBus32_NoShift, or directly if that one-liner is inlined)
    RD_OK = {'ProductToBus40', 'ProductToBus32_NoShift', 'DoMultiplication', 'RegFromBus16', 'mov2'}
    WR_OK = {'DoMultiplication', 'ProductFromBus32', 'RegFromBus16'}
    n = 0
    for f in interp_functions(ctx):
        for p, node in direct_reads(f['body']):
            if p[0] == RS and p[1] in ('p', 'pe'):
                n += 1
                ctx.inst(M1)
                ctx.touch(f)
                if f['name'] not in RD_OK:
                    ctx.report(M1, f, node, '%s reads %s' % (f['name'], p[1]), 'raw product register read outside the product-read helpers (product shift not applied)')
        for p, node, how in direct_writes(f['body']):
            if p[0] == RS and p[1] in ('p', 'pe'):
                n += 1
                ctx.inst(M1)
                if f['name'] not in WR_OK:
                    ctx.report(M1, f, node, '%s writes %s' % (f['name'], p[1]), 'product register written outside DoMultiplication / ProductFromBus32 / the p0h bus arm')
    ctx.require(n >= 8, 'product register accesses: %d' % n)
    users = [f['name'] for f in interp_functions(ctx) for c in walk(f['body']) if c.get('k') == 'call' and c.get('name') == 'ProductToBus32_NoShift']
    ctx.inst(M1)
    if sorted(set(users)) not in (['mov2'], []) or (not users and 'Teakra::Interpreter::ProductToBus32_NoShift(Px) const' in F):
        ctx.report(M1, ('src/interpreter.h', 'Teakra::Interpreter', 0), 0, 'ProductToBus32_NoShift users', 'the unshifted product is read by %s, expected only the mov2 store forms' % sorted(set(users)))
    # ---- M2
    n2 = 0
    for f in interp_functions(ctx):
        seq = []
        for c in walk(f['body']):
            if c.get('k') == 'call' and c.get('cls') == 'Teakra::Interpreter':
                if c.get('name') == 'DoMultiplication':
                    seq.append(('mul', const_value(c['args'][0]), c))
                elif c.get('name') in ('ProductToBus40',):
                    u = None
                    for x in walk(c['args'][0]):
                        if const_value(x) is not None:
                            u = const_value(x)
                    seq.append(('read', u, c))
                elif c.get('name') in ('ProductSum', 'app'):
                    seq.append(('read', 'both', c))
        if not any(k == 'mul' for k, u, c in seq) or not any(k == 'read' for k, u, c in seq):
            continue
        if f['name'] == 'CodebookSearch':
            # reads p0h of the product it has just launched, by design of the cbs instruction
            continue
        n2 += 1
        ctx.inst(M2)
        ctx.touch(f)
        from ..flow import Flow, Client

        class _MA(Client):
            def __init__(self):
                self.bad = None

            def join(self, a, b):
                if a is None:
                    return b
                if b is None:
                    return a
                return a | b

            def transfer(self, e, st):
                from ..astq import children

                def rec(n, st):
                    if not isinstance(n, dict):
                        return st
                    for c in children(n):
                        st = rec(c, st)
                    if n.get('k') == 'call' and n.get('cls') == 'Teakra::Interpreter':
                        if n.get('name') == 'DoMultiplication':
                            st = st | {const_value(n['args'][0])}
                        elif n.get('name') == 'ProductToBus40':
                            u = None
                            for x in walk(n['args'][0]):
                                if const_value(x) is not None:
                                    u = const_value(x)
                            hit = ({u} & st) if u is not None else st
                            if hit and self.bad is None:
                                self.bad = (n, hit)
                        elif n.get('name') in ('ProductSum', 'app'):
                            if st and self.bad is None:
                                self.bad = (n, st)
                    return st
                return rec(e, st)
        cl = _MA()
        Flow(cl).run(f['body'], frozenset())
        if cl.bad:
            c, hit = cl.bad
            ctx.report(M2, f, c, '%s/%d' % (f['name'], len(f['params'])),
                       'the product of unit %s is read after the new multiplication was started (the previous product must be accumulated first)' % sorted(hit, key=str))
    ctx.require(n2 >= 15, 'multiply-accumulate functions found: %d' % n2)
    # ---- M3
    mg = ctx.fn(I + 'MulGeneric(MulOp,Ax)')
    en = {e['name']: e['v'] for e in ctx.F['enums']['MulOp']['enumerators']}
    # which multiplication each kind launches, from the guarded summary (E11): for the value of each enumerator, the calls of
    # DoMultiplication whose path condition holds (per-arm calls, or flags set per arm and one call after the switch)
    from .. import summ as _summ, boolform as _bf
    import re as _re
    effm = _summ.summary(ctx, mg, asserts='ignore').effect_conditions(lambda e: e[0] == 'call' and 'Interpreter::DoMultiplication on this' in e[1])
    ctx.require(bool(effm), 'MulGeneric: no DoMultiplication call found')
    sw = [mg['body']]
    got = {}
    for nm_, v_ in en.items():
        calls = []
        for e_, c_ in effm.items():
            t_ = _bf.eval_selector(c_, '$0', v_, en)
            if t_ is None:
                calls.append(None)          # a condition on something other than the operation: cannot be attributed
            elif t_:
                m_ = _re.search(r'DoMultiplication on this (\S+) (\S+) (\S+)\)$', e_[1])
                calls.append([int(x) if x.lstrip('-').isdigit() else None for x in m_.groups()] if m_ else None)
        got[v_] = calls
    WANT = {'Mpy': [0, 1, 1], 'Mac': [0, 1, 1], 'Maa': [0, 1, 1], 'Mpysu': [0, 0, 1], 'Macsu': [0, 0, 1], 'Maasu': [0, 0, 1],
            'Macus': [0, 1, 0], 'Macuu': [0, 0, 0]}
    for nm, w in WANT.items():
        ctx.inst(M3)
        if got.get(en[nm]) != [w]:
            ctx.report(M3, mg, sw[0], 'MulGeneric ' + nm, 'multiply kind %s launches DoMultiplication%s, the architecture says (unit, x signed, y signed) = %s' % (nm, got.get(en[nm]), w))
    # accumulate step of MulGeneric: every kind but Mpy/Mpysu adds the previous product, Maa/Maasu aligned by 16
    cw = CaseWalker(ctx.F, 'Teakra::Interpreter')
    for nm, v in en.items():
        ctx.inst(M3)
        ev = [e for p in cw.paths(mg, {'$op': v}) for e in p]
        acc = any(e[0] in ('call', 'call*') and e[1] == 'SatAndSetAccAndFlag' for e in ev)
        if acc != (nm not in ('Mpy', 'Mpysu')):
            ctx.report(M3, mg, mg['body'], 'MulGeneric accumulate ' + nm, 'kind %s %s the previous product' % (nm, 'accumulates' if acc else 'does not accumulate'))
    pb = ctx.fn(I + 'ProductToBus40(Px) const')
    from .. import summ, boolform
    rets = summ.summary(ctx, pb, asserts='ignore').returns()
    U = '(call Px::Index on $0 )'
    PS = '([] (. f:Teakra::Interpreter::regs %s::ps) %s)' % (RS, U)
    SRC = '(| (<< ([] (. f:Teakra::Interpreter::regs %s::pe) %s) 32) ([] (. f:Teakra::Interpreter::regs %s::p) %s))' % (RS, U, RS, U)
    WANTP = {0: '(call SignExtend<33U, unsigned long> %s)' % SRC, 1: '(call SignExtend<32U, unsigned long> (>> %s 1))' % SRC,
             2: '(call SignExtend<34U, unsigned long> (<< %s 1))' % SRC, 3: '(call SignExtend<35U, unsigned long> (<< %s 2))' % SRC}
    for ps, w in WANTP.items():
        ctx.inst(M3)
        got = []
        for val, cond in rets.items():
            t = boolform.eval_selector(cond, PS, ps)
            if t is None:
                raise AnalysisBroken('C04: ProductToBus40 selects on something other than ps[unit]: ' + boolform.show(cond)[:160])
            if t:
                got.append(val)
        if got != [w]:
            ctx.report(M3, pb, pb['body'], 'ProductToBus40 ps=%d' % ps, 'product shift mode %d yields %s, the architecture says %s' % (ps, [g[:120] for g in got], w[:120]))
    dm = ctx.fn(I + 'DoMultiplication(unsigned int,bool,bool)')
    ctx.inst(M3)
    from .. import summ, boolform
    A, N, allf, anyf = boolform.A, boolform.neg, boolform.all_of, boolform.any_of
    SM = summ.summary(ctx, dm, asserts='ignore')
    H = '(. f:Teakra::Interpreter::regs %s::hwm)' % RS

    def eq(x, c):
        if c == 0:
            return N(A(x))          # canonical form of x == 0
        return A('(== %s %s)' % tuple(sorted([x, str(c)])))
    HI = anyf(eq(H, 1), allf(eq(H, 3), eq('$0', 0)))
    LO = allf(N(HI), anyf(eq(H, 2), allf(eq(H, 3), eq('$0', 1))))
    FULL = allf(N(HI), N(LO))
    X0 = '([] (. f:Teakra::Interpreter::regs %s::x) $0)' % RS
    Y0 = '([] (. f:Teakra::Interpreter::regs %s::y) $0)' % RS
    P0 = '([] (. f:Teakra::Interpreter::regs %s::p) $0)' % RS
    PE0 = '([] (. f:Teakra::Interpreter::regs %s::pe) $0)' % RS

    def sx(v):
        return '(call SignExtend<16U, unsigned int> %s)' % v
    want = {}
    for ysel, yv in ((HI, '(>> %s 8)' % Y0), (LO, '(& %s)' % ' '.join(sorted([Y0, '255']))), (FULL, Y0)):
        for xs in (True, False):
            for ys in (True, False):
                val = '(* %s)' % ' '.join(sorted([sx(X0) if xs else X0, sx(yv) if ys else yv]))
                c = allf(ysel, A('$1') if xs else N(A('$1')), A('$2') if ys else N(A('$2')))
                want[val] = anyf(want.get(val, boolform.F_), c)
    got = {}
    pe = {}
    for e, c in SM.effect_conditions(lambda e: e[0] == 'write').items():
        if e[1] == P0 and e[2] == '=':
            got[e[3]] = anyf(got.get(e[3], boolform.F_), c)
        elif e[1] == PE0 and e[2] == '=':
            key = '0' if e[3] == '0' else ('p>>31' if e[3].startswith('(>> ') and e[3].endswith(' 31)') else e[3])
            pe[key] = anyf(pe.get(key, boolform.F_), c)
        else:
            got['<write to %s>' % e[1][-40:]] = c
    ok = set(got) == set(want) and all(boolform.equivalent(got[k], want[k]) is True for k in want)
    signed = anyf(A('$1'), A('$2'))
    ok = ok and set(pe) == {'0', 'p>>31'} and boolform.equivalent(pe['0'], N(signed)) is True and boolform.equivalent(pe['p>>31'], signed) is True
    if not ok:
        ctx.report(M3, dm, dm['body'], 'DoMultiplication', 'factor selection / sign extension / product store differ from x * y with hwm 1: y >> 8, 2: y & 0xFF, 3: per unit: '
                   + str({k[:90]: boolform.show(v)[:90] for k, v in list(got.items())[:4]})[:400])
    # ---- M4
    moda = ctx.fn(I + 'Moda(ModaOp,RegName,EnumAllOperand<CondValue>)')
    men = {e['name']: e['v'] for e in ctx.F['enums']['ModaOp']['enumerators']}
    sw = [x for x in walk(moda['body']) if x.get('k') == 'switch']
    got = {}
    rm = Renderer(moda)
    for arm in switch_arms(sw[0]):
        calls = [[rm.r(a) for a in c['args']] for st in arm['stmts'] for c in walk(st) if c.get('k') == 'call' and c.get('name') == 'ShiftBus40']
        for l in arm['labels']:
            got[l] = calls
    for nm, lit in (('Shr', '65535'), ('Shr4', '65532'), ('Shl', '1'), ('Shl4', '4')):
        ctx.inst(M4)
        w = [['(call Teakra::Interpreter::GetAcc on this $1)', lit, '$1']]
        if got.get(men[nm]) != w:
            ctx.report(M4, moda, sw[0], 'Moda ' + nm, 'shift %s calls ShiftBus40%s, expected (GetAcc(a), %s, a)' % (nm, got.get(men[nm]), lit))
    for nm in ('shfc', 'shfi', 'movs', 'movsi', 'tst4b'):
        fs = [f for f in interp_functions(ctx) if f['name'] == nm]
        for f in fs:
            if nm == 'tst4b' and len(f['params']) == 2:
                continue
            ctx.inst(M4)
            ctx.touch(f)
            if not any(c.get('k') == 'call' and c.get('name') == 'ShiftBus40' for c in walk(f['body'])):
                ctx.report(M4, f, f['body'], '%s/%d' % (nm, len(f['params'])), 'shift instruction does not go through ShiftBus40')
    sb = ctx.fn(I + 'ShiftBus40(unsigned long,unsigned short,RegName)')
    rsb = Renderer(sb, inline_locals=False)
    ctx.inst(M4)
    t = rsb.s(sb['body'])
    # saturation keeps the original sign: the min/max choice depends on a value captured before the shift
    sign_vars = [v['name'] for v in walk(sb['body']) if v.get('k') == 'var' and rsb.r(v.get('init')) == '(>> $0 39)']
    first = sb['body']['body'][0] if sb['body'].get('body') else {}
    ok = bool(sign_vars) and rsb.s(first) in ('(&= $0 1099511627775)',)
    if ok:
        sv = sign_vars[0]
        sel = [x for x in walk(sb['body']) if x.get('k') == 'cond' and rsb.r(x['c']) in ('(== l:%s 1)' % sv, 'l:%s' % sv, '(!= l:%s 0)' % sv, '(== 1 l:%s)' % sv)]
        sat = [x for x in sel if sorted([const_value(x['a']) or 0, const_value(x['b']) or 0]) == [0x7FFFFFFF, 0xFFFFFFFF80000000]]
        ok = len(sat) == 1 and const_value(sat[0]['a']) == 0xFFFFFFFF80000000
    if not ok:
        ctx.report(M4, sb, sb['body'], 'ShiftBus40 saturation sign', 'the saturation bound is not chosen by the sign the value had before the shift')
    ctx.sample({'ps': 2, 'shift': '<< 1', 'sign-extension': 34})
    ctx.assumptions += ['exact 33-bit products, shift results, carry / overflow and exponent counts are numerical and are not decided']
