"""C16 - audio FIFO: every queued word is output once, in order, one frame per period (structural parts)."""
from .. import mmio
from ..facts import AnalysisBroken
from ..astq import walk, walk_parents, field_path, unwrap_casts, const_value, direct_writes
from ..guards import guards_at
from ..norm import render, render_stmt, Renderer, short_fn

B = 'Teakra::Btdmp'
Q = 'f:Teakra::Btdmp::transmit_queue'
QT = 'std::queue<unsigned short, std::deque<unsigned short, std::allocator<unsigned short>>>'


def queue_ops(f, r):
    """[(kind, node)] kind in push/pop/clear for mutations of transmit_queue"""
    out = []
    for n in walk(f['body']):
        if n.get('k') == 'call' and n.get('obj') is not None and field_path(n['obj']) == (B, 'transmit_queue', None):
            if n.get('name') in ('push', 'pop', 'emplace'):
                out.append(('push' if n['name'] != 'pop' else 'pop', n))
        elif n.get('k') == 'opcall' and n.get('op') == '=' and n.get('args') and field_path(n['args'][0]) == (B, 'transmit_queue', None):
            out.append(('clear', n))
    return out


def block_after(f, node):
    """statements that follow `node` in its innermost enclosing block"""
    for x, parents in walk_parents(f['body']):
        if x is node:
            for p in reversed(parents):
                if p.get('k') == 'block':
                    body = p['body']
                    for i, s in enumerate(body):
                        if s is node or any(y is node for y in walk(s)):
                            return body[i + 1:]
    return []


def run(ctx):
    Q1, Q2, Q3, Q4 = 'C16.Q1', 'C16.Q2', 'C16.Q3', 'C16.Q4'
    ctx.rule(Q1, 'flag maintenance: every mutation of the transmit queue is followed, in the same block, by consistent updates of '
                 'transmit_full and transmit_empty (push: empty = false, full = size == 16; pop in Tick: empty = queue.empty(), '
                 'full = false; clear: empty = true, full = false; pop in Skip, which must not drain the queue: '
                 'ASSERT(!queue.empty()) and full = false)', floor=5)
    ctx.rule(Q2, 'capacity: the drop test of Send and the full computation use the same bound 16; a send to a full queue changes '
                 'nothing', floor=2)
    ctx.rule(Q3, 'frame shape: Tick and Skip build a frame from two consecutive front()/pop() with zero fill and make one '
                 'audio_callback call per frame; the empty interrupt is raised only in Tick, right after a pop, conditional on the '
                 'queue having become empty; flush raises nothing', floor=4)
    ctx.rule(Q4, 'guards and horizon: Tick / Skip do nothing and GetMaxSkip is Infinity while transmission is disabled; the horizon '
                 'is Infinity for an empty queue and otherwise stops before the frame that empties it ((size+1)/2 - 1 full periods '
                 'after the next frame)', floor=4)
    fns = {}
    for n, s_ in (('Send', 'Send(unsigned short)'), ('Tick', 'Tick()'), ('Skip', 'Skip(unsigned long)'), ('GetMaxSkip', 'GetMaxSkip() const'),
                  ('SetTransmitFlush', 'SetTransmitFlush(unsigned short)'), ('Reset', 'Reset()')):
        fns[n] = ctx.fn('%s::%s' % (B, s_))
    EMPTY = '(call %s::empty on %s )' % (QT, Q)
    SIZE = '(call %s::size on %s )' % (QT, Q)
    FULL = 'f:Teakra::Btdmp::transmit_full'
    EMP = 'f:Teakra::Btdmp::transmit_empty'
    n_ops = 0
    for name, f in fns.items():
        r = Renderer(f, inline_locals=False)
        for kind, node in queue_ops(f, r):
            n_ops += 1
            ctx.inst(Q1)
            after = [r.s(s) for s in block_after(f, node)]
            inst = '%s %s' % (name, kind)
            if kind == 'push':
                need = ['(= %s 0)' % EMP, '(= %s (== %s 16))' % (FULL, SIZE), '(= %s (== 16 %s))' % (FULL, SIZE)]
                if need[0] not in after or not (need[1] in after or need[2] in after):
                    ctx.report(Q1, f, node, inst, 'push is not followed by empty = false and full = (size == 16): %s' % after)
            elif kind == 'clear':
                # flags may be set before or after the clearing assignment (Reset sets them first)
                whole = [r.s(s) for s in f['body'].get('body', [])]
                if '(= %s 1)' % EMP not in whole or '(= %s 0)' % FULL not in whole:
                    ctx.report(Q1, f, node, inst, 'clearing the queue is not followed by empty = true, full = false: %s' % after)
            elif kind == 'pop' and name == 'Skip':
                if '(assert (! %s))' % EMPTY not in after or '(= %s 0)' % FULL not in after:
                    ctx.report(Q1, f, node, inst, 'a pop during fast-forward must assert the queue stays non-empty and clear the full flag: %s' % after)
            elif kind == 'pop':
                if '(= %s %s)' % (EMP, EMPTY) not in after or '(= %s 0)' % FULL not in after:
                    ctx.report(Q1, f, node, inst, 'pop is not followed by empty = queue.empty() and full = false: %s' % after)
    ctx.require(n_ops >= 5, 'transmit queue mutations found: %d' % n_ops)
    # nobody else touches the queue or the flags
    for fid, g in ctx.F['functions'].items():
        if g.get('cls') == B and g['name'] not in fns and not g.get('ctor') and not g.get('dtor'):
            for p, n, how in direct_writes(g.get('body')):
                if p[1] in ('transmit_full', 'transmit_empty', 'transmit_queue'):
                    ctx.report(Q1, g, n, g['name'] + ' ' + p[1], 'FIFO state written outside Send / Tick / Skip / flush / Reset')
    # ---- Q2
    f = fns['Send']
    r = Renderer(f, inline_locals=False)
    ctx.inst(Q2)
    top = [s for s in f['body'].get('body', []) if s.get('k') == 'if']
    ok = len(top) == 1 and r.r(top[0]['cond']) in ('(== %s 16)' % SIZE, '(== 16 %s)' % SIZE, '(<= 16 %s)' % SIZE)
    if not ok:
        ctx.report(Q2, f, f['body'], 'Send drop test', 'writes to a full queue are not dropped under size == 16: ' + (r.r(top[0]['cond']) if top else 'no test'))
    else:
        drop = top[0]['then']
        if list(direct_writes(drop)) or queue_ops({'body': drop}, r):
            ctx.report(Q2, f, drop, 'Send drop arm', 'a send to a full queue modifies FIFO state')
        # the accepting arm: the else branch, or - when the drop arm returns early - what follows the test
        from ..guards import _always_exits
        if top[0].get('else') is not None:
            accept = top[0]['else']
        elif _always_exits(drop):
            stmts_ = f['body'].get('body', [])
            accept = {'k': 'block', 'body': stmts_[[i for i, x in enumerate(stmts_) if x is top[0]][0] + 1:]}
        else:
            accept = {}
        if not any(k == 'push' for k, n in queue_ops({'body': accept}, r)):
            ctx.report(Q2, f, f['body'], 'Send push arm', 'the accepting arm does not push the word')
        for k, n in queue_ops({'body': accept}, r):
            if k == 'push' and [r.r(a) for a in n.get('args', [])] != ['$0']:
                ctx.report(Q2, f, n, 'Send value', 'the queued word is not the written value')
    ctx.inst(Q2)
    # ---- Q3 frame shape
    for name in ('Tick', 'Skip'):
        f = fns[name]
        r = Renderer(f, inline_locals=False)
        ctx.inst(Q3)
        loops = [n for n in walk(f['body']) if n.get('k') in ('for', 'rangefor') and any(k == 'pop' for k, _ in queue_ops({'body': n}, r))]
        loops = [n for n in loops if not any(m is not n and any(x is m for x in walk(n)) for m in loops)]
        if len(loops) != 1:
            ctx.report(Q3, f, f['body'], name + ' frame loop', 'expected one two-word frame loop, found %d' % len(loops))
            continue
        lp = loops[0]
        sample = [v['name'] for v in walk(f['body']) if v.get('k') == 'var' and 'std::array<short, 2>' in v.get('t', '')]
        sv = sample[0] if sample else 'sample'
        # two words per frame: a counting loop over two values, or a loop over the two-element frame itself
        from ..loops import loop_range
        two = False
        if lp.get('k') == 'for':
            rng = loop_range(f, lp)
            if rng is not None:
                two = len(range(rng[1], rng[2], rng[3])) == 2
            else:
                raise AnalysisBroken('C16: %s: the frame loop is not a counting loop the analysis can bound: %s' % (name, r.r(lp.get('cond'))[:120]))
        elif lp.get('k') == 'rangefor':
            two = r.r(lp.get('range')) == 'l:' + sv
            if not two:
                raise AnalysisBroken('C16: %s: the frame loop ranges over %s' % (name, r.r(lp.get('range'))[:80]))
        if not two:
            ctx.report(Q3, f, lp, name + ' frame loop bounds', 'a frame is not built from exactly two words: ' + r.s(lp)[:120])
        # per word: empty ? 0 : front() then pop() - as guarded effects of the loop body, whatever the phrasing
        from .. import summ, boolform
        SMb = summ.summary_of(ctx, f, [lp['body']] if lp.get('body') is not None else [])
        EA = boolform.A(EMPTY)
        FRONT = '(call %s::front on %s )' % (QT, Q)
        POP = '(call %s::pop on %s )' % (QT, Q)
        okb = True
        seen_empty = seen_word = False
        ev_ = 'l:' + str((lp.get('var') or {}).get('name')) if lp.get('k') == 'rangefor' else None      # the frame element of a range-for
        for cond, seq, p_ in SMb.effect_sequences(lambda e: e[0] == 'write' and ('l:' + sv in e[1] or 'elem@' in e[1] or e[1].startswith('(* ') or e[1] == ev_) or (e[0] == 'call' and e[1] in (POP,))):
            if boolform.implies(cond, EA) is True:
                seen_empty = True
                if [e for e in seq if e[0] == 'write'] and [e[3] for e in seq if e[0] == 'write'] != ['0'] or any(e[0] == 'call' for e in seq):
                    okb = False
            elif boolform.implies(cond, boolform.neg(EA)) is True:
                seen_word = True
                kinds = [(e[0], e[3] if e[0] == 'write' else e[1]) for e in seq]
                if kinds[:2] != [('write', FRONT), ('call', POP)]:
                    okb = False
            else:
                okb = False
        if not (okb and seen_empty and seen_word):
            ctx.report(Q3, f, lp, name + ' frame body', 'frame word is not `empty ? 0 : front(); pop()`: ' + r.s(lp['body'])[:300])
        # exactly one audio callback per frame, after the word loop, with the frame
        inv = [n for n in walk(f['body']) if n.get('k') == 'opcall' and n.get('op') == '()' and field_path(n['args'][0]) == (B, 'audio_callback', None)]
        if len(inv) != 1 or r.r(inv[0]['args'][1]) != 'l:' + sv or any(x is inv[0] for x in walk(lp)):
            ctx.report(Q3, f, f['body'], name + ' audio callback', 'the frame is not handed to audio_callback exactly once after the word loop')
        elif not any(s is lp for s in walk({'k': 'block', 'body': []})) and False:
            pass
        else:
            aft = block_after(f, lp)
            if not any(any(x is inv[0] for x in walk(s)) for s in aft):
                ctx.report(Q3, f, inv[0], name + ' audio callback order', 'audio callback does not follow the frame loop in the same block')
    # empty interrupt
    sites = []
    for name, f in fns.items():
        for n in walk(f['body']):
            if n.get('k') == 'opcall' and n.get('op') == '()' and field_path(n['args'][0]) == (B, 'interrupt_handler', None):
                sites.append((name, f, n))
    ctx.inst(Q3)
    if [s[0] for s in sites] != ['Tick']:
        ctx.report(Q3, fns['Tick'], fns['Tick']['body'], 'empty interrupt sites', 'the empty interrupt is raised in %s, expected in Tick only' % [s[0] for s in sites])
    else:
        name, f, n = sites[0]
        r = Renderer(f, inline_locals=False)
        g = {(r.r(c), pol) for c, pol, s in guards_at(f['body'], n)}
        if (EMP, True) not in g or (EMPTY, False) not in g:
            ctx.report(Q3, f, n, 'empty interrupt guard', 'the interrupt is not conditional on the pop having emptied the queue: %s' % sorted(g))
    ctx.inst(Q3)
    # a flush only empties the FIFO: it must not touch the sample period (the next frame is still due one period after
    # the previous one) or anything else
    from ..cases import observation_only_fields
    fw = {p[1] for p, n, how in direct_writes(fns['SetTransmitFlush']['body'])} - observation_only_fields(ctx.F, B)
    if not fw <= {'transmit_queue', 'transmit_empty', 'transmit_full'}:
        ctx.report(Q3, fns['SetTransmitFlush'], fns['SetTransmitFlush']['body'], 'flush effects',
                   'flushing changes %s besides the queue and its flags' % sorted(fw - {'transmit_queue', 'transmit_empty', 'transmit_full'}))
    if any(n.get('k') == 'opcall' and n.get('op') == '()' for n in walk(fns['SetTransmitFlush']['body'])):
        ctx.report(Q3, fns['SetTransmitFlush'], fns['SetTransmitFlush']['body'], 'flush', 'flushing invokes a callback')
    # ---- Q4
    from ..cases import CaseWalker
    cw = CaseWalker(ctx.F, B)
    for name in ('Tick', 'Skip'):
        ctx.inst(Q4)
        ps = cw.paths(fns[name], {'transmit_enable': 0})
        if any(e[0] in ('assign', 'invoke', 'method') for p in ps for e in p):
            ctx.report(Q4, fns[name], fns[name]['body'], name + ' disabled', 'a disabled transmitter still changes state')
    f = fns['GetMaxSkip']
    from .. import summ, boolform
    ctx.inst(Q4)
    SM = summ.summary(ctx, f, asserts='ignore')
    rets = SM.returns()
    INF = '18446744073709551615'
    EN, EMPTYA = boolform.A('f:Teakra::Btdmp::transmit_enable'), boolform.A(EMPTY)
    LT = boolform.A('(< f:Teakra::Btdmp::transmit_timer f:Teakra::Btdmp::transmit_period)')
    idle = boolform.any_of(boolform.neg(EN), EMPTYA)
    if boolform.equivalent(rets.get(INF, boolform.F_), idle) is not True:
        ctx.report(Q4, f, f['body'], 'GetMaxSkip guard', 'horizon is not Infinity exactly when disabled or empty: Infinity when %s'
                   % boolform.show(rets.get(INF, boolform.F_))[:200])
    ctx.inst(Q4)

    def fl(op, *args):
        return '(%s %s)' % (op, ' '.join(sorted(args)))
    PER, TIM = 'f:Teakra::Btdmp::transmit_period', 'f:Teakra::Btdmp::transmit_timer'
    REST = '(sum %s | 1 %s)' % (PER, TIM)        # period - timer - 1 in the linear normal form of the renderer
    FRAMES = fl('*', '(- (/ %s 2) 1)' % fl('+', SIZE, '1'), PER)
    want = {fl('+', REST, FRAMES): boolform.all_of(boolform.neg(idle), LT), FRAMES: boolform.all_of(boolform.neg(idle), boolform.neg(LT))}
    others = {k: v for k, v in rets.items() if k != INF}
    # (computed in one type throughout, the whole sum is one linear form: frames + period - timer - 1)
    ONE = '(sum %s | 1 %s)' % (' '.join(sorted([FRAMES, PER])), TIM)
    if ONE in others:
        others[fl('+', REST, FRAMES)] = others.pop(ONE)
    if set(others) != set(want) or any(boolform.equivalent(others[k], want[k]) is not True for k in want):
        ctx.report(Q4, f, f['body'], 'GetMaxSkip horizon', 'horizon is not (period - timer - 1 if timer < period) + ((size + 1) / 2 - 1) * period: %s'
                   % {k[:160]: boolform.show(v)[:120] for k, v in others.items()})
    ctx.sample({'function': 'Btdmp::Skip', 'after pop': ['ASSERT(!queue.empty())', 'transmit_full = false']})
    ctx.assumptions += ['no loss / duplication / reordering over all interleavings and frame-period exactness are history properties with '
                        'timer arithmetic and are not decided']
