"""C10 - address registers step linearly, modulo or bit-reversed exactly as configured (structural parts)."""
import json
import os

from .. import summ, boolform
from ..astq import walk, walk_parents, field_path, unwrap_casts, const_value, direct_writes, direct_reads
from ..guards import guards_at
from ..norm import render, render_stmt, Renderer, short_fn
from ..sib import switch_arms

I = 'Teakra::Interpreter::'
RS = 'Teakra::RegisterState'
REGS = '(. f:Teakra::Interpreter::regs %s::' % RS
HELPERS = ('RnAddressAndModify', 'RnAndModify', 'RnAddress', 'OffsetAddress', 'StepAddress')


def interp_functions(ctx):
    return [f for f in ctx.F['functions'].values() if f.get('cls') == 'Teakra::Interpreter' and not f.get('lambda') and f.get('body')]


def bindings(f):
    """name -> (producer function short name, component index, call node) for structured bindings / std::tie of tuple results"""
    out = {}
    for n in walk(f['body']):
        if n.get('k') == 'var' and n.get('bindings') and isinstance(n.get('init'), dict):
            call = None
            for c in walk(n['init']):
                if c.get('k') == 'call' and c.get('cls') == 'Teakra::Interpreter':
                    call = c
                    break
            if call:
                for i, b in enumerate(n['bindings']):
                    out[b] = (call.get('name'), i, call)
        if n.get('k') == 'opcall' and n.get('op') == '=' and len(n.get('args', [])) == 2:
            lhs = unwrap_casts(n['args'][0])
            while isinstance(lhs, dict) and lhs.get('k') == 'construct' and lhs.get('args'):
                lhs = unwrap_casts(lhs['args'][0])
            if isinstance(lhs, dict) and lhs.get('k') == 'call' and str(lhs.get('fn', '')).startswith('std::tie'):
                call = None
                for c in walk(n['args'][1]):
                    if c.get('k') == 'call' and c.get('cls') == 'Teakra::Interpreter':
                        call = c
                        break
                if call:
                    for i, a in enumerate(lhs.get('args', [])):
                        a = unwrap_casts(a)
                        if isinstance(a, dict) and a.get('k') == 'ref' and a.get('dk') == 'local':
                            out[a['name']] = (call.get('name'), i, call)
    return out


def local_inits(f):
    out = {}
    for n in walk(f['body']):
        if n.get('k') == 'var' and 'init' in n and not n.get('bindings'):
            out[n['name']] = n['init']
    return out


def run(ctx):
    A1, A2, A3, A4, A5 = ('C10.A%d' % i for i in range(1, 6))
    ctx.rule(A1, 'post-modification: RnAndModify returns on every path the value loaded from regs.r[unit] before any store to it; '
                 'RnAddressAndModify is RnAddress(unit, RnAndModify(unit, step, dmod)); handlers address memory only through the '
                 'address helpers, the stack pointer, or the listed direct forms', floor=150)
    ctx.rule(A2, 'bit reversal affects the address only: BitReverse is applied in RnAddress to the returned value under '
                 'br[unit] && !m[unit], and stored to regs.r[] only by the three bitrev instructions; the modulo registers are '
                 'read for arithmetic only in StepAddress / OffsetAddress', floor=5)
    ctx.rule(A3, 'step table (T-rule): StepAddress maps each StepValue to its literal step (0, 1, 0xFFFF, +-2) with the mode1/mode2 '
                 'markers, and a zero step returns the address unchanged', floor=8)
    ctx.rule(A4, 'end-pointer mode: zeroing happens exactly under (unit == 3 && epi) || (unit == 7 && epj) and excludes the four '
                 '+-2 step kinds', floor=1)
    ctx.rule(A5, 'unit agreement: in every handler the i / j components of GetArpRnUnit, GetArpStep and GetArpOffset are used '
                 'together (i with i, j with j); OffsetAddress and RnAddress receive the value produced for the same unit', floor=60)
    F = ctx.F['functions']
    # ---- A1
    f = ctx.fn(I + 'RnAndModify(unsigned int,StepValue,bool)')
    ctx.inst(A1)
    SM = summ.summary(ctx, f, asserts='ignore')
    RU = '([] %sr) $0)' % REGS
    STEP = '(call Teakra::Interpreter::StepAddress on this $0 %s $1 $2)' % RU
    rets = SM.returns()
    if set(rets) != {RU}:
        ctx.report(A1, f, f['body'], 'RnAndModify', 'the returned address is not the register value loaded before modification: returns %s' % sorted(rets))
    wr = SM.effect_conditions(lambda e: e[0] == 'write')
    for e in wr:
        if e[1] != RU:
            ctx.report(A1, f, f['body'], 'RnAndModify store', 'post-modification stores to something other than regs.r[unit]: %s' % e[1][:120])
    vals = {e[3] for e in wr if e[1] == RU}
    if not vals <= {'0', STEP} or STEP not in vals:
        ctx.report(A1, f, f['body'], 'RnAndModify step', 'the new value is not StepAddress(unit, regs.r[unit], step, dmod): %s' % sorted(vals))
    g = ctx.fn(I + 'RnAddressAndModify(unsigned int,StepValue,bool)')
    ctx.inst(A1)
    if render_stmt(g['body'], g) != '{(return (call Teakra::Interpreter::RnAddress on this $0 (call Teakra::Interpreter::RnAndModify on this $0 $1 $2)))}':
        ctx.report(A1, g, g['body'], 'RnAddressAndModify', 'is not RnAddress(unit, RnAndModify(unit, step, dmod))')
    # origins of data addresses
    table = json.load(open(os.path.join(os.path.dirname(os.path.dirname(os.path.abspath(__file__))), 'tables', 'c10_direct.json')))['direct']
    n_addr = 0
    for h in interp_functions(ctx):
        if h['name'] in HELPERS or h['name'] in ('Run',):
            continue
        inits = local_inits(h)
        rh = Renderer(h, inline_locals=False)
        for n in walk(h['body']):
            if not (n.get('k') == 'call' and n.get('name') in ('DataRead', 'DataWrite') and n.get('cls') == 'Teakra::MemoryInterface'):
                continue
            n_addr += 1
            ctx.inst(A1)
            ctx.touch(h)
            a = unwrap_casts(n['args'][0])
            seen = 0
            while isinstance(a, dict) and a.get('k') == 'ref' and a.get('dk') == 'local' and a['name'] in inits and seen < 5:
                a = unwrap_casts(inits[a['name']])
                seen += 1
            t = rh.r(a)
            origin = None
            if isinstance(a, dict) and a.get('k') == 'call' and a.get('name') in ('RnAddressAndModify', 'RnAddress', 'OffsetAddress'):
                origin = 'helper'
            elif 'Teakra::RegisterState::sp)' in t and ('(-- ' in t or '(post++ ' in t):
                origin = 'stack'
            elif isinstance(a, dict) and a.get('k') == 'un' and a.get('op') in ('--', 'post++') and rh.r(a.get('e')).startswith('$'):
                origin = 'cursor parameter'
            elif isinstance(a, dict) and a.get('k') == 'ref' and a.get('dk') in ('binding',):
                origin = 'binding'
            elif isinstance(a, dict) and a.get('k') == 'ref' and a.get('dk') == 'parm':
                origin = 'parameter'
            if origin is None:
                key = '%s|%s' % (short_fn(h['id']).split('::')[-1], t[:80])
                if h['name'] in table or key in table:
                    continue
                ctx.report(A1, h, n, '%s address' % short_fn(h['id'])[-40:], 'data address does not come from the address helpers / stack pointer / a listed direct form: ' + t[:160])
    ctx.require(n_addr >= 150, 'data accesses in handlers: %d' % n_addr)
    # ---- A2
    n_br = 0
    for h in interp_functions(ctx):
        for n in walk(h['body']):
            if n.get('k') == 'call' and n.get('name') == 'BitReverse':
                n_br += 1
                ctx.inst(A2)
                if h['name'] == 'RnAddress':
                    continue
                if h['name'] in ('bitrev', 'bitrev_dbrv', 'bitrev_ebrv'):
                    continue
                ctx.report(A2, h, n, short_fn(h['id'])[-40:] + ' BitReverse', 'bit reversal outside RnAddress / the bitrev instructions')
    ctx.require(n_br == 4, 'BitReverse call sites: %d' % n_br)
    f = ctx.fn(I + 'RnAddress(unsigned int,unsigned int)')
    ctx.inst(A2)
    SM = summ.summary(ctx, f)
    BR, MM = boolform.A('([] %sbr) $0)' % REGS), boolform.A('([] %sm) $0)' % REGS)
    REV = boolform.all_of(BR, boolform.neg(MM))
    rets = SM.returns()
    if set(rets) != {'$1', '(call BitReverse $1)'} or boolform.equivalent(rets['(call BitReverse $1)'], REV) is not True \
            or boolform.equivalent(rets['$1'], boolform.neg(REV)) is not True:
        ctx.report(A2, f, f['body'], 'RnAddress', 'the effective address is not value, bit-reversed iff br[unit] && !m[unit]: %s'
                   % {k: boolform.show(v)[:120] for k, v in rets.items()})
    if any(p[1] == 'r' for p, n, how in direct_writes(f['body'])):
        ctx.report(A2, f, f['body'], 'RnAddress store', 'RnAddress modifies an address register')
    for h in interp_functions(ctx):
        for p, n in direct_reads(h['body']):
            if p[0] == RS and p[1] in ('modi', 'modj') and h['name'] not in ('StepAddress', 'OffsetAddress', 'banke'):
                ctx.inst(A2)
                ctx.report(A2, h, n, short_fn(h['id'])[-40:] + ' ' + p[1], 'modulo register read outside StepAddress / OffsetAddress')
    # ---- A3
    f = ctx.fn(I + 'StepAddress(unsigned int,unsigned short,StepValue,bool)')
    r = Renderer(f, inline_locals=False)
    sw = [n for n in walk(f['body']) if n.get('k') == 'switch' and r.r(n['cond']) == '$2']
    ctx.require(len(sw) == 1, 'StepAddress: switch over the step kind not found')
    en = {e['name']: e['v'] for e in ctx.F['enums']['StepValue']['enumerators']}
    # the locals are recognised by role, not by name: the step is the local given a constant in the arms, the two mode
    # markers are the (other) locals set to true in some arms
    per_arm = []
    for arm in switch_arms(sw[0]):
        asg = {}
        for st in arm['stmts']:
            for n in walk(st):
                if n.get('k') == 'assign' and n.get('op') == '=':
                    t_ = unwrap_casts(n.get('lhs'))
                    if isinstance(t_, dict) and t_.get('k') == 'ref' and t_.get('dk') == 'local':
                        cv_ = const_value(n.get('rhs'))
                        asg[t_['name']] = cv_ if cv_ is not None else 'expr'
        per_arm.append((arm, asg))
    from collections import Counter
    cnt = Counter(nm for arm, asg in per_arm for nm, v in asg.items() if isinstance(v, int) and not isinstance(v, bool))
    step_var = cnt.most_common(1)[0][0] if cnt else None
    flag_arms = {}
    for arm, asg in per_arm:
        for nm, v in asg.items():
            if nm != step_var:
                flag_arms.setdefault(nm, set()).update(arm['labels'])
    m1_var = next((nm for nm, ls in flag_arms.items() if en.get('Increase2Mode1') in ls), None)
    m2_var = next((nm for nm, ls in flag_arms.items() if en.get('Increase2Mode2') in ls), None)
    got = {}
    for arm, asg in per_arm:
        for l in arm['labels']:
            got[l] = (asg.get(step_var) if step_var in asg else [], bool(m1_var and m1_var in asg), bool(m2_var and m2_var in asg))
    WANT = {'Zero': (0, False, False), 'Increase': (1, False, False), 'Decrease': (0xFFFF, False, False),
            'Increase2Mode1': (2, True, False), 'Decrease2Mode1': (0xFFFE, True, False),
            'Increase2Mode2': (2, False, True), 'Decrease2Mode2': (0xFFFE, False, True)}
    for nm, w in WANT.items():
        ctx.inst(A3)
        if got.get(en[nm]) != w:
            ctx.report(A3, f, sw[0], 'StepAddress ' + nm, 'step kind %s gives (step, mode1, mode2) = %s, architecture says %s' % (nm, got.get(en[nm]), w))
    ctx.inst(A3)
    t = r.s(f['body'])
    if '(if (== l:%s 0) (return $1))' % step_var not in t and '(if (== 0 l:%s) (return $1))' % step_var not in t:
        ctx.report(A3, f, f['body'], 'StepAddress zero step', 'a zero step does not return the address unchanged')
    if '(+= $1 l:%s)' % step_var not in t:
        ctx.report(A3, f, f['body'], 'StepAddress linear', 'the non-modulo path is not address += s')
    # ---- A4
    f = ctx.fn(I + 'RnAndModify(unsigned int,StepValue,bool)')
    SM = summ.summary(ctx, f, asserts='ignore')
    ctx.inst(A4)
    RU = '([] %sr) $0)' % REGS
    z = [c for e, c in SM.effect_conditions(lambda e: e[0] == 'write' and e[1] == RU and e[3] == '0').items()]
    if len(z) != 1:
        ctx.report(A4, f, f['body'], 'end-pointer zeroing', 'expected exactly one zeroing store')
    else:
        def eq(a, b):
            return boolform.A('(== %s %s)' % tuple(sorted([a, b])))
        EP = boolform.any_of(boolform.all_of(eq('$0', '3'), boolform.A(REGS + 'epi)')), boolform.all_of(eq('$0', '7'), boolform.A(REGS + 'epj)')))
        NOT2 = boolform.all_of(*[boolform.neg(eq('$1', 'StepValue::' + k)) for k in ('Increase2Mode1', 'Decrease2Mode1', 'Increase2Mode2', 'Decrease2Mode2')])
        if boolform.equivalent(z[0], boolform.all_of(EP, NOT2)) is not True:
            ctx.report(A4, f, f['body'], 'end-pointer guard', 'zeroing happens under %s' % boolform.show(z[0])[:300])
    # ---- A5 unit agreement
    n_calls = 0
    for h in interp_functions(ctx):
        if h['name'] in HELPERS:
            continue
        b = bindings(h)
        inits = local_inits(h)
        rh = Renderer(h, inline_locals=False)

        def comp(e):
            e = unwrap_casts(e)
            if isinstance(e, dict) and e.get('k') == 'ref' and e.get('name') in b:
                return b[e['name']]
            return None

        def producer(e):
            """the helper call that produced a value (through single-assignment locals)"""
            e = unwrap_casts(e)
            seen = 0
            while isinstance(e, dict) and e.get('k') == 'ref' and e.get('dk') == 'local' and e['name'] in inits and seen < 4:
                e = unwrap_casts(inits[e['name']])
                seen += 1
            if isinstance(e, dict) and e.get('k') == 'call' and e.get('name') in ('RnAddressAndModify', 'RnAndModify', 'RnAddress', 'OffsetAddress'):
                return e
            return None
        for n in walk(h['body']):
            if not (n.get('k') == 'call' and n.get('name') in ('RnAddressAndModify', 'RnAndModify', 'OffsetAddress', 'RnAddress') and n.get('cls') == 'Teakra::Interpreter'):
                continue
            n_calls += 1
            ctx.inst(A5)
            ctx.touch(h)
            args = n['args']
            inst = '%s %s' % (short_fn(h['id'])[-36:], n['name'])
            cu = comp(args[0])
            if n['name'] in ('RnAddressAndModify', 'RnAndModify'):
                cs = comp(args[1])
                if cu and cs and cu[0] == 'GetArpRnUnit' and cs[0] == 'GetArpStep' and cu[1] != cs[1]:
                    ctx.report(A5, h, n, inst, 'register of the %s side is stepped with the step of the %s side' % ('ij'[cu[1]], 'ij'[cs[1]]))
            elif n['name'] == 'OffsetAddress':
                co = comp(args[2])
                if cu and co and cu[0] == 'GetArpRnUnit' and co[0] == 'GetArpOffset' and cu[1] != co[1]:
                    ctx.report(A5, h, n, inst, 'register of the %s side is offset with the offset of the %s side' % ('ij'[cu[1]], 'ij'[co[1]]))
                p = producer(args[1])
                if p is not None and rh.r(p['args'][0]) != rh.r(args[0]):
                    ctx.report(A5, h, n, inst, 'offset address of unit %s is computed from the address of unit %s' % (rh.r(args[0]), rh.r(p['args'][0])))
            elif n['name'] == 'RnAddress':
                p = producer(args[1])
                if p is not None and rh.r(p['args'][0]) != rh.r(args[0]):
                    ctx.report(A5, h, n, inst, 'RnAddress(unit %s) is applied to the value of unit %s (bit reversal of the wrong register)' % (rh.r(args[0]), rh.r(p['args'][0])))
        # producers of bindings use the handler's own operands in order
        for nm, (fn, idx, call) in b.items():
            if fn in ('GetArpStep', 'GetArpOffset') and len(call.get('args', [])) == 2:
                ctx.oblig(A5)
                a0, a1 = unwrap_casts(call['args'][0]), unwrap_casts(call['args'][1])
                while isinstance(a0, dict) and a0.get('k') == 'construct' and a0.get('args'):
                    a0 = unwrap_casts(a0['args'][0])
                while isinstance(a1, dict) and a1.get('k') == 'construct' and a1.get('args'):
                    a1 = unwrap_casts(a1['args'][0])
                if a0.get('k') == 'ref' and a1.get('k') == 'ref' and a0.get('dk') == 'parm' and a1.get('dk') == 'parm' and a0.get('idx', 0) > a1.get('idx', 0):
                    ctx.report(A5, h, call, '%s %s' % (short_fn(h['id'])[-36:], fn), 'i / j step operands are passed in reverse order')
    ctx.require(n_calls >= 150, 'address helper calls in handlers: %d' % n_calls)
    ctx.sample({'handler': 'cbs(ArpRn1,...)', 'rule': 'RnAddress(ui, aip) with aip = RnAndModify(ui, si)'})
    ctx.assumptions += ['the modulo and bit-reverse arithmetic of StepAddress over all configurations is numerical and not decided']
