"""C11 - DSP-side and host-side views of program and data memory are the same bytes."""
from ..astq import walk, field_path, unwrap_casts, const_value, direct_writes
from ..intervals import Intervals
from ..norm import render, render_stmt, Renderer, short_fn
from .widths import is_library

SM = 'Teakra::SharedMemory'
MI = 'Teakra::MemoryInterface'
MIU = 'Teakra::MemoryInterfaceUnit'
RAW = 'f:%s::raw' % SM


def run(ctx):
    F = ctx.F['functions']
    V1, V2, V3, V4, V5, V6 = ('C11.V%d' % i for i in range(1, 7))
    ctx.rule(V1, 'single access path: SharedMemory::raw is dereferenced only in ReadWord / WriteWord; its other uses are the '
                 'constructor, GetDspMemory and the Reset memset over exactly DspMemorySize bytes', floor=4)
    ctx.rule(V2, 'little endian, mirrored: both accessors use byte address 2*w with the low byte at +0 and the high byte at +1 '
                 '(low | high << 8 versus value & 0xFF / value >> 8)', floor=2)
    ctx.rule(V3, 'one translation: DataRead and DataWrite share the guard InMMIO(a) && !bypass_mmio and the two continuations '
                 '(ToMMIO -> mmio Read/Write; ConvertDataAddress -> ReadWord/WriteWord); the A32 accessors share one address '
                 'expression; ProgramRead / ProgramWrite pass the address unchanged; DSP program-memory forms build an 18-bit address', floor=8)
    ctx.rule(V4, 'layout constants agree: DataMemoryOffset 0x20000, bank 0x10000, MMIOSize 0x800, the DMA copy of the offset, the '
                 'A32 mask 2*bank-1, DspMemorySize = 2*(offset + 2*bank) = the owned array size; each ConvertDataAddress branch is '
                 'offset + a + page*bank under ASSERT(page < 2) of the same page register', floor=6)
    ctx.rule(V5, 'forwarding: every Teakra:: memory accessor forwards its arguments in order to the same-named MemoryInterface '
                 'method of the one memory_interface; the interpreter touches memory only through mem.*', floor=9)
    ctx.rule(V6, 'window test and reduction: InMMIO is mmio_base <= a < mmio_base + MMIOSize without truncation, ToMMIO and the '
                 'host MMIO accessors reduce modulo MMIOSize', floor=2)
    # ---- V1
    users = {}
    for fid, f in F.items():
        if not is_library(f):
            continue
        for n in walk(f.get('body')):
            if n.get('k') == 'mem' and n.get('name') == 'raw' and n.get('cls') == SM:
                users.setdefault(fid, []).append(n)
        for ini in f.get('inits', []) or []:
            if ini.get('member') == 'raw' and f.get('cls') == SM:
                users.setdefault(fid, [])
    for fid, ns in sorted(users.items()):
        ctx.inst(V1)
        f = F[fid]
        ctx.touch(f)
        sf = short_fn(fid)
        deref = [n for n in walk(f['body']) if n.get('k') == 'index' and render(n.get('base'), f) in (RAW, '(. (-> f:Teakra::Teakra::impl) Teakra::Teakra::Impl::shared_memory) %s::raw)' % SM)]
        if deref and sf not in (SM + '::ReadWord', SM + '::WriteWord'):
            ctx.report(V1, f, deref[0], sf + ' raw[]', 'DSP memory is indexed outside SharedMemory::ReadWord / WriteWord')
        if sf not in (SM + '::ReadWord', SM + '::WriteWord', SM + '::SharedMemory', 'Teakra::Teakra::GetDspMemory', 'Teakra::Teakra::Impl::Reset'):
            ctx.report(V1, f, ns[0] if ns else f['body'], sf + ' raw', 'the raw memory pointer is used in an unexpected function')
    rs = ctx.fn('Teakra::Teakra::Impl::Reset()')
    ctx.inst(V1)
    dsz = ctx.F['vars'].get('Teakra::DspMemorySize')
    RAWF = '(. f:Teakra::Teakra::Impl::shared_memory %s::raw)' % SM
    clears = []
    for n in walk(rs['body']):
        if n.get('k') != 'call':
            continue
        sf_ = short_fn(n.get('fn', ''))
        a_ = n.get('args', [])
        if sf_ in ('memset', 'std::memset') and len(a_) == 3:
            clears.append((render(a_[0], rs), const_value(a_[1]), const_value(a_[2])))
        elif sf_.startswith('std::fill_n') and len(a_) == 3:
            clears.append((render(a_[0], rs), const_value(a_[2]), const_value(a_[1])))     # one byte per element of raw
    if clears != [(RAWF, 0, 0x80000)] or not dsz or dsz.get('cv') != 0x80000:
        ctx.report(V1, rs, rs['body'], 'Reset memset', 'Reset does not clear exactly DspMemorySize (0x80000) bytes of the shared memory: %s' % clears)
    # ---- V2
    rw = ctx.fn(SM + '::ReadWord(unsigned int) const')
    ww = ctx.fn(SM + '::WriteWord(unsigned int,unsigned short)')
    ctx.inst(V2)
    want_r = '(return (| (<< ([] %s (+ (* $0 2) 1)) 8) ([] %s (* $0 2))))' % (RAW, RAW)
    def _x2(t_):
        # w << 1 is w * 2
        return t_.replace('(<< $0 1)', '(* $0 2)')
    tr = _x2(render_stmt(rw['body'], rw))
    if want_r not in tr and want_r.replace('(* $0 2)', '(* 2 $0)') not in tr:
        ctx.report(V2, rw, rw['body'], 'ReadWord', 'word is not raw[2w] | raw[2w+1] << 8: ' + tr[:200])
    ctx.inst(V2)
    tw = _x2(render_stmt(ww['body'], ww))
    a = '(= ([] %s (* $0 2)) (& $1 255))' % RAW
    b = '(= ([] %s (+ (* $0 2) 1)) (>> $1 8))' % RAW
    if not ((a in tw or a.replace('(* $0 2)', '(* 2 $0)').replace('(& $1 255)', '(& 255 $1)') in tw or a.replace('(& $1 255)', '(& 255 $1)') in tw) and (b in tw or b.replace('(* $0 2)', '(* 2 $0)') in tw)):
        ctx.report(V2, ww, ww['body'], 'WriteWord', 'bytes are not raw[2w] = value & 0xFF, raw[2w+1] = value >> 8: ' + tw[:250])
    # ---- V3
    dr = ctx.fn(MI + '::DataRead(unsigned short,bool)')
    dw = ctx.fn(MI + '::DataWrite(unsigned short,unsigned short,bool)')
    U = 'f:%s::memory_interface_unit' % MI
    from .. import summ, boolform
    INM = boolform.A('(call %s::InMMIO on %s $0)' % (MIU, U))
    for f, bp, mm, wd in ((dr, 1, '(call Teakra::MMIORegion::Read on f:%s::mmio (call %s::ToMMIO on %s $0))' % (MI, MIU, U),
                           '(call %s::ReadWord on f:%s::shared_memory (call %s::ConvertDataAddress on %s $0))' % (SM, MI, MIU, U)),
                          (dw, 2, '(call Teakra::MMIORegion::Write on f:%s::mmio (call %s::ToMMIO on %s $0) $1)' % (MI, MIU, U),
                           '(call %s::WriteWord on f:%s::shared_memory (call %s::ConvertDataAddress on %s $0) $1)' % (SM, MI, MIU, U))):
        ctx.inst(V3)
        SMy = summ.summary(ctx, f, asserts='ignore')
        MMIO_ARM = boolform.all_of(INM, boolform.neg(boolform.A('$%d' % bp)))
        eff = SMy.effect_conditions(lambda e: e[0] == 'call' and ('MMIORegion::' in e[1] or '%s::ReadWord' % SM in e[1] or '%s::WriteWord' % SM in e[1]))
        got = {e[1]: c for e, c in eff.items()}
        name = short_fn(f['id'])
        # accesses nested in one another render as separate calls; keep the outermost spelling of each arm
        mm_c = [c for t, c in got.items() if t == mm]
        wd_c = [c for t, c in got.items() if t == wd]
        others = [t for t in got if t not in (mm, wd)]
        if others:
            ctx.report(V3, f, f['body'], name + ' accesses', 'unexpected memory / MMIO access: %s' % [o[:120] for o in others][:2])
        if len(mm_c) != 1 or boolform.equivalent(mm_c[0], MMIO_ARM) is not True:
            ctx.report(V3, f, f['body'], name + ' guard', 'the MMIO region is not accessed exactly under InMMIO(address) && !bypass_mmio: %s'
                       % (boolform.show(mm_c[0])[:200] if mm_c else 'no MMIO access with ToMMIO(address)'))
        if len(wd_c) != 1 or boolform.equivalent(wd_c[0], boolform.neg(MMIO_ARM)) is not True:
            ctx.report(V3, f, f['body'], name + ' memory arm', 'DSP memory is not accessed through ConvertDataAddress(address) exactly when the MMIO arm is not taken '
                       '(the memory underneath the window must stay untouched): %s' % (boolform.show(wd_c[0])[:200] if wd_c else 'no such access'))
        if f is dr:
            rets = SMy.returns()
            if set(rets) != {mm, wd}:
                ctx.report(V3, f, f['body'], name + ' value', 'DataRead does not return what the selected arm read: %s' % [x[:100] for x in rets])
    ra = ctx.fn(MI + '::DataReadA32(unsigned int) const')
    wa = ctx.fn(MI + '::DataWriteA32(unsigned int,unsigned short)')
    ctx.inst(V3)
    A = '(+ (& $0 131071) 131072)'
    ta, tb = render_stmt(ra['body'], ra), render_stmt(wa['body'], wa)
    if '(return (call %s::ReadWord on f:%s::shared_memory %s))' % (SM, MI, A) not in ta or '(call %s::WriteWord on f:%s::shared_memory %s $1)' % (SM, MI, A) not in tb:
        ctx.report(V3, wa, wa['body'], 'DataReadA32/DataWriteA32', 'the 32-bit-address accessors do not share (address & (2*bank-1)) + DataMemoryOffset: %s / %s' % (ta[:160], tb[:160]))
    pr = ctx.fn(MI + '::ProgramRead(unsigned int) const')
    pw = ctx.fn(MI + '::ProgramWrite(unsigned int,unsigned short)')
    ctx.inst(V3)
    if render_stmt(pr['body'], pr) != '{(return (call %s::ReadWord on f:%s::shared_memory $0))}' % (SM, MI) or \
            render_stmt(pw['body'], pw) != '{(call %s::WriteWord on f:%s::shared_memory $0 $1)}' % (SM, MI):
        ctx.report(V3, pw, pw['body'], 'ProgramRead/ProgramWrite', 'program accessors do not pass the word address unchanged')
    # DSP program-memory forms: the address handed to ProgramRead/ProgramWrite must be able to reach all four 64K pages
    IV = Intervals(ctx.F, {('Teakra::RegisterState', 'pcmhi'): (0, 3), ('Teakra::RegisterState', 'prpage'): (0, 15)})
    n_pm = 0
    for fid, f in F.items():
        if f.get('cls') != 'Teakra::Interpreter' or f['name'] in ('Run',):
            continue
        for n in walk(f.get('body')):
            if n.get('k') == 'call' and n.get('name') in ('ProgramRead', 'ProgramWrite') and n.get('cls') == MI:
                n_pm += 1
                ctx.inst(V3)
                ctx.touch(f)
                iv = IV.iv(n['args'][0], f)
                if iv is None or iv[1] < 0x3FFFF:
                    ctx.report(V3, f, n, short_fn(fid)[-30:] + ' program address',
                               'the program address can only reach %s: the upper address bits (pcmhi / accumulator bits 16-17) are lost' % (iv,))
    ctx.require(n_pm >= 5, 'DSP program-memory accesses found: %d' % n_pm)
    # ---- V4
    vs = ctx.F['vars']
    ctx.inst(V4)
    consts = {k: (vs.get(k) or {}).get('cv') for k in (MIU + '::DataMemoryOffset', MIU + '::DataMemoryBankSize', MIU + '::MMIOSize', 'Teakra::DspMemorySize')}
    if list(consts.values()) != [0x20000, 0x10000, 0x800, 0x80000]:
        ctx.report(V4, ('src/memory_interface.h', MIU, 0), 0, 'layout constants', 'layout constants are %s' % consts)
    # the constant the DMA engine adds to a DSP-side address before it touches the shared memory (whatever it is called)
    dmo = set()
    n_dma = 0
    for fid_, g_ in ctx.F['functions'].items():
        if not (g_.get('cls') in ('Teakra::Dma::Channel', 'Teakra::Dma') and is_library(g_)):
            continue
        for n in walk(g_.get('body')):
            if n.get('k') == 'call' and n.get('cls') == SM and n.get('name') in ('ReadWord', 'WriteWord') and n.get('args'):
                n_dma += 1
                a_ = unwrap_casts(n['args'][0])
                k_ = None
                if isinstance(a_, dict) and a_.get('k') == 'bin' and a_.get('op') == '+':
                    for side in (a_.get('lhs'), a_.get('rhs')):
                        cv_ = const_value(unwrap_casts(side)) if isinstance(unwrap_casts(side), dict) else None
                        if cv_ is not None:
                            k_ = cv_
                dmo.add(k_)
    ctx.inst(V4)
    ctx.require(n_dma >= 4, 'DMA accesses to the shared memory not found (%d)' % n_dma)
    if dmo != {consts[MIU + '::DataMemoryOffset']}:
        ctx.report(V4, ('src/dma.cpp', 'Teakra::Dma::Channel::Tick', 0), 0, 'Dma DataMemoryOffset', 'the DMA engine places data memory at %s, the memory interface at 0x20000' % sorted(dmo, key=str))
    rec = ctx.record(SM)
    own = [fl for fl in rec['fields'] if fl['name'] == 'own_memory']
    ctx.inst(V4)
    if not own or '524288' not in own[0]['t']['s']:
        ctx.report(V4, ('src/shared_memory.h', SM, 0), 0, 'own_memory size', 'internally owned memory is not 0x80000 bytes')
    cda = ctx.fn(MIU + '::ConvertDataAddress(unsigned short) const')
    from .. import summ, boolform
    rets = summ.summary(ctx, cda).returns()
    ctx.require(len(rets) >= 1, 'ConvertDataAddress: no return value')
    PM = boolform.A('f:%s::page_mode' % MIU)
    seen_pages = set()
    for t, cond in rets.items():
        ctx.inst(V4)
        page = None
        for pg in ('x_page', 'y_page', 'z_page'):
            if t == '(+ $0 (* 65536 f:%s::%s) 131072)' % (MIU, pg):
                page = pg
        if page is None:
            ctx.report(V4, cda, cda['body'], 'ConvertDataAddress formula', 'data address is not DataMemoryOffset + addr + page * DataMemoryBankSize: ' + t)
            continue
        seen_pages.add(page)
        if boolform.implies(cond, boolform.A('(< f:%s::%s 2)' % (MIU, page))) is not True:
            ctx.report(V4, cda, cda['body'], 'ConvertDataAddress ' + page, 'the branch that uses %s does not assert %s < 2 (taken when %s)' % (page, page, boolform.show(cond)[:200]))
        if page == 'z_page' and boolform.implies(cond, boolform.neg(PM)) is not True:
            ctx.report(V4, cda, cda['body'], 'ConvertDataAddress mode', 'the z-page formula is not the page_mode == 0 branch')
        if page != 'z_page' and boolform.implies(cond, PM) is not True:
            ctx.report(V4, cda, cda['body'], 'ConvertDataAddress mode ' + page, 'the %s formula is not under page_mode != 0' % page)
    if 'z_page' not in seen_pages:
        ctx.report(V4, cda, cda['body'], 'ConvertDataAddress z_page', 'no page_mode == 0 translation through z_page')
    # ---- V5
    API = ['ProgramRead', 'ProgramWrite', 'DataRead', 'DataWrite', 'DataReadA32', 'DataWriteA32', 'MMIORead', 'MMIOWrite']
    for nm in API:
        c = [f for k, f in F.items() if k.startswith('Teakra::Teakra::%s(' % nm)]
        ctx.require(len(c) == 1, 'Teakra::%s not found' % nm)
        f = c[0]
        ctx.touch(f)
        ctx.inst(V5)
        args = ' '.join('$%d' % i for i in range(len(f['params'])))
        want = '(call %s::%s on (. (-> f:Teakra::Teakra::impl) Teakra::Teakra::Impl::memory_interface) %s)' % (MI, nm, args)
        if want not in render_stmt(f['body'], f):
            ctx.report(V5, f, f['body'], 'Teakra::' + nm, 'host accessor does not forward (%s) to MemoryInterface::%s' % (args, nm))
    f = ctx.fn('Teakra::Teakra::GetDspMemory()')
    ctx.inst(V5)
    if render_stmt(f['body'], f) != '{(return (. (. (-> f:Teakra::Teakra::impl) Teakra::Teakra::Impl::shared_memory) %s::raw))}' % SM:
        ctx.report(V5, f, f['body'], 'Teakra::GetDspMemory', 'raw pointer is not the shared memory block')
    # the facade owns one shared memory and one interface built on it
    rc = ctx.record('Teakra::Teakra::Impl')
    inits = {fl['name']: render(fl.get('init')) for fl in rc['fields'] if 'init' in fl}
    ctx.inst(V5)
    if 'f:Teakra::Teakra::Impl::shared_memory' not in inits.get('memory_interface', '') or 'f:Teakra::Teakra::Impl::shared_memory' not in inits.get('dma', ''):
        ctx.report(V5, ('src/teakra.cpp', 'Teakra::Teakra::Impl', 0), 0, 'one shared memory', 'memory interface / DMA are not built on the one shared_memory: %s' % {k: v[:80] for k, v in inits.items() if k in ('memory_interface', 'dma')})
    bad = 0
    for fid, f in F.items():
        if f.get('cls') == 'Teakra::Interpreter':
            for n in walk(f.get('body')):
                if n.get('k') == 'call' and n.get('cls') == SM:
                    ctx.report(V5, f, n, short_fn(fid)[-30:], 'the interpreter bypasses the memory interface')
    # ---- V6
    from .c12 import check_inmmio
    ctx.inst(V6)
    check_inmmio(ctx, V6)
    f = ctx.fn(MIU + '::ToMMIO(unsigned short) const')
    ctx.inst(V6)
    rets = [render(n['e'], f) for n in walk(f['body']) if n.get('k') == 'return']
    if rets != ['(& (- $0 f:%s::mmio_base) 2047)' % MIU]:
        ctx.report(V6, f, f['body'], 'ToMMIO', 'window offset is not (addr - mmio_base) & (MMIOSize - 1)')
    ctx.sample({'ReadWord': 'raw[2w] | raw[2w+1] << 8', 'DataRead': 'InMMIO(a) && !bypass ? mmio.Read(ToMMIO(a)) : ReadWord(ConvertDataAddress(a))'})
    ctx.assumptions += ['page mode 1 is checked for the same shape; its size semantics are untested upstream']
