"""C02 - every opcode decodes one way; all consumers agree on form and length.

Complete enumeration of the finite decode table as instantiated by the
compiler (R1), plus shape rules that tie the run-time matcher / dispatcher /
fetch loop to the model the enumeration uses (R0, R2, R3, R4)."""
from .. import decode
from ..astq import walk, walk_parents, const_value, unwrap_casts, field_path
from ..norm import render, render_stmt, short_fn, Renderer
from ..facts import AnalysisBroken, unit_kind

INTERP = 'Teakra::Interpreter'
DISASM = 'Teakra::Disassembler::Disassembler'
TESTGEN = 'Teakra::Test::TestGenerator'


def _ret_exprs(f):
    return [n['e'] for n in walk(f['body']) if n.get('k') == 'return' and n.get('e') is not None]


def submasks(free):
    s = free
    while True:
        yield s
        if s == 0:
            return
        s = (s - 1) & free


def r0_model(ctx, visitors):
    R = 'C02.R0'
    ctx.rule(R, 'run-time matcher/dispatcher have the shape the table model assumes '
                '(Matches, Rejects, Matcher ctor, Create, Except, Decode, GetDecoderTable, At::Extract)', floor=20)
    F = ctx.F['functions']
    # Rejector::Rejects
    f = ctx.fn('Rejector::Rejects(unsigned short) const')
    ctx.inst(R)
    got = render_stmt(f['body'], f)
    if got != '{(return (== (& $0 f:Rejector::mask) f:Rejector::unexpected))}':
        ctx.report(R, f, f['body'], 'Rejector::Rejects', 'Rejects is no longer (instruction & mask) == unexpected: ' + got)
    for v in visitors:
        M = 'Matcher<%s>' % v
        # Matches
        f = ctx.fn('%s::Matches(unsigned short) const' % M)
        ctx.inst(R)
        rets = _ret_exprs(f)
        ok = False
        if len(rets) == 1:
            e = unwrap_casts(rets[0])
            if e.get('k') == 'bin' and e.get('op') == '&&':
                sides = [render(e['lhs'], f), render(e['rhs'], f)]
                want = '(== (& $0 f:%s::mask) f:%s::expected)' % (M, M)
                if want in sides:
                    other = e['rhs'] if sides[0] == want else e['lhs']
                    other = unwrap_casts(other)
                    if other.get('k') == 'call' and short_fn(other.get('fn', '')).startswith('std::none_of'):
                        a = other.get('args', [])
                        if len(a) == 3 and 'begin on f:%s::rejectors' % M in render(a[0], f) \
                                and 'end on f:%s::rejectors' % M in render(a[1], f):
                            lam = None
                            for x in walk(a[2]):
                                if x.get('k') == 'lambda':
                                    lam = F.get(x['fn'])
                                    caps = x.get('caps', [])
                            if lam is not None:
                                body = render_stmt(lam['body'], lam, param_names=False)
                                # (return (call Rejector::Rejects on $0 <captured instruction>))
                                if body.startswith('{(return (call Rejector::Rejects on $0 ') and \
                                        len(caps) == 1 and caps[0].get('parm') == 0:
                                    ok = True
        if not ok:
            ctx.report(R, f, f['body'], M + '::Matches',
                       'Matches is not `(w & mask) == expected && none_of(rejectors, Rejects(w))`: '
                       + render_stmt(f['body'], f)[:300])
        # constructor stores parameter i in the field the model reads
        ctors = [x for x in F.values() if x.get('ctor') and x.get('cls') == M and len(x.get('params', [])) == 5]
        ctx.require(len(ctors) == 1, 'Matcher<%s> 5-argument constructor not found' % v)
        c = ctors[0]
        ctx.touch(c)
        ctx.inst(R)
        want = {'name': 0, 'mask': 1, 'expected': 2, 'expanded': 3, 'fn': 4}
        got = {}
        for ini in c.get('inits', []):
            idxs = [x.get('idx') for x in walk(ini.get('init')) if x.get('dk') == 'parm']
            if ini.get('member'):
                got[ini['member']] = idxs[0] if len(idxs) == 1 else None
        for m, i in want.items():
            if got.get(m) != i:
                ctx.report(R, c, c.get('line'), '%s::%s' % (M, m),
                           'constructor initialises %s from parameter %s, model expects parameter %d'
                           % (m, got.get(m), i))
        assigns = [n for n in walk(c['body']) if n.get('k') in ('assign',)]
        if assigns:
            ctx.report(R, c, assigns[0], M + '::Matcher', 'constructor body reassigns members')
        # NeedExpansion returns the field
        f = ctx.fn('%s::NeedExpansion() const' % M) if v in (INTERP, DISASM) else ctx.fn_opt('%s::NeedExpansion() const' % M)
        if f is not None:
          ctx.inst(R)
          if render_stmt(f['body'], f) != '{(return f:%s::expanded)}' % M:
            ctx.report(R, f, f['body'], M + '::NeedExpansion', 'NeedExpansion() does not return `expanded`')
        # Except: copy + push_back(param)
        f = ctx.fn('%s::Except(Rejector) const' % M)
        ctx.inst(R)
        body = render_stmt(f['body'], f, inline_locals=False)
        if not ('(var new_matcher this)' in body.replace(body.split('(var ')[1].split(' ')[0], 'new_matcher', 1)
                and 'push_back on (. l:' in body and '::rejectors) $0)' in body and body.rstrip('}').endswith('(return l:%s)' % body.split('(var ')[1].split(' ')[0])):
            ctx.report(R, f, f['body'], M + '::Except', 'Except is not copy-this + rejectors.push_back(arg): ' + body[:300])
        # call(): dispatches fn(v, instruction, expansion) in order
        f = ctx.fn('%s::call(%s &,unsigned short,unsigned short) const' % (M, v))
        ctx.inst(R)
        rets = [render(e, f) for e in _ret_exprs(f)]
        stm = [render(e, f) for e in f['body'].get('body', []) if e.get('k') == 'opcall']
        if (rets + stm) != ['(() f:%s::fn $0 $1 $2)' % M]:
            ctx.report(R, f, f['body'], M + '::call', 'call() does not forward (visitor, opcode, expansion) to fn: %s' % (rets + stm))
        # AllMatcher: mask 0 / expected 0 / not expanded
        f = ctx.fn_opt([k for k in F if k.startswith(M + '::AllMatcher(')][0]) if [k for k in F if k.startswith(M + '::AllMatcher(')] else None
        if f is not None:
            ctx.inst(R)
            cons = [n for n in walk(f['body']) if n.get('k') == 'construct' and n.get('cls') == M and not n.get('copymove')]
            if len(cons) != 1 or [const_value(a) for a in cons[0]['args'][1:4]] != [0, 0, 0]:
                ctx.report(R, f, f['body'], M + '::AllMatcher', 'AllMatcher is not Matcher(name, 0, 0, false, fn)')
        # Decode<V>
        f = ctx.fn('Decode<%s>(unsigned short)' % v)
        ctx.inst(R)
        _check_decode(ctx, R, f, v, M)
        # GetDecoderTable<V>: every word 0..0xFFFF pushed in order through Decode<V>
        f = ctx.fn('GetDecoderTable<%s>()' % v) if v == INTERP else ctx.fn_opt('GetDecoderTable<%s>()' % v)
        if f is None:
            continue
        ctx.inst(R)
        loops = [n for n in walk(f['body']) if n.get('k') == 'for']
        ok = False
        if len(loops) == 1:
            lp = loops[0]
            r = Renderer(f, inline_locals=False)
            from ..loops import loop_range
            rng = loop_range(f, lp)
            body = r.s(lp.get('body'))
            if rng and rng[1:] == (0, 65536, 1) and 'push_back on l:' in body and '(call Decode<%s> l:%s)' % (v, rng[0]) in body:
                ok = True
        if not ok:
            ctx.report(R, f, f['body'], 'GetDecoderTable<%s>' % v,
                       'table builder does not push Decode<V>(i) for i = 0..0xFFFF in order')
    # At::Extract: second word iff NeedExpansion, else (opcode & Mask) >> pos
    n_at = 0
    for fid, f in F.items():
        if not (fid.startswith('At<') and '::Extract(unsigned short,unsigned short)' in fid):
            continue
        own = f.get('owner', {})
        st = own.get('statics', {})
        ta = own.get('ta', [])
        if 'Mask' not in st or len(ta) != 2:
            raise AnalysisBroken('C02: At<>::Extract owner facts incomplete for ' + fid)
        n_at += 1
        ctx.touch(f)
        ctx.inst(R)
        pos = ta[1]['i']
        body = render_stmt(f['body'], f, inline_locals=False)
        # decided on the guarded summary: over the feasible paths (the branch on the per-instantiation constant NeedExpansion
        # is resolved, `if`, `if constexpr` and `?:` alike) the operand's storage ends up as the second word for pos == 16
        # and as (opcode & Mask) >> pos otherwise
        from .. import summ, boolform
        need = 1 if pos == 16 else 0
        ok = st.get('NeedExpansion') == need
        try:
            fin = summ.summary(ctx, f, asserts='ignore').final_values(lambda lv: lv.endswith('::storage)'))
        except Exception:
            fin = {}
        vals = set()
        for lv, d in fin.items():
            for val, cond in d.items():
                if boolform.satisfiable(cond):
                    vals.add(val)
        want = '$1' if need else '(>> (& $0 %d) %d)' % (st['Mask'], pos)
        if vals != {want}:
            ok = False
        if not ok:
            ctx.report(R, f, f['body'], short_fn(fid),
                       'Extract is not `NeedExpansion ? expansion : (opcode & Mask) >> pos`: %s; ' % sorted(vals) + body[:200])
    ctx.require(n_at >= 100, 'fewer than 100 At<>::Extract instantiations found (%d)' % n_at)


def _unwrap_value(e):
    while isinstance(e, dict) and (e.get('k') == 'cast' or (e.get('k') == 'construct' and e.get('copymove') and len(e.get('args', [])) == 1)):
        e = e.get('e') if e.get('k') == 'cast' else e['args'][0]
    return e


def _check_decode(ctx, R, f, v, M):
    r = Renderer(f, inline_locals=False)
    body = f['body']
    stmts = body.get('body', [])
    text = r.s(body)
    problems = []
    # static table from GetDecodeTable<V>
    tabs = [x for x in walk(body) if x.get('k') == 'var' and x.get('static')]
    if not (len(tabs) == 1 and r.r(tabs[0].get('init')) == '(call GetDecodeTable<%s> )' % v):
        problems.append('no single static table initialised from GetDecodeTable<V>()')
        tname = '?'
    else:
        tname = tabs[0]['name']
    # predicate lambda: matcher.Matches(instruction)
    lams = [x for x in walk(body) if x.get('k') == 'lambda']
    pred_fns = set()
    for y in lams:
        lf = None
        for fid2, g in ctx.F['functions'].items():
            if fid2.startswith(y['fn'].rstrip('>').rsplit('<', 1)[0]) and '<lambda@' in fid2 and g.get('body'):
                if fid2.startswith(y['fn'].split('<lambda@')[0]) and ('<lambda@' + y['fn'].split('<lambda@')[1].split('>')[0]) in fid2:
                    lf = g
        if lf is not None:
            b = render_stmt(lf['body'], lf)
            caps = y.get('caps', [])
            if b.startswith('{(return (call %s::Matches on $0 ' % M) and len(caps) == 1 and caps[0].get('parm') == 0:
                pred_fns.add(y['fn'])
    # (a named predicate closure that is only handed to the algorithms is replaced by the closure itself in the facts normal form)
    pred_vars = {x['name'] for x in walk(body) if x.get('k') == 'var' and isinstance(x.get('init'), dict)
                 and any(y.get('k') == 'lambda' and y.get('fn') in pred_fns for y in [_unwrap_value(x['init'])])}
    if not pred_fns:
        problems.append('predicate lambda is not matcher.Matches(instruction)')

    def is_pred(e):
        e = _unwrap_value(e)
        return isinstance(e, dict) and ((e.get('k') == 'lambda' and e.get('fn') in pred_fns)
                                        or (e.get('k') == 'ref' and e.get('dk') == 'local' and e.get('name') in pred_vars))
    # first find_if over [begin, end)
    finds = [x for x in walk(body) if x.get('k') == 'var' and isinstance(x.get('init'), dict)
             and any(short_fn(y.get('fn', '')).startswith('std::find_if') for y in walk(x['init']) if y.get('k') == 'call')]
    if not finds:
        problems.append('no std::find_if over the table')
    else:
        first = finds[0]
        fc = [y for y in walk(first['init']) if y.get('k') == 'call' and short_fn(y.get('fn', '')).startswith('std::find_if')][0]
        fa = fc.get('args', [])
        if not (len(fa) == 3 and r.r(fa[0]).endswith('::begin on %s )' % tname) and r.r(fa[1]).endswith('::end on %s )' % tname) and is_pred(fa[2])):
            problems.append('first find_if does not scan [table.begin(), table.end()) with the predicate: ' + r.r(first['init'])[:200])
        it = first['name']
        rets = [n for n in walk(body) if n.get('k') == 'return']
        rtexts = [r.r(n.get('e')) for n in rets]
        if '(* l:%s)' % it not in rtexts:
            problems.append('does not return *iter of the first match')
        und = [t for t in rtexts if t.startswith('(call %s::AllMatcher' % M)]
        if len(und) != 1 or len(rtexts) != 2:
            problems.append('fallback is not a single AllMatcher(undefined) return')
        else:
            # the fallback lambda calls v.undefined(opcode)
            okf = False
            for x in lams:
                for fid2, g in ctx.F['functions'].items():
                    if fid2.startswith(x['fn']) and g.get('body'):
                        b = render_stmt(g['body'], g)
                        if b == '{(return (call %s::undefined on $0 $1))}' % v:
                            okf = True
            if not okf:
                problems.append('fallback handler is not visitor.undefined(opcode)')
        # the AllMatcher return must be guarded by iter == end
        ifs = [n for n in stmts if n.get('k') == 'if']
        if not ifs or '::end on %s )' % tname not in r.r(ifs[0].get('cond')) or 'l:%s' % it not in r.r(ifs[0].get('cond')) \
                or not r.r(ifs[0].get('cond')).startswith('(== '):
            problems.append('undefined fallback is not guarded by iter == table.end()')
        elif 'AllMatcher' not in r.s(ifs[0].get('then')):
            problems.append('iter == end branch does not return the undefined matcher')
    for p in problems:
        ctx.report(R, f, body, 'Decode<%s>' % v, p)


def r1_unique(ctx, tables):
    R = 'C02.R1'
    ctx.rule(R, 'for each of the 65536 first words at most one table entry matches '
                '(mask/expected/rejectors as passed to the Matcher constructor; independent of the run-time ASSERT)',
             floor=3 * 400)
    for v, t in list(tables.items()):
        owner = [None] * 65536
        count = [0] * 65536
        for e in t:
            m = e['passed_mask']
            free = (~m) & 0xFFFF
            exp = e['passed_expected']
            if exp & free:
                # expected has bits outside the mask: can never match
                ctx.report(R, ('src/decoder.h', 'GetDecodeTable<%s>' % v, e['line']), e['line'],
                           '%s@%04X' % (e['name'], exp), 'expected pattern has bits outside the mask; entry can never match')
                continue
            nm = 0
            for s in submasks(free):
                w = exp | s
                rej = False
                for rj in e['rejectors']:
                    if (w & rj['mask']) == rj['unexpected']:
                        rej = True
                        break
                if rej:
                    continue
                nm += 1
                if count[w] == 0:
                    owner[w] = e
                elif count[w] == 1:
                    o = owner[w]
                    ctx.report(R, ('src/decoder.h', 'GetDecodeTable<%s>' % v, e['line']), e['line'],
                               '%s@%04X~%s@%04X' % (o['name'], o['expected'], e['name'], e['expected']),
                               'opcode %04X matches two entries: %s (line %s) and %s (line %s)'
                               % (w, o['name'], o['line'], e['name'], e['line']),
                               {'word': w})
                count[w] += 1
            ctx.inst(R, 1, 0)
            if nm == 0:
                ctx.report(R, ('src/decoder.h', 'GetDecodeTable<%s>' % v, e['line']), e['line'],
                           '%s@%04X' % (e['name'], exp), 'entry matches no opcode at all (dead encoding)')
        ctx.oblig(R, 65536)
        nund = sum(1 for c in count if c == 0)
        ctx.notes.append('%s: %d entries, %d/65536 words decode to an entry, %d undefined'
                         % (v, len(t), 65536 - nund, nund))
        ctx.sample({'visitor': v, 'word': '0x%04X' % 0x94C0, 'matches': [owner[0x94C0]['name']] if owner[0x94C0] else []})
    return


def r5_pairwise(ctx, tables):
    """thorough tier: the same uniqueness claim decided a second way, by cube algebra over pairs of entries instead of
    enumeration of words; a disagreement with R1 is an engine inconsistency (exit 2)"""
    R = 'C02.R5'
    ctx.rule(R, 'pairwise cube disjointness (independent method): for every two entries whose fixed patterns are compatible '
                '((e1 ^ e2) & m1 & m2 == 0) every word of the common sub-cube is rejected by a rejector of one of them', floor=3)
    for v, t in tables.items():
        npairs = nover = 0
        ents = [e for e in t if not (e['passed_expected'] & ~e['passed_mask'] & 0xFFFF)]
        for i, a in enumerate(ents):
            ma, ea = a['passed_mask'], a['passed_expected']
            for b in ents[i + 1:]:
                mb, eb = b['passed_mask'], b['passed_expected']
                if (ea ^ eb) & ma & mb:
                    continue
                npairs += 1
                fixed = ma | mb
                val = ea | eb
                rj = [(r['mask'], r['unexpected']) for r in a['rejectors']], [(r['mask'], r['unexpected']) for r in b['rejectors']]
                for sm in submasks(~fixed & 0xFFFF):
                    w = val | sm
                    if any((w & m) == u for m, u in rj[0]) or any((w & m) == u for m, u in rj[1]):
                        continue
                    nover += 1
                    ctx.report(R, ('src/decoder.h', 'GetDecodeTable<%s>' % v, b['line']), b['line'],
                               '%s@%04X~%s@%04X' % (a['name'], ea, b['name'], eb),
                               'entries %s (line %s) and %s (line %s) both match opcode %04X'
                               % (a['name'], a['line'], b['name'], b['line'], w), {'word': w})
                    break
        ctx.inst(R, 1, npairs)
        ctx.notes.append('%s: %d compatible entry pairs examined algebraically, %d overlapping' % (v, npairs, nover))
    r1v = ctx.rules['C02.R1']['violations']
    if bool(r1v) != bool(ctx.rules[R]['violations']):
        raise AnalysisBroken('C02: word enumeration (R1) and pair algebra (R5) disagree on overlap - engine inconsistency')


def r2_one_table(ctx, tables, visitors):
    R = 'C02.R2'
    ctx.rule(R, 'one decode table and one dispatcher for all consumers: identical instantiations per visitor, '
                'no specialisation, matchers constructed only by Create/AllMatcher, consumers use Decode<V>/GetDecoderTable<V>',
             floor=443 * 2 + 6)
    F = ctx.F['functions']
    base = tables[visitors[0]]

    def sig(e):
        return (e['expected'], e['passed_mask'], e['passed_expanded'], e['name'],
                tuple((r['mask'], r['unexpected']) for r in e['rejectors']),
                tuple((o['kind'], o['optype'], o['pos'], o['value'], o['mask']) for o in e['operands']))

    for v in visitors[1:]:
        t = tables[v]
        if len(t) != len(base):
            ctx.report(R, ('src/decoder.h', 'GetDecodeTable<%s>' % v, 0), 0, 'table-length',
                       'visitor %s has %d entries, %s has %d' % (v, len(t), visitors[0], len(base)))
        for a, b in zip(base, t):
            ctx.inst(R)
            if sig(a) != sig(b):
                ctx.report(R, ('src/decoder.h', 'GetDecodeTable<%s>' % v, b['line']), b['line'],
                           '%s@%04X' % (b['name'], b['expected']),
                           'entry %d differs between %s and %s' % (b['index'], visitors[0], v))
    # handler bound by the table is the visitor's own member of the entry's name
    for v in visitors:
        for e in tables[v]:
            ctx.inst(R)
            h = e['handler'] or ''
            if not (h.startswith('%s::%s(' % (v, e['name'])) or h.startswith('%s::%s<' % (v, e['name']))):
                ctx.report(R, ('src/decoder.h', 'GetDecodeTable<%s>' % v, e['line']), e['line'],
                           '%s@%04X' % (e['name'], e['expected']),
                           'table entry named %s dispatches to %s' % (e['name'], h))
    # primary template only
    for v in visitors:
        for nm in ('GetDecodeTable<%s>()' % v, 'Decode<%s>(unsigned short)' % v, 'GetDecoderTable<%s>()' % v):
            f = ctx.fn_opt(nm)
            if f is None:
                ctx.require(nm.startswith('GetDecoderTable') and v != INTERP, 'anchor vanished: ' + nm)
                continue
            ctx.inst(R)
            if not f.get('inst'):
                ctx.report(R, f, f.get('line'), short_fn(nm), 'explicit specialisation: this visitor does not share the primary template')
            for n in walk(f['body']):
                if n.get('k') == 'if' and n.get('constexpr'):
                    ctx.report(R, f, n, short_fn(nm), '`if constexpr` inside the shared decoder template (visitor-specific decoding)')
    # who may construct a Matcher / call GetDecodeTable / use Matches
    for fid, f in F.items():
        for n in walk(f.get('body')):
            k = n.get('k')
            if k == 'construct' and str(n.get('cls', '')).startswith('Matcher<') and not n.get('copymove'):
                ctx.inst(R)
                sf = short_fn(fid)
                if not (('MatcherCreator<' in sf and sf.endswith('::Create')) or sf.endswith('::AllMatcher')):
                    ctx.report(R, f, n, 'construct ' + n['cls'],
                               'Matcher constructed outside MatcherCreator::Create / AllMatcher')
            if k == 'call' and short_fn(n.get('fn', '')).startswith('GetDecodeTable<'):
                ctx.inst(R)
                if not short_fn(fid).startswith('Decode<'):
                    ctx.report(R, f, n, 'call GetDecodeTable', 'raw decode table used outside Decode<V>')
    # consumers: interpreter field, disassembler entry points, parser, test generator
    rec = ctx.record('Teakra::Interpreter')
    dec = [fl for fl in rec['fields'] if fl['name'] == 'decoders']
    ctx.require(len(dec) == 1, 'Interpreter::decoders field vanished')
    ctx.inst(R)
    if render(dec[0].get('init')) != '(call GetDecoderTable<%s> )' % INTERP:
        ctx.report(R, ('src/interpreter.h', 'Teakra::Interpreter', dec[0].get('l', 0)), dec[0].get('l', 0),
                   'Interpreter::decoders', 'interpreter dispatch table is not GetDecoderTable<Interpreter>()')
    # the assembler is generated from the disassembler's view of every first word (shared rule body with C05.T3)
    from .c05 import t3_parser
    t3_parser(ctx, R)
    for fid, want in (('Teakra::Disassembler::NeedExpansion(unsigned short)', 'Decode<%s>' % DISASM),):
        f = ctx.fn(fid)
        ctx.inst(R)
        if '(call %s $0)' % want not in render_stmt(f['body'], f):
            ctx.report(R, f, f['body'], short_fn(fid), 'does not decode its own opcode through ' + want)


def r3_length(ctx, tables, visitors):
    R = 'C02.R3'
    ctx.rule(R, 'instruction length agreement: expanded <=> exactly one operand at position 16; disassembler/parser/'
                'dsp1_reader report Decode<Disassembler>(op).NeedExpansion(); the interpreter fetch loop reads the '
                'second word iff decoders[opcode].NeedExpansion() and consumes it as the operand', floor=443 + 5)
    for v in visitors[:1] if len(visitors) else []:
        pass
    for v in visitors:
        for e in tables[v]:
            ctx.inst(R)
            n16 = [o for o in e['operands'] if o['pos'] == 16 and o['kind'] in ('At', 'AtNamed')]
            ne = [o for o in e['operands'] if o['need_expansion']]
            if bool(e['passed_expanded']) != (len(n16) == 1) or len(ne) != len(n16) or len(n16) > 1:
                ctx.report(R, ('src/decoder.h', 'GetDecodeTable<%s>' % v, e['line']), e['line'],
                           '%s@%04X' % (e['name'], e['expected']),
                           'expanded flag %s but %d operand(s) at position 16' % (e['passed_expanded'], len(n16)))
    F = ctx.F['functions']
    # disassembler NeedExpansion
    f = ctx.fn('Teakra::Disassembler::NeedExpansion(unsigned short)')
    ctx.inst(R)
    want = '{(return (call Matcher<%s>::NeedExpansion on (call Decode<%s> $0) ))}' % (DISASM, DISASM)
    if render_stmt(f['body'], f) != want:
        ctx.report(R, f, f['body'], 'Disassembler::NeedExpansion',
                   'NeedExpansion(op) is not Decode<Disassembler>(op).NeedExpansion(): ' + render_stmt(f['body'], f)[:200])
    # C binding forwards
    f = ctx.fn_opt('Teakra_Disasm_NeedExpansion(uint16_t)') or ctx.fn_opt('Teakra_Disasm_NeedExpansion(unsigned short)')
    if f is None:
        c = [x for x in F.values() if x['name'] == 'Teakra_Disasm_NeedExpansion']
        ctx.require(len(c) == 1, 'Teakra_Disasm_NeedExpansion vanished')
        f = c[0]
        ctx.touch(f)
    ctx.inst(R)
    if render_stmt(f['body'], f) != '{(return (call Teakra::Disassembler::NeedExpansion $0))}':
        ctx.report(R, f, f['body'], 'Teakra_Disasm_NeedExpansion', 'C binding does not forward to Disassembler::NeedExpansion(opcode)')
    # parser stores exactly that value for the opcode it stores
    f = ctx.fn('Teakra::GenerateParser()')
    ctx.inst(R)
    r = Renderer(f, inline_locals=True)
    txt = r.s(f['body'])
    ok = '(= (. l:current Teakra::ParserImpl::Node::expansion) (call Teakra::Disassembler::NeedExpansion l:o))' in \
         Renderer(f, inline_locals=False).s(f['body']).replace('l:expansion', '(call Teakra::Disassembler::NeedExpansion l:o)') \
         or '::expansion) (call Teakra::Disassembler::NeedExpansion' in txt
    if not ok:
        ctx.report(R, f, f['body'], 'GenerateParser', 'parser node does not store NeedExpansion(o) of the stored opcode')
    # interpreter fetch loop
    _fetch_loop(ctx, R)
    # dsp1_reader: advances by a second word under the same predicate
    if ctx.tier == 'thorough' or True:
        mains = [x for x in F.values() if x['name'] == 'main' and x['file'].startswith('src/dsp1_reader/')]
        if mains:
            f = mains[0]
            ctx.touch(f)
            ctx.inst(R)
            good = False
            for n in walk(f['body']):
                if n.get('k') == 'if' and render(n.get('cond'), f).startswith('(call Teakra::Disassembler::NeedExpansion '):
                    good = True
            if not good:
                ctx.report(R, f, f['body'], 'dsp1_reader', 'listing does not skip the operand word under Disassembler::NeedExpansion(opcode)')


class _PcRenderer(Renderer):
    """renders expressions of straight-line code with the program counter made explicit: a read of regs.pc renders as
       PC+<number of increments so far>, and locals render as the value they were given (so that
       `a = pc | page; ++pc; read(a)` and `read(pc++ | page)` render equally)"""
    PCF = '(. f:Teakra::Interpreter::regs Teakra::RegisterState::pc)'

    def __init__(self, f):
        Renderer.__init__(self, f, inline_locals=False)
        self.delta = 0
        self.vals = {}
        self.plain = Renderer(f, inline_locals=False)

    def r(self, e, depth=0):
        x = e
        while isinstance(x, dict) and x.get('k') == 'cast':
            x = x.get('e')
        if isinstance(x, dict):
            k = x.get('k')
            if k == 'mem' and self.plain.r(x) == self.PCF:
                return 'PC+%d' % self.delta
            if k == 'un' and x.get('op') in ('post++', '++', 'post--', '--') and self.plain.r(x.get('e')) == self.PCF:
                step = 1 if '++' in x['op'] else -1
                before = 'PC+%d' % self.delta
                self.delta += step
                return before if x['op'].startswith('post') else 'PC+%d' % self.delta
            if k == 'assign' and self.plain.r(x.get('lhs')) == self.PCF:
                rhs = self.r(x.get('rhs'), depth + 1)
                if x.get('op') == '+=' and rhs == '1':
                    self.delta += 1
                    return 'PC+%d' % self.delta
                self.delta = None
                return '(= PC %s)' % rhs
            if k == 'ref' and x.get('dk') == 'local' and x.get('name') in self.vals:
                return self.vals[x['name']]
        return Renderer.r(self, e, depth)

    def stmt(self, st):
        """evaluate one simple statement, remembering the values given to locals"""
        k = st.get('k')
        if k == 'decl':
            for v in st.get('vars', []):
                if 'init' in v:
                    self.vals[v['name']] = self.r(v['init'])
            return
        if k == 'assign':
            t = st.get('lhs')
            while isinstance(t, dict) and t.get('k') == 'cast':
                t = t.get('e')
            if isinstance(t, dict) and t.get('k') == 'ref' and t.get('dk') == 'local':
                self.vals[t['name']] = self.r(st.get('rhs'))
                return
        self.r(st)


def _fetch_loop(ctx, R):
    f = ctx.fn('Teakra::Interpreter::Run(unsigned long)')
    ctx.inst(R)
    loops = [n for n in f['body'].get('body', []) if n.get('k') == 'for']
    ctx.require(len(loops) == 1, 'Interpreter::Run: outer cycle loop not found')
    body = loops[0]['body'].get('body', [])
    MEM = '(call Teakra::MemoryInterface::ProgramRead on f:Teakra::Interpreter::mem '
    PAGE = '(<< (. f:Teakra::Interpreter::regs Teakra::RegisterState::prpage) 18)'

    def read_at(d):
        a, b = sorted([PAGE, 'PC+%d' % d])
        return MEM + '(| %s %s))' % (a, b)
    DEC = '([] f:Teakra::Interpreter::decoders %s)' % read_at(0)
    pr = _PcRenderer(f)
    # straight-line prefix of the cycle: everything up to the statement that dispatches the instruction
    first = next((i for i, st in enumerate(body) if any(n.get('k') == 'call' and n.get('name') == 'ProgramRead' for n in walk(st))), None)
    disp = next((i for i, st in enumerate(body) if st.get('k') == 'call' and st.get('name') == 'call' and 'Matcher<' in st.get('cls', '')), None)
    if first is None or disp is None or disp < first:
        raise AnalysisBroken('C02: Interpreter::Run: program fetch / dispatch statements not recognised')
    # the fetch may be prepared by simple statements in front of the read (address temporaries, a separate ++pc)
    while first > 0 and body[first - 1].get('k') in ('decl', 'assign', 'un'):
        first -= 1
    probs = []
    expand_if = None
    for st in body[first:disp]:
        k = st.get('k')
        if k in ('decl', 'assign', 'un', 'call', 'opcall'):
            pr.stmt(st)
        elif k == 'if' and any(n.get('k') == 'call' and n.get('name') == 'ProgramRead' for n in walk(st)):
            if expand_if is not None:
                probs.append('more than one conditional program read in a cycle')
            expand_if = st
            cond = pr.r(st.get('cond'))
            if cond != '(call Matcher<%s>::NeedExpansion on %s )' % (INTERP, DEC):
                probs.append('second fetch is not guarded by decoders[opcode].NeedExpansion() of the word just fetched: ' + cond[:160])
            if pr.delta != 1:
                probs.append('pc is not advanced exactly once by the opcode fetch')
            if st.get('else') is not None:
                probs.append('operand fetch has an else branch')
            before = dict(pr.vals)
            for s2 in (st['then'].get('body', []) if st['then'].get('k') == 'block' else [st['then']]):
                if s2.get('k') in ('decl', 'assign', 'un', 'call', 'opcall'):
                    pr.stmt(s2)
                else:
                    probs.append('operand fetch branch is not straight-line code')
            changed = {n: v for n, v in pr.vals.items() if before.get(n) != v and n in before}
            if pr.delta != 2:
                probs.append('pc is not advanced exactly once by the operand fetch')
            ev = [n for n, v in changed.items() if v == read_at(1)]
            if len(ev) != 1:
                probs.append('second word is not fetched from pc+1 of the same page into the expansion variable: %s' % sorted(changed.items())[:3])
            else:
                ev = ev[0]
                if before.get(ev) != '0':
                    probs.append('expansion variable is not 0 when the instruction has no second word')
                d = pr.r(body[disp])
                pr.vals[ev] = 'EXP'
                d = pr.r(body[disp])
                want = '(call Matcher<%s>::call on %s this %s EXP)' % (INTERP, DEC, read_at(0))
                if d != want:
                    probs.append('dispatch is not decoders[opcode].call(*this, opcode, expand_value): ' + d[:200])
            # after the conditional the local holds either value; nothing else may touch pc before the dispatch stages
        elif k in ('if',):
            pass        # rep / lp stages: C09
        else:
            pass
    if expand_if is None:
        probs.append('no conditional fetch of the second instruction word')
    n_pr = sum(1 for n in walk(loops[0]) if n.get('k') == 'call' and n.get('name') == 'ProgramRead')
    if n_pr != 2:
        probs.append('loop body contains %d ProgramRead calls, expected exactly 2' % n_pr)
    for p in probs:
        ctx.report(R, f, loops[0], 'Interpreter::Run fetch', p)


def r4_unused(ctx, tables, visitors):
    R = 'C02.R4'
    ctx.rule(R, 'unused bits reach no consumer: Unused<> masks are disjoint from every extractor mask and from the '
                'fixed pattern, are not passed as parameters, handler arity equals the passed operands, and the '
                'dispatch proxy forwards only Extract() results', floor=443)
    F = ctx.F['functions']
    for v in visitors:
        for e in tables[v]:
            ctx.inst(R)
            key = '%s@%04X' % (e['name'], e['expected'])
            loc = ('src/decoder.h', 'GetDecodeTable<%s>' % v, e['line'])
            acc = e['expected']
            for o in e['operands']:
                m = o['mask'] or 0
                if acc & m:
                    ctx.report(R, loc, e['line'], key, 'operand mask %04X overlaps the fixed pattern or another operand' % m)
                acc |= m
                if o['kind'] == 'Unused' and o['pass']:
                    ctx.report(R, loc, e['line'], key, 'Unused<> operand is passed to the handler')
                if o['kind'] in ('At', 'AtNamed') and o['pos'] != 16:
                    bits = decode.operand_bits(o)
                    if bits is None or m != (((1 << bits) - 1) << o['pos']) & 0xFFFF:
                        ctx.report(R, loc, e['line'], key, 'operand mask %04X is not (2^Bits-1) << pos' % m)
            passed = [o for o in e['operands'] if o['pass']]
            h = F.get(e['handler'])
            if h is None:
                # handler bodies of non-library visitors may live in tool TUs; declared arity from the id
                arity = None
                hid = e['handler'] or ''
                inner = hid[hid.find('(') + 1: hid.rfind(')')] if '(' in hid else ''
                depth = 0
                arity = 0 if not inner else 1
                for ch in inner:
                    if ch in '<(':
                        depth += 1
                    elif ch in '>)':
                        depth -= 1
                    elif ch == ',' and depth == 0:
                        arity += 1
            else:
                arity = len(h.get('params', []))
            if arity != len(passed):
                ctx.report(R, loc, e['line'], key, 'handler takes %d parameters, table passes %d operands' % (arity, len(passed)))
    # Proxy::operator(): forwards only Extract results
    n = 0
    for fid, f in F.items():
        if '::Proxy<' in fid and 'operator()' in fid and fid.startswith('MatcherCreator<'):
            n += 1
            ctx.touch(f)
            rets = _ret_exprs(f)
            bad = False
            call_nodes = []
            for e in rets:
                e = unwrap_casts(e)
                call_nodes.append(e)
            stm = [x for x in walk(f['body']) if x.get('k') == 'call' and x.get('callee') is not None and not x.get('fn')]
            for c in stm:
                for a in c.get('args', []):
                    a2 = unwrap_casts(a)
                    while isinstance(a2, dict) and a2.get('k') == 'construct' and a2.get('copymove') and a2.get('args'):
                        a2 = unwrap_casts(a2['args'][0])
                    if not (isinstance(a2, dict) and a2.get('k') == 'call' and a2.get('name') == 'Extract'):
                        bad = True
                    else:
                        ar = [render(x, f) for x in a2.get('args', [])]
                        if ar != ['$1', '$2']:
                            bad = True
            if bad or not stm:
                ctx.report(R, f, f['body'], short_fn(fid)[:80], 'dispatch proxy passes something other than OperandAt::Extract(opcode, expansion)')
    ctx.oblig(R, n)
    ctx.require(n >= 300, 'fewer than 300 dispatch proxies found (%d)' % n)


def run(ctx):
    F = ctx.F
    visitors = decode.visitors(F)
    for need in (INTERP, DISASM, TESTGEN):
        ctx.require(need in visitors, 'decode table for %s is not instantiated' % need)
    tables = {}
    for v in visitors:
        t = decode.table(F, v)
        ctx.require(len(t) >= 430, 'decode table of %s has only %d entries' % (v, len(t)))
        for e in t:
            # values actually handed to the Matcher constructor by Create()
            cf = F['functions'].get(e['create_fn'])
            pm = pe = px = None
            if cf:
                for n in walk(cf['body']):
                    if n.get('k') == 'construct' and str(n.get('cls', '')).startswith('Matcher<') and not n.get('copymove') \
                            and len(n.get('args', [])) == 5:
                        pm, pe, px = [const_value(a) for a in n['args'][1:4]]
                        if render(n['args'][0], cf) != '$0':
                            ctx.report('C02.R0', cf, n, 'Create name', 'Create does not pass its name argument to the Matcher')
            if pm is None or pe is None or px is None:
                raise AnalysisBroken('C02: cannot evaluate the Matcher constructor arguments in ' + e['create_fn'][:120])
            e['passed_mask'], e['passed_expected'], e['passed_expanded'] = pm & 0xFFFF, pe & 0xFFFF, int(bool(px))
        tables[v] = t
    ctx.rule('C02.R0', 'model shape', floor=20)
    # Create passes complement-of-operand-masks / template expected / OR(NeedExpansion)
    for v in visitors:
        for e in tables[v]:
            if e['passed_mask'] != decode.entry_mask(e) or e['passed_expected'] != e['expected'] \
                    or e['passed_expanded'] != int(decode.entry_expanded(e)):
                ctx.report('C02.R0', ('src/decoder.h', e['create_fn'][:80], e['line']), e['line'],
                           '%s@%04X' % (e['name'], e['expected']),
                           'Create hands mask=%04X expected=%04X expanded=%d to the Matcher; operands imply %04X/%04X/%d'
                           % (e['passed_mask'], e['passed_expected'], e['passed_expanded'], decode.entry_mask(e),
                              e['expected'], int(decode.entry_expanded(e))))
    r0_model(ctx, visitors)
    r1_unique(ctx, tables)
    if ctx.tier == 'thorough':
        r5_pairwise(ctx, tables)
    r2_one_table(ctx, tables, visitors)
    r3_length(ctx, tables, visitors)
    r4_unused(ctx, tables, visitors)
    e = tables[INTERP][5]
    ctx.sample({'entry': e['name'], 'expected': '0x%04X' % e['expected'], 'mask': '0x%04X' % e['passed_mask'],
                'expanded': e['passed_expanded'],
                'operands': [(o['kind'], (o['optype'] or '')[:30], o['pos']) for o in e['operands']],
                'handler': e['handler']})
    ctx.assumptions += [
        'clang instantiates GetDecodeTable<V> exactly as the production compiler does (same -std, same headers)',
        'std::find_if / std::none_of / std::vector behave as specified',
    ]
