"""C14 - APBP mailboxes and semaphores follow the documented handshake in both directions."""
from .. import mmio, callgraph, boolform
from ..astq import walk, direct_writes, field_path, unwrap_casts, const_value
from ..guards import guards_at
from ..norm import render, render_stmt, Renderer, short_fn
from .widths import is_library

DC = 'Teakra::DataChannel'
IMPL = 'Teakra::Apbp::Impl'


_INERT = set()


def _writes(f):
    return {(p[1], render(n.get('rhs') if n.get('k') == 'assign' else None, f, param_names=True)) for p, n, how in direct_writes(f['body'])
            if p[1] not in _INERT}


def h1_channel(ctx, CG):
    R = 'C14.H1'
    ctx.rule(R, 'data channel: Send sets ready and data under the channel lock and invokes the handler, outside the lock, '
                'iff the interrupt is not disabled; Recv clears ready and returns data; Peek / IsReady write nothing; each side '
                'sends on its own mailbox object and receives on the peer\'s (MMIO cells and host API)', floor=30)
    F = ctx.F['functions']
    f = ctx.fn(DC + '::Send(unsigned short)')
    ctx.inst(R)
    FM = boolform.Former(f)
    DIS, HND = boolform.A('f:%s::disable_interrupt' % DC), boolform.A('f:%s::handler' % DC)
    from ..cases import observation_only_fields
    INERT = observation_only_fields(ctx.F, DC) - {'ready', 'data', 'disable_interrupt'}
    _INERT.clear()
    _INERT.update(INERT)
    ws = {}
    for p, n, how in direct_writes(f['body']):
        if p[1] in INERT:
            continue
        ws[p[1]] = (render(n.get('rhs'), f), CG.locks_held_at(f, n))
    if set(ws) != {'ready', 'data'} or ws.get('ready', ('',))[0] != '1' or ws.get('data', ('',))[0] != '$0':
        ctx.report(R, f, f['body'], 'DataChannel::Send writes', 'Send must set ready = true and data = value and nothing else: %s' % {k: v[0] for k, v in ws.items()})
    for k, (rhs, locks) in ws.items():
        if (DC, 'mutex') not in [l[0] for l in locks]:
            ctx.report(R, f, f['body'], 'DataChannel::Send lock ' + k, 'write of %s is not under the channel mutex' % k)
    for p, n, how in direct_writes(f['body']):
        if p[1] in INERT:
            continue
        pc = boolform.path_condition(f['body'], n, FM)
        if boolform.equivalent(pc, boolform.T) is not True:
            ctx.report(R, f, n, 'DataChannel::Send unconditional ' + p[1],
                       'the write of %s is conditional (%s): a send must always latch the value and the ready flag'
                       % (p[1], boolform.show(pc)))
    inv = [n for n in walk(f['body']) if n.get('k') == 'opcall' and n.get('op') == '()' and field_path(n['args'][0]) == (DC, 'handler', None)]
    if len(inv) != 1:
        ctx.report(R, f, f['body'], 'DataChannel::Send handler', 'handler must be invoked at exactly one site (found %d)' % len(inv))
    else:
        pc = boolform.path_condition(f['body'], inv[0], FM)
        if boolform.implies(pc, boolform.neg(DIS)) is not True:
            ctx.report(R, f, inv[0], 'DataChannel::Send handler guard', 'handler invocation is not guarded by !disable_interrupt: ' + boolform.show(pc))
        elif boolform.equivalent(pc, boolform.all_of(boolform.neg(DIS), HND)) is not True \
                and boolform.equivalent(pc, boolform.neg(DIS)) is not True:
            ctx.report(R, f, inv[0], 'DataChannel::Send handler extra guard', 'handler invocation depends on additional conditions: ' + boolform.show(pc))
        if CG.locks_held_at(f, inv[0]):
            ctx.report(R, f, inv[0], 'DataChannel::Send handler lock', 'handler is invoked while the channel mutex is held')
        # the disable flag itself must be read under the lock
        for n in walk(f['body']):
            if n.get('k') == 'mem' and n.get('name') == 'disable_interrupt' and n.get('cls') == DC:
                if (DC, 'mutex') not in [l[0] for l in CG.locks_held_at(f, n)]:
                    ctx.report(R, f, n, 'DataChannel::Send disable test', 'disable_interrupt is read outside the channel mutex')
    f = ctx.fn(DC + '::Recv()')
    ctx.inst(R)
    if _writes(f) != {('ready', '0')} or [render(n['e'], f) for n in walk(f['body']) if n.get('k') == 'return'] != ['f:%s::data' % DC]:
        ctx.report(R, f, f['body'], 'DataChannel::Recv', 'Recv must clear ready and return data: ' + render_stmt(f['body'], f)[:200])
    for nm, ret in (('Peek() const', 'data'), ('IsReady() const', 'ready'), ('GetDisableInterrupt() const', 'disable_interrupt')):
        f = ctx.fn('%s::%s' % (DC, nm))
        ctx.inst(R)
        if _writes(f) or [render(n['e'], f) for n in walk(f['body']) if n.get('k') == 'return'] != ['f:%s::%s' % (DC, ret)]:
            ctx.report(R, f, f['body'], 'DataChannel::' + nm.split('(')[0], 'must return %s and write nothing' % ret)
    f = ctx.fn(DC + '::SetDisableInterrupt(unsigned short)')
    ctx.inst(R)
    if _writes(f) != {('disable_interrupt', '$v')}:
        ctx.report(R, f, f['body'], 'DataChannel::SetDisableInterrupt', 'must store its argument in disable_interrupt only')
    # Apbp forwarders: channel index forwarded unchanged
    for nm, inner, extra in (('SendData(unsigned int,unsigned short)', 'Send', ' $1'), ('RecvData(unsigned int)', 'Recv', ''),
                             ('PeekData(unsigned int) const', 'Peek', ''), ('IsDataReady(unsigned int) const', 'IsReady', ''),
                             ('GetDisableInterrupt(unsigned int) const', 'GetDisableInterrupt', ''),
                             ('SetDisableInterrupt(unsigned int,unsigned short)', 'SetDisableInterrupt', ' $1')):
        f = ctx.fn('Teakra::Apbp::' + nm)
        ctx.inst(R)
        want = '(call %s::%s on ([] (. (-> f:Teakra::Apbp::impl) %s::data_channels) $0)%s)' % (DC, inner, IMPL, extra if extra else ' ')
        t = render_stmt(f['body'], f)
        if want not in t:
            ctx.report(R, f, f['body'], 'Apbp::' + nm.split('(')[0], 'does not forward to data_channels[channel].%s: %s' % (inner, t[:160]))
    # sides: producer operations use the side's own object, consumer operations the peer's
    M = mmio.Model(ctx.F)
    PRODUCER = {'Teakra::Apbp::SendData', 'Teakra::Apbp::SetSemaphore'}
    CONSUMER = {'Teakra::Apbp::RecvData', 'Teakra::Apbp::ClearSemaphore', 'Teakra::Apbp::MaskSemaphore',
                'Teakra::Apbp::GetSemaphoreMask', 'Teakra::Apbp::SetDisableInterrupt', 'Teakra::Apbp::GetDisableInterrupt'}

    def side_check(side, fn, obj, where, line):
        sf = short_fn(fn)
        own = 'apbp_from_' + side
        peer = 'apbp_from_' + ('cpu' if side == 'dsp' else 'dsp')
        if sf in PRODUCER and obj != own:
            ctx.report(R, ('src/mmio.cpp' if side == 'dsp' else 'src/teakra.cpp', where, line), line, '%s %s' % (where, sf.split('::')[-1]),
                       '%s side performs %s on %s; a side sends on its own mailbox (%s)' % (side, sf, obj, own))
        if sf in CONSUMER and obj != peer:
            ctx.report(R, ('src/mmio.cpp' if side == 'dsp' else 'src/teakra.cpp', where, line), line, '%s %s' % (where, sf.split('::')[-1]),
                       '%s side performs %s on %s; a side receives/acknowledges/masks on the peer\'s mailbox (%s)' % (side, sf, obj, peer))

    n_dsp = 0
    for off, c in sorted(M.cells.items()):
        cal = []
        if c['kind'] == 'bitfield':
            for s in c['slots']:
                cal += [s['set'], s['get']]
        else:
            cal += [c['set'], c['get']]
        for x in cal:
            if not x:
                continue
            fn = x.get('fn') if x['kind'] == 'method' else (x.get('call_fn') if x['kind'] == 'lambda' else None)
            if fn and short_fn(fn).startswith('Teakra::Apbp::'):
                n_dsp += 1
                ctx.inst(R)
                side_check('dsp', fn, x.get('obj'), 'MMIO %03X' % off, x.get('line') or c['line'])
    ctx.require(n_dsp >= 25, 'only %d APBP bindings in the MMIO table' % n_dsp)
    # channel index per register: 0x0C0+4i / 0x0C2+4i use channel i
    for i in range(3):
        for off, role in ((0xC0 + 4 * i, 'set'), (0xC0 + 4 * i, 'get'), (0xC2 + 4 * i, 'get')):
            ctx.inst(R)
            x = M.cells.get(off, {}).get(role)
            want_fn = {('set', 0): 'SendData', ('get', 0): 'PeekData', ('get', 2): 'RecvData'}[(role, off & 2)]
            if not x or x.get('kind') != 'method' or short_fn(x['fn']) != 'Teakra::Apbp::' + want_fn or x['bound'][0] != i:
                ctx.report(R, ('src/mmio.cpp', 'Teakra::MMIORegion::MMIORegion', M.cells.get(off, {}).get('line', 0)), M.cells.get(off, {}).get('line', 0),
                           'MMIO %03X %s' % (off, role), 'expected %s of channel %d, found %s' % (want_fn, i, x and (x.get('fn'), x.get('bound'))))
    n_host = 0
    for fid, f in F.items():
        if not fid.startswith('Teakra::Teakra::') or '::<lambda' in fid:
            continue
        for n in walk(f.get('body')):
            if n.get('k') == 'call' and short_fn(n.get('fn', '')).startswith('Teakra::Apbp::'):
                p = field_path(n.get('obj'))
                if p:
                    n_host += 1
                    ctx.inst(R)
                    ctx.touch(f)
                    side_check('cpu', n['fn'], p[1], short_fn(fid), n.get('l'))
                    # the index argument is the API's own index parameter
                    if n.get('args') and f.get('params') and f['params'][0]['name'] == 'index':
                        if render(n['args'][0], f) != '$0':
                            ctx.report(R, f, n, short_fn(fid) + ' index', 'host API does not forward its channel index')
    ctx.require(n_host >= 9, 'only %d APBP calls in the host API' % n_host)
    return M


def _sig_expr(f):
    """the `semaphore & ~semaphore_mask` expression node of f, if it has one (used to build the canonical atom)"""
    for n in walk(f.get('body')):
        if n.get('k') == 'bin' and n.get('op') == '&':
            t = render(n, f)
            if 'Impl::semaphore)' in t and 'Impl::semaphore_mask)' in t and '(~ ' in t:
                return n
    return None


def h2_h3_semaphore(ctx, CG):
    R2 = 'C14.H2'
    ctx.rule(R2, 'derived signal flag: every function that writes semaphore or semaphore_mask afterwards assigns '
                 'semaphore_master_signal from (semaphore & ~semaphore_mask) != 0 (or keeps it true together with that value) '
                 'on every path; set accumulates (|=), acknowledge clears (&= ~bits), mask stores', floor=4)
    R3 = 'C14.H3'
    ctx.rule(R3, 'the semaphore handler is invoked only under the freshly computed signal being true, under the recursive '
                 'semaphore mutex, and never from ClearSemaphore', floor=1)
    F = ctx.F['functions']
    S = '(. (-> f:Teakra::Apbp::impl) %s::semaphore)' % IMPL
    Mk = '(. (-> f:Teakra::Apbp::impl) %s::semaphore_mask)' % IMPL
    MS = '(. (-> f:Teakra::Apbp::impl) %s::semaphore_master_signal)' % IMPL
    X = '(!= (& (~ %s) %s) 0)' % (Mk, S)
    X2 = '(!= (& %s (~ %s)) 0)' % (S, Mk)
    writers = []
    for fid, f in F.items():
        if not is_library(f):
            continue
        ws = [(p, n, how) for p, n, how in direct_writes(f.get('body')) if p[0] == IMPL and p[1] in ('semaphore', 'semaphore_mask')]
        if ws:
            writers.append((f, ws))
    ctx.require(len(writers) >= 4, 'semaphore writers vanished')
    for f, ws in writers:
        ctx.inst(R2)
        ctx.touch(f)
        r = Renderer(f)
        stmts = f['body'].get('body', [])
        # position of the last semaphore/mask write and of the flag assignment among the top-level statements
        def top_index(node):
            for i, st in enumerate(stmts):
                if any(x is node for x in walk(st)):
                    return i
            return -1
        last_w = max(top_index(n) for p, n, how in ws)
        flag = [(top_index(n), n) for p, n, how in direct_writes(f['body']) if p[0] == IMPL and p[1] == 'semaphore_master_signal']
        name = short_fn(f['id'])
        if not flag:
            ctx.report(R2, f, f['body'], name, 'writes the semaphore state but does not recompute semaphore_master_signal')
            continue
        fi, fn_ = max(flag, key=lambda x: x[0])
        if fi < last_w:
            ctx.report(R2, f, fn_, name, 'semaphore_master_signal is assigned before the last write of semaphore / semaphore_mask')
        # value of the flag at exit, per path: assigned value under the path condition of the assignment, the old value
        # on the remaining paths; it must equal SIG (or old || SIG, which is the same under the invariant old == SIG
        # before a set) on every path
        FM = boolform.Former(f)
        SIG = boolform.A('(& %s %s)' % tuple(sorted([S, '(~ %s)' % Mk])))
        OLD = boolform.A(MS)
        wants = [SIG, boolform.disj(OLD, SIG)]
        if f['name'] == 'Reset':
            wants = [boolform.F_]
        assigned = [(boolform.path_condition(f['body'], n, FM), FM.form(n.get('rhs')), n) for i_, n in flag]
        rest = boolform.T
        for pc, v, n in assigned:
            rest = boolform.all_of(rest, boolform.neg(pc))
        cases = assigned + [(rest, OLD, fn_)]
        ok = any(all(boolform.equivalent(v, w, assume=pc) is True for pc, v, n in cases) for w in wants)
        if not ok:
            ctx.report(R2, f, fn_, name, 'semaphore_master_signal is left as %s, expected (semaphore & ~semaphore_mask) != 0'
                       % ' / '.join('%s when %s' % (boolform.show(v), boolform.show(pc)) for pc, v, n in cases)[:300])
        # operation kinds
        for p, n, how in ws:
            ctx.oblig(R2)
            nm = f['name']
            rr = r.r(n.get('rhs'))
            if nm == 'SetSemaphore' and not (p[1] == 'semaphore' and how == '|=' and rr == '$0'):
                ctx.report(R2, f, n, name + ' op', 'set must accumulate bits (semaphore |= bits)')
            if nm == 'ClearSemaphore' and not (p[1] == 'semaphore' and how == '&=' and rr == '(~ $0)'):
                ctx.report(R2, f, n, name + ' op', 'acknowledge must clear exactly the given bits (semaphore &= ~bits)')
            if nm == 'MaskSemaphore' and not (p[1] == 'semaphore_mask' and how == '=' and rr == '$0'):
                ctx.report(R2, f, n, name + ' op', 'mask write must store the mask')
            locks = [l[0] for l in CG.locks_held_at(f, n)]
            if f['cls'] == 'Teakra::Apbp' and f['name'] != 'Reset' and (IMPL, 'semaphore_mutex') not in locks:
                ctx.report(R2, f, n, name + ' lock', 'semaphore state written outside semaphore_mutex')
    # handler invocations
    for fid, f in F.items():
        if not is_library(f):
            continue
        for n in walk(f.get('body')):
            if n.get('k') == 'opcall' and n.get('op') == '()' and n.get('args') and field_path(n['args'][0]) == (IMPL, 'semaphore_handler', None):
                ctx.inst(R3)
                ctx.touch(f)
                r = Renderer(f)
                FM = boolform.Former(f)
                pc = boolform.path_condition(f['body'], n, FM)
                name = short_fn(fid)
                SIG = boolform.A('(& %s %s)' % tuple(sorted([S, '(~ %s)' % Mk])))
                if boolform.implies(pc, SIG) is not True:
                    ctx.report(R3, f, n, name + ' handler', 'semaphore handler fired without the freshly computed signal being true: ' + boolform.show(pc)[:300])
                if f['name'] == 'ClearSemaphore':
                    ctx.report(R3, f, n, name + ' handler', 'acknowledging a semaphore must never interrupt the peer')
                held = CG.locks_held_at(f, n)
                if ((IMPL, 'semaphore_mutex'), True) not in held:
                    ctx.report(R3, f, n, name + ' handler lock', 'handler not invoked under the recursive semaphore mutex (ordering with the state update)')
    # getters
    for nm, fld in (('GetSemaphore() const', 'semaphore'), ('GetSemaphoreMask() const', 'semaphore_mask'), ('IsSemaphoreSignaled() const', 'semaphore_master_signal')):
        f = ctx.fn('Teakra::Apbp::' + nm)
        ctx.inst(R2)
        if [render(n['e'], f) for n in walk(f['body']) if n.get('k') == 'return'] != ['(. (-> f:Teakra::Apbp::impl) %s::%s)' % (IMPL, fld)] \
                or list(direct_writes(f['body'])):
            ctx.report(R2, f, f['body'], 'Apbp::' + nm.split('(')[0], 'must return %s and write nothing' % fld)


def h4_views(ctx, M):
    R = 'C14.H4'
    ctx.rule(R, 'both views agree: the DSP status bits R0-R2 / C0-C2 / CI0-CI2 / S of 0x0D4, 0x0D6, 0x0D8 (names from apbp.md) '
                'and the host calls RecvDataIsReady / SendDataIsEmpty read IsDataReady(i) of the same mailbox object', floor=16)
    from .c12 import load_docs
    from .. import docs
    D = load_docs(ctx)
    F = ctx.F['functions']
    for off in (0xD4, 0xD6, 0xD8):
        c = M.cells.get(off)
        ctx.require(c is not None and c['kind'] == 'bitfield', 'APBP status cell %03X is not a bit-field cell' % off)
        rows = D.get(off)
        ctx.require(rows, 'apbp.md has no diagram row for %03X' % off)
        for hi, lo, name in rows[0]['fields']:
            if docs.unnamed(name):
                continue
            want = None
            if len(name) == 2 and name[0] == 'R' and name[1].isdigit():
                want = ('Teakra::Apbp::IsDataReady', 'apbp_from_dsp', int(name[1]))
            elif len(name) == 2 and name[0] == 'C' and name[1].isdigit():
                want = ('Teakra::Apbp::IsDataReady', 'apbp_from_cpu', int(name[1]))
            elif len(name) == 3 and name[:2] == 'CI' and name[2].isdigit():
                want = ('Teakra::Apbp::GetDisableInterrupt', 'apbp_from_cpu', int(name[2]))
            elif name == 'S':
                want = ('Teakra::Apbp::IsSemaphoreSignaled', 'apbp_from_cpu', None)
            if want is None:
                continue
            ctx.inst(R)
            slot = [s for s in c['slots'] if s['pos'] == lo and s['len'] == hi - lo + 1]
            loc = ('src/mmio.cpp', 'Teakra::MMIORegion::MMIORegion', c['line'])
            if not slot:
                ctx.report(R, loc, c['line'], 'MMIO %03X %s' % (off, name), 'documented status bit %s (bit %d) is not modelled' % (name, lo))
                continue
            g = slot[0]['get']
            got = (short_fn(g.get('call_fn') or g.get('fn') or ''), g.get('obj'), (g.get('bound') or [None])[0] if want[2] is not None else None)
            if got != want:
                ctx.report(R, loc, slot[0]['line'], 'MMIO %03X %s' % (off, name), 'status bit %s reads %s, expected %s' % (name, got, want))
    f = ctx.fn('Teakra::Teakra::RecvDataIsReady(unsigned char) const')
    ctx.inst(R)
    if '(return (call Teakra::Apbp::IsDataReady on (. (-> f:Teakra::Teakra::impl) Teakra::Teakra::Impl::apbp_from_dsp) $0))' not in render_stmt(f['body'], f):
        ctx.report(R, f, f['body'], 'Teakra::RecvDataIsReady', 'host view is not apbp_from_dsp.IsDataReady(index)')
    f = ctx.fn('Teakra::Teakra::SendDataIsEmpty(unsigned char) const')
    ctx.inst(R)
    if '(return (! (call Teakra::Apbp::IsDataReady on (. (-> f:Teakra::Teakra::impl) Teakra::Teakra::Impl::apbp_from_cpu) $0)))' not in render_stmt(f['body'], f):
        ctx.report(R, f, f['body'], 'Teakra::SendDataIsEmpty', 'host view is not !apbp_from_cpu.IsDataReady(index)')


def run(ctx):
    CG = callgraph.CallGraph(ctx.F, is_library)
    M = h1_channel(ctx, CG)
    h2_h3_semaphore(ctx, CG)
    h4_views(ctx, M)
    ctx.sample({'rule': 'C14.H2', 'function': 'Teakra::Apbp::MaskSemaphore', 'flag': '(semaphore & ~semaphore_mask) != 0'})
    ctx.assumptions += ['"returns the most recently written value" across interleavings is an ordering clause (C19), not decided here']
