"""C20 - status/config words are faithful bit-field views of one register state."""
import json
import os
import re

from .. import pseudo
from ..absint import Evaluator
from ..astq import walk, const_value, unwrap_casts, field_path
from ..facts import AnalysisBroken, VERIF
from ..norm import render, render_stmt, Renderer, short_fn

RS = 'Teakra::RegisterState'


def _delegate(ctx, f, depth=0):
    """a proxy accessor that only forwards its own parameters, in order, to another accessor of the repo
       (`Get(s) { return Redirector<...>::Get(s); }`) is judged by the accessor it forwards to"""
    body = f.get('body') or {}
    stmts = [x for x in body.get('body', []) if x.get('k') != 'null'] if body.get('k') == 'block' else []
    if len(stmts) != 1 or depth > 3:
        return f
    st = stmts[0]
    c = st.get('e') if st.get('k') == 'return' else st
    while isinstance(c, dict) and c.get('k') == 'cast':
        c = c.get('e')
    if not (isinstance(c, dict) and c.get('k') == 'call' and c.get('obj') is None and c.get('fn') in ctx.F['functions']):
        return f
    g = ctx.F['functions'][c['fn']]
    args = c.get('args', [])
    if len(args) != len(f.get('params', [])) or len(args) != len(g.get('params', [])):
        return f
    for i, a in enumerate(args):
        while isinstance(a, dict) and a.get('k') == 'cast':
            a = a.get('e')
        if not (isinstance(a, dict) and a.get('k') == 'ref' and a.get('dk') == 'parm' and a.get('idx') == i):
            return f
    return _delegate(ctx, g, depth + 1)


def _slot_key(s):
    return tuple(s['targets'])


def w1_w3(ctx, W):
    ctx.rule('C20.W1', 'per word: slots pairwise disjoint and inside 16 bits, slot mask statics agree with pos/len '
                       '(recomputed from the instantiated packs, independent of the in-source static_assert)', floor=19)
    ctx.rule('C20.W2', 'one width per basic field across all words that expose it', floor=60)
    ctx.rule('C20.W3', 'access mode is a property of the field: read-only fields are read-only in every word, '
                       'lp only through LPRedirector, the doubled limit flag only in st0 as DoubleRedirector<flm,fvl>', floor=60)
    widths = {}
    modes = {}
    for w, d in W.items():
        ctx.inst('C20.W1')
        used = 0
        for s in d['slots']:
            ctx.oblig('C20.W1')
            loc = (d['file'], 'Teakra::' + w, d['line'])
            key = '%s[%d+%d]' % (w, s['pos'], s['len'])
            m = ((1 << s['len']) - 1) << s['pos']
            if s['len'] < 1 or s['pos'] + s['len'] > 16:
                ctx.report('C20.W1', loc, d['line'], key, 'slot does not fit in 16 bits')
            if used & m:
                ctx.report('C20.W1', loc, d['line'], key, 'slot overlaps another slot of %s' % w)
            used |= m
            st = s.get('statics', {})
            # a static member that nothing odr-uses is not instantiated and has no value; those that have one must agree
            if any(st.get(k_) is not None and st.get(k_) != v_ for k_, v_ in (('pos', s['pos']), ('len', s['len']), ('mask', m))) \
                    or st.get('mask') is None:
                ctx.report('C20.W1', loc, d['line'], key, 'ProxySlot statics (pos/len/mask) disagree with its template arguments')
            if s.get('unknown'):
                ctx.report('C20.W1', loc, d['line'], key, 'unknown proxy kind %s' % s['kind'])
            for t in s['targets']:
                ctx.inst('C20.W2')
                widths.setdefault(t, set()).add(s['len'])
                ctx.inst('C20.W3')
                modes.setdefault(t, set()).add((s['kind'], w))
    for t, ws in sorted(widths.items(), key=str):
        if len(ws) != 1:
            ctx.report('C20.W2', ('include/teakra/impl/register.h', RS, 0), 0, 'field %s[%s]' % t,
                       'field is exposed with different widths %s in different words' % sorted(ws))
    RO_KINDS = ('RORedirector', 'ArrayRORedirector')
    for t, ms in sorted(modes.items(), key=str):
        kinds = {k for k, _ in ms}
        ro = {k in RO_KINDS for k in kinds}
        if len(ro) != 1:
            ctx.report('C20.W3', ('include/teakra/impl/register.h', RS, 0), 0, 'field %s[%s]' % t,
                       'field is read-only in some words and writable in others: %s' % sorted(ms))
        if t[0] == 'lp' and kinds != {'LPRedirector'}:
            ctx.report('C20.W3', ('include/teakra/impl/register.h', RS, 0), 0, 'field lp', 'lp bound through %s' % sorted(kinds))
    for w, d in W.items():
        for s in d['slots']:
            if s['kind'] == 'DoubleRedirector' and (w != 'st0' or s['targets'] != [('flm', None), ('fvl', None)]):
                ctx.report('C20.W3', (d['file'], 'Teakra::' + w, d['line']), d['line'], '%s[%d]' % (w, s['pos']),
                           'DoubleRedirector used outside st0<flm,fvl>')
    # the set of fields that must be read-only (interrupt pending bits, input pins, loop nest counter, constant)
    for t in (('ip', 0), ('ip', 1), ('ip', 2), ('ipv', None), ('iu', 0), ('iu', 1), ('bcn', None), ('mod0_unk_const', None)):
        ctx.require(t in modes, 'field %s[%s] is not exposed by any status word any more' % t)
        if any(k not in RO_KINDS for k, _ in modes[t]):
            ctx.report('C20.W3', ('include/teakra/impl/register.h', RS, 0), 0, 'field %s[%s]' % t,
                       'hardware-owned field is writable through %s' % sorted(modes[t]))
    return widths


def w4_proxies(ctx, W):
    R = 'C20.W4'
    ctx.rule(R, 'proxy bodies: each redirector Get reads exactly its target(s), Set writes exactly its target(s) (nothing for RO); '
                'PseudoRegister::Get ORs proxy::Get << pos and PseudoRegister::Set passes (value >> pos) & (2^len-1) to each slot', floor=19 * 2 + 60)
    F = ctx.F['functions']
    done = set()
    for w, d in W.items():
        # the word's own Get / Set
        g = ctx.fn('%s::Get(const Teakra::RegisterState *)' % d['type_s'])
        s_ = ctx.fn('%s::Set(Teakra::RegisterState *,unsigned short)' % d['type_s'])
        ctx.inst(R, 2)
        # Get: flattened OR of (<< (call P::Get $0) pos)
        terms = []

        def flat(e):
            e = unwrap_casts(e)
            if e.get('k') == 'bin' and e.get('op') == '|':
                flat(e['lhs'])
                flat(e['rhs'])
            else:
                terms.append(render(e, g))
        rets = [n['e'] for n in walk(g['body']) if n.get('k') == 'return' and n.get('e') is not None]
        if len(rets) != 1:
            ctx.report(R, g, g['body'], w + '::Get', 'Get has %d return statements' % len(rets))
        else:
            flat(rets[0])
            want = sorted('(<< (call %s::Get $0) %d)' % (s['proxy_s'], s['pos']) for s in d['slots'])
            if sorted(terms) != want:
                ctx.report(R, g, g['body'], w + '::Get', 'Get is not the OR of every slot\'s proxy::Get(self) << pos')
        calls = [n for n in walk(s_['body']) if n.get('k') == 'call']
        got = sorted(render(c, s_) for c in calls if not short_fn(c.get('fn', '')).startswith('SignExtend'))
        want = sorted('(call %s::Set $0 (& (>> $1 %d) %d))' % (s['proxy_s'], s['pos'], (1 << s['len']) - 1) for s in d['slots'])
        if got != want:
            ctx.report(R, s_, s_['body'], w + '::Set',
                       'Set does not hand (value >> pos) & (2^len-1) to exactly the proxies of its own slots')
        if any(n.get('k') == 'assign' for n in walk(s_['body'])):
            ctx.report(R, s_, s_['body'], w + '::Set', 'Set writes register state directly')
        for s in d['slots']:
            if s['proxy_s'] in done:
                continue
            done.add(s['proxy_s'])
            pg = ctx.fn('%s::Get(const Teakra::RegisterState *)' % s['proxy_s'])
            ps = ctx.fn('%s::Set(Teakra::RegisterState *,unsigned short)' % s['proxy_s'])
            ctx.inst(R, 2)
            gb = render_stmt(_delegate(ctx, pg)['body'], _delegate(ctx, pg))
            sb = render_stmt(_delegate(ctx, ps)['body'], _delegate(ctx, ps))
            key = s['proxy_s'].replace('Teakra::', '')
            k = s['kind']
            if k in ('Redirector', 'RORedirector'):
                f = s['targets'][0][0]
                wg = '{(return (->* $0 (& %s)))}' % f
                wsb = '{(= (->* $0 (& %s)) $1)}' % f if k == 'Redirector' else '{}'
            elif k in ('ArrayRedirector', 'ArrayRORedirector'):
                f, i = s['targets'][0]
                wg = '{(return ([] (->* $0 (& %s)) %d))}' % (f, i)
                wsb = '{(= ([] (->* $0 (& %s)) %d) $1)}' % (f, i) if k == 'ArrayRedirector' else '{}'
            elif k == 'DoubleRedirector':
                a, b = s['targets'][0][0], s['targets'][1][0]
                wg = '{(return (| (->* $0 (& %s)) (->* $0 (& %s))))}' % tuple(sorted((a, b)))
                # both targets receive the value
                wrt = set()
                for n in walk(ps['body']):
                    if n.get('k') == 'assign' and n.get('op') == '=':
                        p = field_path(n['lhs'])
                        if p:
                            wrt.add(p[1])
                        rr = n['rhs']
                        while isinstance(rr, dict) and rr.get('k') in ('assign', 'cast'):
                            rr = rr.get('rhs') if rr.get('k') == 'assign' else rr.get('e')
                        if render(rr, ps) != '$1':
                            wrt.add('<not the written value>')
                if wrt != {a, b}:
                    ctx.report(R, ps, ps['body'], key + '::Set', 'doubled limit flag Set writes %s, expected both %s and %s' % (sorted(wrt), a, b))
                wsb = sb
            elif k == 'AccEProxy':
                i = s['targets'][0][1]
                wg = '{(return (& (>> ([] (. $0 %s::a) %d) 32) 15))}' % (RS, i)
                # Set: the accumulator keeps its low 32 bits and takes the sign-extended 4-bit value above them, however the
                # statement(s) are phrased (one assignment or an &= / |= pair)
                from .. import summ as _summ, boolform as _bf
                AI = '([] (. $0 %s::a) %d)' % (RS, i)
                fv = _summ.summary(ctx, ps, asserts='ignore').final_values()
                want_v = '(| (& %s 4294967295) (<< (call SignExtend<4U, unsigned int> $1) 32))' % AI
                if set(fv) != {AI} or set(fv[AI]) != {want_v} or _bf.equivalent(fv[AI][want_v], _bf.T) is not True:
                    ctx.report(R, ps, ps['body'], key + '::Set', 'Set leaves %s, expected a[%d] = (a[%d] & 0xFFFFFFFF) | SignExtend<4>(value) << 32'
                               % ({k_[-30:]: sorted(v_)[:2] for k_, v_ in fv.items()}, i, i))
                wsb = sb
            elif k == 'LPRedirector':
                wg = '{(return (. $0 %s::lp))}' % RS
                wsb = None
                # write-one-to-clear: under value != 0 clears lp and bcn, otherwise nothing
                from .. import summ, boolform
                eff = summ.summary(ctx, ps, asserts='ignore').effect_conditions()
                VAL = boolform.A('$1')
                okl = {k_[:4] for k_ in eff} == {('write', '(. $0 %s::lp)' % RS, '=', '0'), ('write', '(. $0 %s::bcn)' % RS, '=', '0')} \
                    and all(boolform.equivalent(c, VAL) is True for c in eff.values())
                if not okl:
                    ctx.report(R, ps, ps['body'], key + '::Set', 'LPRedirector::Set is not `if (value) { lp = 0; bcn = 0; }`')
                wsb = sb
            else:
                ctx.report(R, pg, pg['body'], key, 'unknown proxy kind')
                continue
            # a field named directly and the same field named through its member pointer are one and the same
            canon = lambda t: re.sub(r'\(\. \$0 %s::(\w+)\)' % re.escape(RS), r'(->* $0 (& \1))', t) if isinstance(t, str) else t
            if canon(gb) != canon(wg):
                ctx.report(R, pg, pg['body'], key + '::Get', 'Get reads %s, expected %s' % (gb, wg))
            if canon(sb) != canon(wsb):
                ctx.report(R, ps, ps['body'], key + '::Set', 'Set is %s, expected %s' % (sb, wsb))
    # RegisterState::Get<T>/Set<T> forward to T::Get/Set
    n = 0
    for fid, f in F.items():
        if fid.startswith(RS + '::Get<') or fid.startswith(RS + '::Set<'):
            n += 1
            ctx.touch(f)
            b = render_stmt(f['body'], f)
            tj = f.get('ta', [{}])[0].get('t', {}).get('s', '?')
            want = '{(return (call %s::Get this))}' % tj if '::Get<' in fid else '{(call %s::Set this $0)}' % tj
            if b != want:
                ctx.report(R, f, f['body'], short_fn(fid)[:60], 'RegisterState::Get/Set<T> does not forward to T: ' + b[:120])
    ctx.oblig(R, n)
    ctx.require(n >= 38, 'RegisterState::Get/Set<T> instantiations missing (%d)' % n)


def w6_layout(ctx, W):
    R = 'C20.W6'
    ctx.rule(R, 'architectural layout (T-rule): word -> (pos, len, proxy kind, storage) equals tables/c20_layout.json, '
                'so a field shared by a TeakLite and a Teak word is bound to the same storage in both', floor=19)
    tab = json.load(open(os.path.join(VERIF, 'tsa', 'tables', 'c20_layout.json')))['words']
    for w, d in W.items():
        ctx.inst(R)
        got = sorted([s['pos'], s['len'], s['kind'], [list(t) for t in s['targets']]] for s in d['slots'])
        want = sorted(tab.get(w, []))
        ctx.oblig(R, max(0, len(want) - 1))
        if got == want:
            continue
        gs = {(g[0], g[1]): g for g in got}
        wsd = {(x[0], x[1]): x for x in want}
        for k in sorted(set(gs) | set(wsd)):
            if gs.get(k) != wsd.get(k):
                ctx.report(R, (d['file'], 'Teakra::' + w, d['line']), d['line'], '%s[%d+%d]' % (w, k[0], k[1]),
                           'layout differs from the architectural table: source has %s, table has %s' % (gs.get(k), wsd.get(k)))


def _extract_pattern(e):
    """recognise ((X[idx] >> sh) & mask) [+ c]  ->  dict(field, idx, shift, mask, add)"""
    e = unwrap_casts(e)
    add = 0
    if e.get('k') == 'bin' and e.get('op') == '+' and const_value(e.get('rhs')) is not None:
        add = const_value(e['rhs'])
        e = unwrap_casts(e['lhs'])
    if not (e.get('k') == 'bin' and e.get('op') == '&'):
        return None
    m = const_value(e.get('rhs'))
    inner = unwrap_casts(e.get('lhs'))
    if m is None:
        m = const_value(e.get('lhs'))
        inner = unwrap_casts(e.get('rhs'))
    if m is None:
        return None
    shift = None
    if inner.get('k') == 'bin' and inner.get('op') == '>>':
        shift = inner.get('rhs')
        inner = unwrap_casts(inner.get('lhs'))
    if inner.get('k') == 'opcall' and inner.get('op') == '[]':
        base, idx = inner['args'][0], inner['args'][1]
    elif inner.get('k') == 'index':
        base, idx = inner['base'], inner['idx']
    else:
        return None
    p = field_path(base)
    if p is None:
        return None
    return {'field': p[1], 'idx': idx, 'shift': shift, 'mask': m, 'add': add}


def w7_decoders(ctx, W):
    R = 'C20.W7'
    ctx.rule(R, 'the ar/arp bit positions of register.h equal those implied by the shift/mask expressions of the annotated '
                'disassembler (DsmArRn/DsmArStep/DsmArpRni/j/DsmArpStepi/j) and of the test generator (GenerateRandomState), '
                'evaluated for every operand index; step/offset name tables follow ConvertArStep / OffsetValue order', floor=25)
    ev = Evaluator(ctx.F)
    F = ctx.F['functions']

    def slot_of(field, k):
        for w in ('ar0', 'ar1', 'arp0', 'arp1', 'arp2', 'arp3'):
            for s in W[w]['slots']:
                if s['targets'] == [(field, k)]:
                    wi = int(w[-1])
                    return ('ar' if w.startswith('ar') and not w.startswith('arp') else 'arp', wi, s['pos'], s['len'])
        raise AnalysisBroken('C20: no ar/arp slot for %s[%d]' % (field, k))

    def check(fn, pats, field_for, desc, operand_values, add_expected=0, combined=None):
        """pats: extract-patterns found in fn; each is evaluated for all operand values"""
        for v in operand_values:
            for pat in pats:
                env = dict(v)
                wi = ev.eval(pat['idx'], env)
                sh = ev.eval(pat['shift'], env) if pat['shift'] is not None else 0
                ctx.oblig(R)
                if wi is None or sh is None:
                    raise AnalysisBroken('C20.W7: cannot evaluate %s for %s' % (desc, v))
                k = v['_k']
                if combined:
                    # one 5-bit extract holding step (low 3) and offset (high 2)
                    for fld, off, ln in combined:
                        arr, word, pos, length = slot_of(fld, k)
                        if (pat['field'], wi, sh + off, ln) != (arr, word, pos, length) or pat['mask'] != 31:
                            ctx.report(R, fn, fn['body'], '%s#%d' % (desc, k),
                                       '%s decodes %s[%d] from %s[%d] bits %d+%d, register.h places it at %s[%d] bits %d+%d'
                                       % (desc, fld, k, pat['field'], wi, sh + off, ln, arr, word, pos, length))
                else:
                    arr, word, pos, length = slot_of(field_for, k)
                    if (pat['field'], wi, sh, pat['mask'], pat['add']) != (arr, word, pos, (1 << length) - 1, add_expected):
                        ctx.report(R, fn, fn['body'], '%s#%d' % (desc, k),
                                   '%s decodes %s[%d] as (%s[%d] >> %d) & %d (+%d); register.h places it at %s[%d] bits %d+%d'
                                   % (desc, field_for, k, pat['field'], wi, sh, pat['mask'], pat['add'], arr, word, pos, length))

    D = 'Teakra::Disassembler::Disassembler::'
    groups = {}
    for fid, f in F.items():
        for nm in ('DsmArRn', 'DsmArStep', 'DsmArpRni', 'DsmArpRnj', 'DsmArpStepi', 'DsmArpStepj'):
            if f['qname'] == D + nm:
                groups.setdefault(nm, []).append(f)
    for nm in ('DsmArRn', 'DsmArStep', 'DsmArpRni', 'DsmArpRnj', 'DsmArpStepi', 'DsmArpStepj'):
        ctx.require(nm in groups, 'disassembler helper %s has no instantiation' % nm)
        for f in groups[nm]:
            ctx.touch(f)
            ctx.inst(R)
            pats = []
            for n in walk(f['body']):
                if n.get('k') == 'bin' and n.get('op') in ('&', '+'):
                    p = _extract_pattern(n)
                    if p and not any(p2 for p2 in pats if p2['_node'] is n):
                        p['_node'] = n
                        pats.append(p)
            # keep outermost patterns only (the `+ 4` form contains the `&` form)
            outer = []
            for p in pats:
                if not any(q is not p and any(x is p['_node'] for x in walk(q['_node'])) for q in pats):
                    outer.append(p)
            ctx.require(len(outer) == 1, '%s: expected one bit-field extract, found %d' % (nm, len(outer)))
            ptype = f['params'][0]['t']
            tj = None
            rec = ctx.F['records'].get(ptype)
            bits = None
            offset = 0
            if rec:
                for b in rec.get('bases', []):
                    if b.get('tn') == 'ArIndex':
                        bits = b['ta'][0]['i']
                        offset = b['ta'][1]['i'] if len(b['ta']) > 1 else 0
            ctx.require(bits is not None, '%s: operand type %s is not an ArIndex<>' % (nm, ptype))
            vals = [{f['params'][0]['name']: {'storage': sv}, '_k': sv + offset} for sv in range(1 << bits)]
            if nm == 'DsmArRn':
                check(f, outer, 'arrn', nm + '<%s>' % ptype, vals)
            elif nm == 'DsmArStep':
                check(f, outer, None, nm + '<%s>' % ptype, vals, combined=[('arstep', 0, 3), ('aroffset', 3, 2)])
            elif nm == 'DsmArpRni':
                check(f, outer, 'arprni', nm + '<%s>' % ptype, vals)
            elif nm == 'DsmArpRnj':
                check(f, outer, 'arprnj', nm + '<%s>' % ptype, vals, add_expected=4)
            elif nm == 'DsmArpStepi':
                check(f, outer, None, nm + '<%s>' % ptype, vals, combined=[('arpstepi', 0, 3), ('arpoffseti', 3, 2)])
            elif nm == 'DsmArpStepj':
                check(f, outer, None, nm + '<%s>' % ptype, vals, combined=[('arpstepj', 0, 3), ('arpoffsetj', 3, 2)])
    # name tables
    f = ctx.fn(D + 'ConvertArStepAndOffset(unsigned short)')
    ctx.inst(R)
    tabs = {}
    for n in walk(f['body']):
        if n.get('k') == 'var' and n.get('static'):
            tabs[n['name']] = [x['v'] for x in walk(n.get('init')) if x.get('k') == 'str']
    ret = [render(n['e'], f) for n in walk(f['body']) if n.get('k') == 'return']
    STEP = ['++0', '++1', '--1', '++s', '++2', '--2', '++2*', '--2*']
    OFFS = ['+0', '+1', '-1', '-1*']
    names = sorted(tabs)
    steps = [k for k, v in tabs.items() if len(v) == 8]
    offs = [k for k, v in tabs.items() if len(v) == 4]
    ctx.require(len(steps) == 1 and len(offs) == 1, 'ConvertArStepAndOffset: name tables not found')
    if tabs[steps[0]] != STEP:
        ctx.report(R, f, f['body'], 'step_names', 'step name table %s is not in ar-step code order %s' % (tabs[steps[0]], STEP))
    if tabs[offs[0]] != OFFS:
        ctx.report(R, f, f['body'], 'offset_names', 'offset name table %s is not in OffsetValue order %s' % (tabs[offs[0]], OFFS))
    want = '(+ (call std::array<std::basic_string<char>, 4>::operator[] on %s (>> $0 3)) (call std::array<std::basic_string<char>, 8>::operator[] on %s (& $0 7)))'
    if not (len(ret) == 1 and '(>> $0 3)' in ret[0] and '(& $0 7)' in ret[0]
            and ret[0].index(offs[0]) < ret[0].index('(>> $0 3)') and ret[0].index(steps[0]) < ret[0].index('(& $0 7)')
            and ret[0].index('(>> $0 3)') < ret[0].index(steps[0])):
        ctx.report(R, f, f['body'], 'ConvertArStepAndOffset', 'does not print offset_names[v >> 3] + step_names[v & 7]: %s' % ret)
    # interpreter: ConvertArStep code -> StepValue in enum order, OffsetValue numeric identity
    f = ctx.fn('Teakra::Interpreter::ConvertArStep(unsigned short)')
    ctx.inst(R)
    cases = {}
    cur = []
    sw = [n for n in walk(f['body']) if n.get('k') == 'switch']
    ctx.require(len(sw) == 1, 'ConvertArStep: switch not found')
    for n in walk(sw[0]['body']):
        if n.get('k') == 'case':
            cur.append(const_value(n['val']))
        elif n.get('k') == 'return' and n.get('e') is not None:
            v = const_value(n['e'])
            for c in cur:
                cases[c] = v
            cur = []
    ORDER = ['Zero', 'Increase', 'Decrease', 'PlusStep', 'Increase2Mode1', 'Decrease2Mode1', 'Increase2Mode2', 'Decrease2Mode2']
    en = ctx.F['enums'].get('StepValue')
    ctx.require(en is not None, 'enum StepValue vanished')
    val = {e['name']: e['v'] for e in en['enumerators']}
    for code, nm in enumerate(ORDER):
        ctx.oblig(R)
        if cases.get(code) != val.get(nm):
            ctx.report(R, f, sw[0], 'ConvertArStep#%d' % code, 'ar-step code %d maps to StepValue %s, architecture says %s' % (code, cases.get(code), nm))
    en = ctx.F['enums'].get('Teakra::Interpreter::OffsetValue')
    ctx.require(en is not None, 'enum Interpreter::OffsetValue vanished')
    ov = {e['name']: e['v'] for e in en['enumerators']}
    if ov != {'Zero': 0, 'PlusOne': 1, 'MinusOne': 2, 'MinusOneDmod': 3}:
        ctx.report(R, ('src/interpreter.h', 'Teakra::Interpreter::OffsetValue', en['line']), en['line'], 'OffsetValue', 'offset codes changed: %s' % ov)
    # interpreter accessors index the field arrays with the operand's Index()
    for q, flds in (('GetArRnUnit', ['arrn']), ('GetArStep', ['arstep']), ('GetArOffset', ['aroffset']),
                    ('GetArpRnUnit', ['arprni', 'arprnj']), ('GetArpStep', ['arpstepi', 'arpstepj']),
                    ('GetArpOffset', ['arpoffseti', 'arpoffsetj'])):
        fs = [x for x in F.values() if x['qname'] == 'Teakra::Interpreter::' + q]
        ctx.require(fs, 'Interpreter::%s has no instantiation' % q)
        for f in fs:
            ctx.touch(f)
            ctx.inst(R)
            acc = []
            for n in walk(f['body']):
                if (n.get('k') == 'opcall' and n.get('op') == '[]'):
                    p = field_path(n['args'][0])
                    if p and p[0] == RS:
                        acc.append((p[1], render(n['args'][1], f)))
            np_ = len(f['params'])
            if np_ == 1:
                want = [(fl, '(call %s::Index on $0 )' % _index_owner(ctx, f['params'][0]['t'])) for fl in flds]
            else:
                want = [(flds[0], '(call %s::Index on $0 )' % _index_owner(ctx, f['params'][0]['t'])),
                        (flds[1], '(call %s::Index on $1 )' % _index_owner(ctx, f['params'][1]['t']))]
            if sorted(acc) != sorted(want):
                ctx.report(R, f, f['body'], short_fn(f['id'])[-50:], 'accessor reads %s, expected %s' % (acc, want))
            if q == 'GetArpRnUnit':
                okj = False
                for n in walk(f['body']):
                    if n.get('k') == 'bin' and n.get('op') == '+':
                        for a, b in ((n['lhs'], n['rhs']), (n['rhs'], n['lhs'])):
                            pa = field_path(a)
                            if pa and pa[1] == 'arprnj' and const_value(b) == 4:
                                okj = True
                if not okj:
                    ctx.report(R, f, f['body'], short_fn(f['id'])[-50:], 'j register unit is not arprnj + 4')
    # test generator: GenerateRandomState places Memory-configured registers by decoding ar / arp
    gs = [x for x in F.values() if x['name'] == 'GenerateRandomState']
    ctx.require(len(gs) == 1, 'test generator GenerateRandomState not found')
    g = gs[0]
    ctx.touch(g)
    ctx.inst(R)
    loops = [n for n in walk(g['body']) if n.get('k') == 'for']
    found = {'arrn': 0, 'arprni': 0, 'arprnj': 0}
    for lp in loops:
        cond = render(lp.get('cond'), g, inline_locals=False)
        var = None
        for v in walk(lp.get('init')):
            if v.get('k') == 'var':
                var = v['name']
        for n in walk(lp['body']):
            if n.get('k') == 'opcall' and n.get('op') == '[]' and render(n['args'][0], g, inline_locals=False) == 'l:rp':
                p = _extract_pattern(n['args'][1])
                if not p:
                    continue
                for k in range(4):
                    env = {var: k}
                    wi = ev.eval(p['idx'], env)
                    sh = ev.eval(p['shift'], env) if p['shift'] is not None else 0
                    ctx.oblig(R)
                    if wi is None or sh is None:
                        raise AnalysisBroken('C20.W7: cannot evaluate generator decode expression')
                    if p['field'] == 'ar':
                        fld = 'arrn'
                    elif p['add'] == 4:
                        fld = 'arprnj'
                    else:
                        fld = 'arprni'
                    found[fld] += 1
                    arr, word, pos, length = slot_of(fld, k)
                    if (p['field'], wi, sh, p['mask']) != (arr, word, pos, (1 << length) - 1) or (fld == 'arprnj') != (p['add'] == 4):
                        ctx.report(R, g, n, 'GenerateRandomState %s#%d' % (fld, k),
                                   'generator decodes %s[%d] as (%s[%d] >> %d) & %d, register.h places it at %s[%d] bits %d+%d'
                                   % (fld, k, p['field'], wi, sh, p['mask'], arr, word, pos, length))
    for fld, n in found.items():
        ctx.require(n == 4, 'GenerateRandomState: decode of %s evaluated %d times, expected 4' % (fld, n))


def _index_owner(ctx, t):
    """class that defines Index() for operand type t (ArIndex<bits, offset> base)"""
    rec = ctx.F['records'].get(t)
    if rec:
        for b in rec.get('bases', []):
            if b.get('tn') == 'ArIndex':
                return b['s']
    return t


def run(ctx):
    W = pseudo.words(ctx.F)
    ctx.require(len(W) == 19, 'expected 19 pseudo-register words')
    widths = w1_w3(ctx, W)
    w4_proxies(ctx, W)
    w6_layout(ctx, W)
    w7_decoders(ctx, W)
    from . import widths as wd
    wd.rule_w5(ctx, W)
    if ctx.tier == 'thorough':
        from .. import witness
        witness.c20_layout_witness(ctx)
    ctx.sample({'word': 'st0', 'slots': [(s['pos'], s['len'], s['kind'], s['targets']) for s in W['st0']['slots']]})
    ctx.sample({'word': 'ar0', 'slots': [(s['pos'], s['len'], s['kind'], s['targets']) for s in W['ar0']['slots']]})
    ctx.assumptions += ['tables/c20_layout.json is the architectural reference (pinned hardware-validated upstream layout)']
