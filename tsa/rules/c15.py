"""C15 - timers count, fire and reload exactly per mode; fast-forward is exact (structural parts)."""
import re
from .. import mmio
from ..cases import CaseWalker, NZ
from ..astq import walk, field_path, const_value
from ..guards import guards_at
from ..norm import render, render_stmt, Renderer, short_fn

T = 'Teakra::Timer'
RELOAD = '(| (<< f:Teakra::Timer::start_high 16) f:Teakra::Timer::start_low)'
INF = '18446744073709551615'
MODES = {'Single': 0, 'AutoRestart': 1, 'FreeRunning': 2, 'EventCount': 3}


INERT = set()


def effects(path):
    """state effects of a path: assignments (field, op, rhs), invocations, ignoring the derived MMIO mirror and
       observation-only counters (cases.observation_only_fields)"""
    out = []
    for e in path:
        if e[0] == 'assign' and e[4] not in ('counter_high', 'counter_low') and e[4] not in INERT:
            out.append(('assign', e[4], e[2], e[3]))
        elif e[0] == 'invoke':
            out.append(('invoke', e[1]))
    return out


def run(ctx):
    F = ctx.F['functions']
    from ..cases import observation_only_fields
    INERT.clear()
    INERT.update(observation_only_fields(ctx.F, T) - {'counter', 'pause', 'count_mode', 'start_low', 'start_high', 'scale'})
    if INERT:
        ctx.notes.append('observation-only fields of Timer ignored in effect comparisons: %s' % sorted(INERT))
    fns = {n: ctx.fn('%s::%s' % (T, s)) for n, s in (('Tick', 'Tick()'), ('Skip', 'Skip(unsigned long)'), ('GetMaxSkip', 'GetMaxSkip() const'),
                                                      ('TickEvent', 'TickEvent()'), ('Restart', 'Restart()'), ('UpdateMMIO', 'UpdateMMIO()'))}
    en = ctx.F['enums'].get('Teakra::Timer::CountMode')
    ctx.require(en is not None and {e['name']: e['v'] for e in en['enumerators']} == MODES, 'Timer::CountMode enumerators changed')
    cw = CaseWalker(ctx.F, T)
    T1, T2, T3, T4, T5 = 'C15.T1', 'C15.T2', 'C15.T3', 'C15.T4', 'C15.T5'
    ctx.rule(T1, 'mode dispatch agreement: for every combination of pause x count mode x (counter == 0) the effects of Tick, the '
                 'effects of Skip and the horizon of GetMaxSkip belong to the same arm: paused / event-count => nothing, Infinity; '
                 'zero + auto-restart => reload start_high<<16|start_low in all three; zero + free-running => 0xFFFFFFFF in all '
                 'three; zero + single => nothing, Infinity; non-zero => decrement / subtract / counter-1', floor=16)
    ctx.rule(T2, 'interrupt site: the interrupt slot is invoked only in Tick and TickEvent, control-dependent on counter == 0 right '
                 'after a decrement on the same path; never in Skip / Restart / GetMaxSkip', floor=2)
    ctx.rule(T3, 'event mode: MMIO 0x22/0x32 writes reach TickEvent only; Tick does nothing in event-count mode; TickEvent does '
                 'nothing in the other modes or when paused or at zero', floor=6)
    ctx.rule(T4, 'restart coupling and mirror: bit 10 of 0x20/0x30 calls Restart for a non-zero write only and reads back 0; '
                 'Restart leaves the counter alone in free-running mode; every path that changes counter refreshes the MMIO '
                 'mirror (UpdateMMIO) before returning', floor=6)
    ctx.rule(T5, 'k = 0 neutrality: Skip specialised with ticks = 0 changes no state on any path', floor=8)

    def one(name, case):
        ps = cw.paths(fns[name], case)
        ctx.require(ps, 'no path through Timer::%s for %s' % (name, case))
        return ps

    for pause in (0, 1):
        for mname, mv in MODES.items():
            for czero in (True, False):
                case = {'pause': pause, 'count_mode': mv, 'counter': 0 if czero else NZ, 'update_mmio': 1}
                ctx.inst(T1)
                inst = 'pause=%d mode=%s counter%s0' % (pause, mname, '==' if czero else '!=')
                tick = [effects(p) for p in one('Tick', case)]
                skip = [(effects(p), p) for p in one('Skip', case)]
                hor = sorted({p[-1][1] for p in one('GetMaxSkip', case)})
                # Skip paths with ticks == 0 are T5's business: keep the ticks != 0 ones
                skip_nz = [e for e, p in skip if ('cond', '(== $0 0)', True) not in [x[:3] for x in p]]
                if pause or mname == 'EventCount':
                    want_tick, want_skip, want_h = [[]], [[]], [INF]
                elif czero and mname == 'AutoRestart':
                    want_tick = [[('assign', 'counter', '=', RELOAD)]]
                    want_skip = None
                    want_h = [RELOAD]
                elif czero and mname == 'FreeRunning':
                    want_tick = [[('assign', 'counter', '=', '4294967295')]]
                    want_skip = None
                    want_h = ['4294967295']
                elif czero:
                    want_tick, want_skip, want_h = [[]], [[]], [INF]
                else:
                    want_tick = None
                    want_skip = [[('assign', 'counter', '-=', '$0')]]
                    want_h = ['(- f:Teakra::Timer::counter 1)']
                if want_tick is not None and sorted(map(str, tick)) != sorted(map(str, want_tick)):
                    ctx.report(T1, fns['Tick'], fns['Tick']['body'], 'Tick ' + inst, 'Tick does %s, the mode table says %s' % (tick, want_tick))
                if want_tick is None:
                    # non-zero: decrement exactly once, interrupt only when it reached zero
                    for e in tick:
                        if [x for x in e if x[0] == 'assign'] != [('assign', 'counter', '--', '')]:
                            ctx.report(T1, fns['Tick'], fns['Tick']['body'], 'Tick ' + inst, 'a running timer is not decremented exactly once: %s' % e)
                if want_skip is not None:
                    if sorted(map(str, skip_nz)) != sorted(map(str, want_skip)):
                        ctx.report(T1, fns['Skip'], fns['Skip']['body'], 'Skip ' + inst, 'Skip does %s, the mode table says %s' % (skip_nz, want_skip))
                else:
                    # reload arms: counter = reset - (ticks - 1) with reset the same reload value as Tick / GetMaxSkip
                    from .. import summ, boolform
                    SMs = summ.summary(ctx, fns['Skip'], asserts='ignore')
                    A_, N_ = boolform.A, boolform.neg
                    CM = 'f:%s::count_mode' % T
                    assume = boolform.all_of(N_(A_('f:%s::pause' % T)), N_(A_('f:%s::counter' % T)), A_('$0'),
                                             A_('(== %s %s)' % tuple(sorted([CM, '%s::CountMode::%s' % (T, mname)]))))
                    resets = set()
                    for cond_, seq_, p_ in SMs.effect_sequences(lambda e: e[0] == 'write' and e[1] == 'f:%s::counter' % T):
                        if not boolform.satisfiable(boolform.all_of(cond_, assume)):
                            continue
                        for e_ in seq_:
                            m_ = re.match(r'^\(sum (.+) 1 \| \$0\)$', e_[3]) or re.match(r'^\(sum 1 (.+) \| \$0\)$', e_[3])   # reset - (ticks - 1), linear form
                            resets.add(m_.group(1) if m_ and e_[2] == '=' else '%s %s' % (e_[2], e_[3]))
                    if resets != {want_h[0]}:
                        ctx.report(T1, fns['Skip'], fns['Skip']['body'], 'Skip ' + inst, 'Skip reloads from %s, Tick/GetMaxSkip use %s' % (sorted(resets), want_h[0]))
                    for e in skip_nz:
                        if [x[:3] for x in e] != [('assign', 'counter', '=')]:
                            ctx.report(T1, fns['Skip'], fns['Skip']['body'], 'Skip ' + inst, 'bulk reload is not counter = reset - (ticks - 1): %s' % e)
                if hor != want_h:
                    ctx.report(T1, fns['GetMaxSkip'], fns['GetMaxSkip']['body'], 'GetMaxSkip ' + inst, 'horizon is %s, the mode table says %s' % (hor, want_h))
                # T5 on the same case
                ctx.inst(T5)
                z = [effects(p) for p in cw.paths(fns['Skip'], dict(case, **{})) if True]
                r0 = _skip_zero(ctx, cw, fns['Skip'], case)
                for e in r0:
                    if e:
                        ctx.report(T5, fns['Skip'], fns['Skip']['body'], 'Skip(0) ' + inst, 'Skip(0) is not neutral: %s' % e)
    # T2
    n_inv = 0
    for name, f in fns.items():
        for n in walk(f['body']):
            if n.get('k') == 'opcall' and n.get('op') == '()' and field_path(n['args'][0]) == (T, 'interrupt_handler', None):
                n_inv += 1
                ctx.inst(T2)
                r = Renderer(f, inline_locals=False)
                g = [(r.r(c), pol) for c, pol, s in guards_at(f['body'], n)]
                if name not in ('Tick', 'TickEvent'):
                    ctx.report(T2, f, n, 'interrupt in ' + name, 'timer interrupt raised outside Tick / TickEvent')
                    continue
                if ('(== 0 f:Teakra::Timer::counter)', True) not in g and ('(== f:Teakra::Timer::counter 0)', True) not in g:
                    ctx.report(T2, f, n, 'interrupt guard in ' + name, 'interrupt is not conditional on counter == 0: %s' % g)
                # a decrement precedes it in the same block
                from ..astq import walk_parents
                blk = None
                for x, parents in walk_parents(f['body']):
                    if x is n:
                        blk = [p for p in parents if p.get('k') == 'block']
                ok = False
                for b in (blk or []):
                    txt = [r.s(s) for s in b.get('body', [])]
                    if '(-- f:Teakra::Timer::counter)' in txt and any('interrupt_handler' in t for t in txt):
                        if txt.index('(-- f:Teakra::Timer::counter)') < [i for i, t in enumerate(txt) if 'interrupt_handler' in t][0]:
                            ok = True
                if not ok:
                    ctx.report(T2, f, n, 'interrupt order in ' + name, 'interrupt is not raised right after the decrement that reached zero')
    ctx.require(n_inv >= 2, 'timer interrupt sites not found')
    # T3
    M = mmio.Model(ctx.F)
    for i, off in enumerate((0x22, 0x32)):
        c = M.cells.get(off)
        ctx.inst(T3)
        ok = c and c['set'] and c['set'].get('summary') == 'call' and short_fn(c['set']['call_fn']) == T + '::TickEvent' and c['set']['obj'] == 'timer[%d]' % i \
            and c['set'].get('guard') in ('$0', '(!= $0 0)') and c['get'] and c['get'].get('value') == 0
        if not ok:
            ctx.report(T3, ('src/mmio.cpp', 'Teakra::MMIORegion::MMIORegion', c['line'] if c else 0), c['line'] if c else 0, 'MMIO %03X' % off,
                       'event-write register is not `if (v) timer[%d].TickEvent()` reading 0' % i)
    for pause in (0, 1):
        for mname, mv in MODES.items():
            for czero in (True, False):
                case = {'pause': pause, 'count_mode': mv, 'counter': 0 if czero else NZ, 'update_mmio': 1}
                ctx.inst(T3)
                ev = [effects(p) for p in cw.paths(fns['TickEvent'], case)]
                active = (not pause) and mname == 'EventCount' and not czero
                inst = 'TickEvent pause=%d mode=%s counter%s0' % (pause, mname, '==' if czero else '!=')
                if not active and any(e for e in ev):
                    ctx.report(T3, fns['TickEvent'], fns['TickEvent']['body'], inst, 'event tick has effects outside running event-count mode: %s' % ev)
                if active and any([x for x in e if x[0] == 'assign'] != [('assign', 'counter', '--', '')] for e in ev):
                    ctx.report(T3, fns['TickEvent'], fns['TickEvent']['body'], inst, 'event tick does not decrement exactly once: %s' % ev)
    # T4
    for i, off in enumerate((0x20, 0x30)):
        c = M.cells.get(off)
        ctx.inst(T4)
        sl = [s for s in (c['slots'] if c and c['slots'] else []) if s['pos'] == 10 and s['len'] == 1]
        ok = len(sl) == 1 and sl[0]['set'].get('summary') == 'call' and short_fn(sl[0]['set']['call_fn']) == T + '::Restart' \
            and sl[0]['set']['obj'] == 'timer[%d]' % i and sl[0]['set'].get('guard') in ('$0', '(!= $0 0)') and sl[0]['get'].get('value') == 0
        if not ok:
            ctx.report(T4, ('src/mmio.cpp', 'Teakra::MMIORegion::MMIORegion', c['line'] if c else 0), c['line'] if c else 0, 'MMIO %03X RES' % off,
                       'restart bit is not `if (v) timer[%d].Restart()` reading 0' % i)
    for mname, mv in MODES.items():
        ctx.inst(T4)
        ev = [effects(p) for p in cw.paths(fns['Restart'], {'count_mode': mv, 'update_mmio': 1})]
        want = [[]] if mname == 'FreeRunning' else [[('assign', 'counter', '=', RELOAD)]]
        if ev != want:
            ctx.report(T4, fns['Restart'], fns['Restart']['body'], 'Restart mode=' + mname, 'Restart does %s, expected %s' % (ev, want))
    # mirror pairing: every path with a counter write has a later UpdateMMIO call
    for name in ('Tick', 'Skip', 'TickEvent', 'Restart'):
        for mv in MODES.values():
            for czero in (True, False):
                case = {'pause': 0, 'count_mode': mv, 'counter': 0 if czero else NZ}
                for p in cw.paths(fns[name], case):
                    ctx.oblig(T4)
                    last_w = max([i for i, e in enumerate(p) if e[0] == 'assign' and e[4] == 'counter'] + [-1])
                    last_u = max([i for i, e in enumerate(p) if e[0] in ('call', 'call*') and e[1] == 'UpdateMMIO'] + [-1])
                    if last_w >= 0 and last_u < last_w:
                        ctx.report(T4, fns[name], fns[name]['body'], '%s mirror' % name, 'a path changes counter without refreshing the MMIO mirror afterwards')
    u = fns['UpdateMMIO']
    ctx.inst(T4)
    from .. import summ as _summ, boolform as _bf
    effu = _summ.summary(ctx, u, asserts='ignore').effect_conditions()
    UM = _bf.A('f:Teakra::Timer::update_mmio')
    wantu = {('write', 'f:Teakra::Timer::counter_high', '=', '(>> f:Teakra::Timer::counter 16)'),
             ('write', 'f:Teakra::Timer::counter_low', '=', '(& 65535 f:Teakra::Timer::counter)')}
    if set(effu) != wantu or any(_bf.equivalent(c_, UM) is not True for c_ in effu.values()):
        ctx.report(T4, u, u['body'], 'UpdateMMIO', 'mirror is not counter >> 16 / counter & 0xFFFF under update_mmio: ' + render_stmt(u['body'], u)[:200])
    ctx.sample({'case': 'pause=0 mode=AutoRestart counter==0', 'Tick': 'counter = start', 'GetMaxSkip': 'start', 'Skip': 'counter = start - (k-1)'})
    ctx.assumptions += ['the arithmetic of horizons and bulk updates over all 32-bit values and k is not decided (numerical)']


def _skip_zero(ctx, cw, skip, case):
    """effects of Skip with ticks = 0 under `case`: follow only paths consistent with ticks == 0 and fold `x -= 0`"""
    out = []
    for p in cw.paths(skip, case):
        conds = [x for x in p if x[0] == 'cond' and '$0' in x[1]]
        consistent = True
        for c in conds:
            if c[1] in ('(== $0 0)', '(== 0 $0)') and not c[2]:
                consistent = False
            if c[1] in ('(!= $0 0)', '$0') and c[2]:
                consistent = False
        if not consistent:
            continue
        eff = []
        for e in effects(p):
            if e[0] == 'assign' and e[2] in ('-=', '+=') and e[3] == '$0':
                continue   # x -= 0
            eff.append(e)
        out.append(eff)
    return out
