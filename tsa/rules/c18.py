"""C18 - no guest program or register write makes the emulator touch memory out of bounds.

A complete obligation list over the library: every subscript, every
variable shift, every division, every left shift of a promoted signed value,
the field-width invariants, object lifetime of stored closures, termination
discipline, definite assignment of scalar locals."""
import re

from .. import pseudo
from ..astq import walk, walk_parents, field_path, unwrap_casts, const_value, direct_writes, path_str
from ..bounds import Bounds
from ..facts import AnalysisBroken
from ..flow import Flow, Client
from ..intervals import trange
from ..norm import render, short_fn
from .widths import is_library, WidthProver

RS = 'Teakra::RegisterState'

# extents that are not visible in a type: pointer / vector subscripts, each with the reason
EXTENT_TABLE = {
    ('Teakra::SharedMemory', 'raw'): (0x80000, 'DSP memory block: own std::array<u8,0x80000> or user memory of DspMemorySize bytes (host contract)'),
    ('Teakra::Interpreter', 'decoders'): (0x10000, 'GetDecoderTable pushes one matcher per 16-bit opcode (C02.R0)'),
}
# subscripts in host-facing code whose index comes straight from an API parameter (in-contract host call)
HOST_BOUNDARY_FUNCS = ('Teakra::Teakra::', 'Teakra_', 'Teakra::Disassembler::')
# functions that are only ever evaluated by the compiler (their result is a template argument)
COMPILE_TIME_ONLY = {'intlog2': 'constexpr helper; only used as Operand<intlog2(N)> template argument, `throw` makes a non-power-of-two a compile error'}


def extent_of(ctx, n, f):
    """(extent, description) of the container subscripted by node n, or (None, why)"""
    if n.get('k') == 'opcall':
        cls = n.get('cls', '')
        m = re.match(r'std::array<.*, (\d+)>$', cls)
        if m:
            return int(m.group(1)), cls
        m = re.match(r'std::bitset<(\d+)>$', cls)
        if m:
            return int(m.group(1)), cls
        base = n['args'][0]
    else:
        base = n.get('base')
        t = str((base or {}).get('t', ''))
        m = re.search(r'\[(\d+)\]$', t)
        if m:
            return int(m.group(1)), t
    b = unwrap_casts(base)
    p = field_path(b)
    if p and (p[0], p[1]) in EXTENT_TABLE:
        return EXTENT_TABLE[(p[0], p[1])][0], 'table: ' + EXTENT_TABLE[(p[0], p[1])][1]
    if isinstance(b, dict) and b.get('k') == 'ref' and b.get('dk') == 'staticmember':
        v = ctx.F['vars'].get(b.get('qn'))
        if v and isinstance(v.get('cv'), list):
            return len(v['cv']), 'static array ' + b['qn'][:40]
        if isinstance(b.get('av'), list):
            return len(b['av']), 'static array ' + b['qn'][:40]
    return None, 'extent unknown'


def operand_storage_bounds(ctx, B):
    """Operand<N>::storage < 2^N: proved at its writers (At::Extract, Const::Extract, constructors)"""
    R = 'C18.O3'
    F = ctx.F['functions']
    n = 0
    for fid, f in F.items():
        if not is_library(f):
            continue
        for p, node, how in direct_writes(f.get('body')):
            m = re.match(r'Operand<(\d+)>$', p[0])
            if not m or p[1] != 'storage':
                continue
            bits = int(m.group(1))
            n += 1
            ctx.inst(R)
            ctx.touch(f)
            if not (node.get('k') == 'assign' and how == '='):
                ctx.report(R, f, node, 'Operand<%d>::storage %s' % (bits, how), 'operand storage modified other than by assignment')
                continue
            if bits == 16:
                continue
            rhs = node['rhs']
            iv, why = B.eval_full(f, node, rhs, lambda v: v is not None and v[0] >= 0 and v[1] < (1 << bits))
            # the expansion branch of At::Extract is dead unless pos == 16 (if (NeedExpansion) with a constant condition)
            if why == 'unproved' and B.uses_params(rhs) and B.unreached(f):
                ctx.notes.append('operand constructor without library caller (tools/tests only): ' + fid)
                continue
            if why == 'unproved':
                dead = False
                for c, pol, src in __import__('tsa.guards', fromlist=['guards_at']).guards_at(f['body'], node):
                    cv = const_value(c)
                    if cv is not None and bool(cv) != pol:
                        dead = True
                if dead:
                    continue
                ctx.report(R, f, node, 'Operand<%d>::storage' % bits,
                           'operand storage may exceed %d bits (%s): %s' % (bits, iv, render(rhs, f)[:100]))
    ctx.require(n >= 100, 'only %d operand-storage writers found' % n)
    for bits in range(1, 17):
        B.fb[('Operand<%d>' % bits, 'storage')] = (0, (1 << bits) - 1)
    B.refresh()


def bitfieldslot_bounds(ctx, B):
    """BitFieldSlot::pos / length are fixed at construction: aggregate initialisers {pos, len, set, get} and
       RefSlot(pos, len, var); every such site must have constant pos/len with pos + len <= 16"""
    R = 'C18.O3'
    pos, ln = [], []
    n = 0
    for fid, f in ctx.F['functions'].items():
        if not is_library(f):
            continue
        for x in walk(f.get('body')):
            vals = None
            if x.get('k') == 'initlist' and str(x.get('t', '')).replace('const ', '') == 'Teakra::BitFieldSlot' and len(x.get('elts', [])) >= 2:
                vals = (x['elts'][0], x['elts'][1])
            elif x.get('k') == 'call' and x.get('name') == 'RefSlot' and len(x.get('args', [])) >= 2:
                vals = (x['args'][0], x['args'][1])
            if vals is None:
                continue
            if f.get('name') == 'RefSlot':
                # the factory forwards its own parameters; its call sites are checked above
                continue
            n += 1
            ctx.inst(R)
            p, l = const_value(vals[0]), const_value(vals[1])
            if p is None or l is None or l < 1 or p + l > 16:
                ctx.report(R, f, x, 'BitFieldSlot{%s,%s}' % (p, l), 'bit-field slot position/length is not a constant inside 16 bits')
            else:
                pos.append(p)
                ln.append(l)
    ctx.require(n >= 40, 'only %d BitFieldSlot constructions found' % n)
    # no other writer of pos / length
    for fid, f in ctx.F['functions'].items():
        if not is_library(f):
            continue
        for pth, node, how in direct_writes(f.get('body')):
            if pth[0] == 'Teakra::BitFieldSlot' and pth[1] in ('pos', 'length'):
                ctx.report(R, f, node, 'BitFieldSlot::' + pth[1], 'bit-field slot geometry modified after construction')
    if pos:
        B.fb[('Teakra::BitFieldSlot', 'pos')] = (min(pos), max(pos))
        B.fb[('Teakra::BitFieldSlot', 'length')] = (min(ln), max(ln))


def vector_subscript_ok(f, n):
    from ..norm import Renderer
    """std::vector subscripts have no static extent; accept the idioms whose index is provably below size():
         v[i] inside `for (i = 0; i < v.size() [- c]; ++i)`, v[k] with k = v.size() - c under a guard that the vector has
         at least c elements, locals standing for such expressions; the vector must not shrink in the function.
       returns True / False, or None when n is not a vector subscript"""
    from .. import boolform
    from ..normalize import is_pure
    cls = str(n.get('cls', ''))
    if not cls.startswith('std::vector<') or len(n.get('args', [])) != 2:
        return None
    base, idx = n['args']
    if not is_pure(base):
        return False
    R = Renderer(f, inline_locals=False)
    bt = R.r(base)
    for x in walk(f.get('body')):
        if x.get('k') == 'call' and x.get('obj') is not None and x.get('name') in ('pop_back', 'clear', 'erase', 'resize', 'shrink_to_fit') \
                and R.r(x['obj']) == bt:
            return False
        if x.get('k') in ('assign',) and R.r(x.get('lhs')) == bt:
            return False
    FM = boolform.Former(f, renderer=R, expand_locals=False)
    single = Renderer(f, inline_locals='pure').locals
    loops = [l for l in walk(f.get('body')) if l.get('k') == 'for']

    def is_size(e):
        e = unwrap_casts(e)
        return isinstance(e, dict) and e.get('k') == 'call' and e.get('name') == 'size' and e.get('obj') is not None and R.r(e['obj']) == bt

    def at_least(node, c):
        """is size() >= c known where `node` is evaluated"""
        if c <= 0:
            return True
        pc = boolform.path_condition(f['body'], node, FM, asserts=True)
        size_t = '(call %s::size on %s )' % (cls, bt)
        empty_t = '(call %s::empty on %s )' % (cls, bt)
        if c == 1 and (boolform.implies(pc, boolform.neg(boolform.A(empty_t))) is True or boolform.implies(pc, boolform.A(size_t)) is True):
            return True
        return boolform.implies(pc, boolform.neg(boolform.A('(< %s %d)' % (size_t, c)))) is True

    def slack(e, depth=0):
        """c such that e <= size() - c, or None"""
        e = unwrap_casts(e)
        if not isinstance(e, dict) or depth > 6:
            return None
        if is_size(e):
            return 0
        if e.get('k') == 'bin' and e.get('op') == '-':
            c = const_value(unwrap_casts(e.get('rhs')))
            s0 = slack(e.get('lhs'), depth + 1)
            if c is not None and c >= 0 and s0 is not None and at_least(e, c - s0 if s0 < c else 0):
                return s0 + c
            return None
        if e.get('k') == 'ref' and e.get('dk') == 'local':
            for l in loops:
                inc = unwrap_casts(l.get('inc'))
                if isinstance(inc, dict) and inc.get('k') == 'un' and inc.get('op') in ('++', 'post++') \
                        and unwrap_casts(inc.get('e')).get('name') == e['name'] and any(x is e for x in walk(l.get('body'))):
                    c = unwrap_casts(l.get('cond'))
                    if isinstance(c, dict) and c.get('k') == 'bin' and c.get('op') in ('<', '!=') and unwrap_casts(c['lhs']).get('name') == e['name']:
                        s0 = slack(c['rhs'], depth + 1)
                        # the index must not be changed in the body
                        if s0 is not None and not any(x.get('k') == 'assign' and unwrap_casts(x.get('lhs')).get('name') == e['name'] for x in walk(l.get('body'))):
                            return s0 + 1
                    return None
            if e['name'] in single:
                return slack(single[e['name']], depth + 1)
        return None
    s0 = slack(idx)
    return s0 is not None and s0 >= 1


def o1_subscripts(ctx, B):
    R = 'C18.O1'
    ctx.rule(R, 'every array / std::array / bitset / pointer subscript in the library has an index interval inside the '
                'extent (guards, ASSERTs, masks, operand widths, field-width invariants, caller-derived parameter bounds)', floor=500)
    boundary = []
    for fid, f in ctx.F['functions'].items():
        if not is_library(f):
            continue
        if f.get('lambda') and False:
            continue
        for n in walk(f.get('body')):
            k = n.get('k')
            if k == 'opcall' and n.get('op') == '[]':
                idx = n['args'][1] if len(n.get('args', [])) > 1 else None
                cls = n.get('cls', '')
                if cls.startswith('std::unordered_map') or cls.startswith('std::map') or cls.startswith('std::basic_string'):
                    continue
            elif k == 'index':
                idx = n.get('idx')
            else:
                continue
            ctx.inst(R)
            ctx.touch(f)
            ext, desc = extent_of(ctx, n, f)
            inst = render(n, f, inline_locals=False)[:90]
            if ext is None and vector_subscript_ok(f, n) is True:
                ctx.notes.append('vector subscript proved below size(): %s:%s' % (f['file'], n.get('l')))
                continue
            if ext is None:
                # char* / iterators of the C binding: decided in C05; strings
                bt = str((n.get('base') or {}).get('t', ''))
                if f['file'] in ('src/disassembler_c.cpp',) or 'char' in bt and 'unsigned' not in bt:
                    ctx.notes.append('subscript decided by C05 (caller buffer): %s:%s' % (f['file'], n.get('l')))
                    continue
                ctx.report(R, f, n, inst, 'subscript with unknown extent (%s)' % desc)
                continue
            cv = const_value(idx)
            if cv is not None:
                if not (0 <= cv < ext):
                    ctx.report(R, f, n, inst, 'constant index %d outside extent %d' % (cv, ext))
                continue
            iv, why = B.eval_full(f, n, idx, lambda v: v is not None and v[0] >= 0 and v[1] < ext)
            if why != 'unproved':
                continue
            if any(fid.startswith(h) for h in HOST_BOUNDARY_FUNCS) and B.uses_params(idx):
                boundary.append('%s:%s %s' % (f['file'], n.get('l'), inst))
                continue
            ctx.report(R, f, n, inst, 'index may be out of bounds: interval %s, extent %d (%s)' % (iv, ext, desc[:60]))
    ctx.notes.append('host-contract boundaries (index taken from an API parameter): %s' % (boundary + sorted(B.host_boundaries)))


def _widened_signed(f, node):
    """does the value of `node` (an int expression) reach an implicit conversion to a 64-bit integer type through
       value-preserving int operators only (| & ^ + parentheses), with no cast to a 32-bit unsigned type in between?"""
    chain = None
    for n, parents in walk_parents(f.get('body')):
        if n is node:
            chain = parents
            break
    if chain is None:
        return False
    rev = list(reversed(chain))
    for i_, p in enumerate(rev):
        k = p.get('k')
        t = str(p.get('t', ''))
        if k == 'cast':
            if t in ('unsigned int',):
                return False
            if t in ('unsigned long', 'long', 'unsigned long long', 'long long'):
                # handed straight to SignExtend<N <= 32>: the helper discards the upper bits again (intended sign extension)
                nxt = next((q for q in rev[i_ + 1:] if q.get('k') != 'cast'), None)
                if nxt is not None and nxt.get('k') == 'call' and str(nxt.get('name', '')).startswith('SignExtend'):
                    return False
                return True
            continue
        if k == 'bin' and p.get('op') in ('|', '&', '^', '+') and t == 'int':
            continue
        if k == 'return':
            rt = str(f.get('ret', ''))
            return rt in ('unsigned long', 'long', 'unsigned long long', 'long long')
        return False
    return False


def o2_arith(ctx, B):
    R = 'C18.O2'
    ctx.rule(R, 'every shift by a non-literal amount stays below the promoted width, every / and % has a non-zero divisor, '
                'every left shift of a promoted signed operand stays inside the unsigned range of its type', floor=150)
    for fid, f in ctx.F['functions'].items():
        if not is_library(f):
            continue
        for n in walk(f.get('body')):
            k = n.get('k')
            if k not in ('bin', 'assign'):
                continue
            op = n.get('op')
            if op in ('<<', '>>', '<<=', '>>='):
                lhs, rhs = n.get('lhs'), n.get('rhs')
                lt = n.get('ct') if k == 'assign' else n.get('t')
                tr = trange(lt) or trange((lhs or {}).get('t'))
                if tr is None:
                    continue
                width = 64 if tr[1] > 0xFFFFFFFF or tr[0] < -(1 << 31) else 32
                if const_value(n) is not None:
                    continue
                ctx.inst(R)
                ctx.touch(f)
                inst = render(n, f, inline_locals=False)[:90]
                sv = const_value(rhs)
                if sv is None:
                    iv, why = B.eval_full(f, n, rhs, lambda v: v is not None and v[0] >= 0 and v[1] < width)
                    if why == 'unproved':
                        ctx.report(R, f, n, inst, 'shift amount may be out of range: %s for a %d-bit operand' % (iv, width))
                        continue
                    smax = iv[1]
                else:
                    if not (0 <= sv < width):
                        ctx.report(R, f, n, inst, 'shift amount %d out of range for a %d-bit operand' % (sv, width))
                        continue
                    smax = sv
                if op in ('<<', '<<=') and tr[0] < 0:
                    # promoted signed left operand: value * 2^s must fit the corresponding unsigned type
                    liv, why = B.eval_full(f, n, lhs, lambda v: v is not None and v[0] >= 0 and (v[1] << smax) < (1 << width))
                    if why == 'unproved':
                        ctx.report(R, f, n, inst, 'left shift of a signed (promoted) operand may overflow: operand %s << %d exceeds %d bits'
                                   % (liv, smax, width))
                    elif width == 32 and liv is not None and (liv[1] << smax) > 0x7FFFFFFF and _widened_signed(f, n):
                        # the int result can have bit 31 set; widening it to 64 bits sign-extends (0x8000'0000 -> 0xFFFF'FFFF'8000'0000)
                        ctx.report(R, f, n, inst, 'a shifted int that can have bit 31 set (operand %s << %d) is widened to 64 bits without '
                                                  'first being converted to a 32-bit unsigned type: the value is sign-extended' % (liv, smax))
            elif op in ('/', '%', '/=', '%='):
                rhs = n.get('rhs')
                if const_value(rhs) is not None and const_value(rhs) != 0:
                    continue
                if const_value(n) is not None:
                    continue
                ctx.inst(R)
                ctx.touch(f)
                inst = render(n, f, inline_locals=False)[:90]
                iv, why = B.eval_full(f, n, rhs, lambda v: v is not None and (v[0] > 0 or v[1] < 0))
                if why == 'unproved':
                    ctx.report(R, f, n, inst, 'divisor may be zero: %s' % (iv,))


def o4_lifetime(ctx):
    R = 'C18.O4'
    ctx.rule(R, 'lifetime: an object whose constructor stores a lambda capturing its own `this` is never copied, moved or '
                'assigned from (the stored closure would keep pointing at the source object)', floor=1)
    F = ctx.F['functions']
    selfref = {}
    for fid, f in F.items():
        if not (f.get('ctor') and is_library(f)):
            continue
        for n in walk(f.get('body')):
            if n.get('k') == 'lambda' and any(c.get('this') for c in n.get('caps', [])):
                selfref[fid] = f
    ctx.inst(R, len(selfref))
    ctx.require(len(selfref) >= 1, 'no self-referential constructor found (Cell::Cell() vanished?)')
    classes = {f['cls'] for f in selfref.values()}
    for fid, f in F.items():
        if not is_library(f):
            continue
        for n, parents in walk_parents(f.get('body')):
            if n.get('k') == 'construct' and n.get('fn') in selfref:
                ctx.inst(R)
                # constructed in place (array element / member / local that is never copied) is fine;
                # any enclosing copy/move construction or assignment of that class is not
                for p in reversed(parents):
                    if p.get('k') == 'construct' and p.get('copymove') and p.get('cls') in classes:
                        ctx.report(R, f, n, 'copy of self-referential ' + n['cls'], 'temporary whose stored closures capture its own this is copied/moved')
                        break
                    if p.get('k') == 'opcall' and p.get('op') == '=' and p.get('cls') in classes:
                        ctx.report(R, f, n, 'assignment from self-referential ' + n['cls'],
                                   'object whose stored closures capture its own this is assigned from a temporary; the closures keep the dead temporary\'s this')
                        break
                    if p.get('k') in ('return',):
                        ctx.report(R, f, n, 'return of self-referential ' + n['cls'], 'self-referential object returned by value')
                        break
    # a closure that outlives the call (returned, stored in a member / std::function, handed to a setter) must not capture
    # by reference something that dies with the call: an automatic local, a by-value parameter, or a `const T&` parameter
    # (which may be bound to a temporary of the caller)
    n_cl = 0
    for fid, f in F.items():
        if not is_library(f):
            continue
        for n, parents in walk_parents(f.get('body')):
            if n.get('k') != 'lambda':
                continue
            refcaps = [c for c in n.get('caps', []) if c.get('byref') and c.get('name')]
            if not refcaps:
                continue
            n_cl += 1
            ctx.inst(R)
            # stays local: initialiser of a local variable, or argument of a std:: algorithm
            par = [p for p in parents if p.get('k') not in ('cast', 'construct')]
            local_use = False
            if par:
                p0 = par[-1]
                if p0.get('k') == 'var':
                    local_use = True
                if p0.get('k') == 'call' and str(p0.get('fn', '')).startswith('std::') and not str(p0.get('fn', '')).startswith('std::bind'):
                    local_use = True
            if local_use:
                continue
            for c in refcaps:
                base = str(c['name']).split('@')[0]
                prm = [p_ for p_ in f.get('params', []) if p_.get('name') == base]
                why = None
                if prm:
                    t = str(prm[0].get('t', ''))
                    if not t.rstrip().endswith('&'):
                        why = 'the by-value parameter `%s`' % base
                    elif t.startswith('const '):
                        why = 'the parameter `%s` (%s), which may be bound to a temporary of the caller' % (base, t)
                else:
                    decl = [v for v in walk(f.get('body')) if v.get('k') == 'var' and str(v.get('name', '')).split('@')[0] == base]
                    if decl and not decl[0].get('isref') and not decl[0].get('static'):
                        why = 'the automatic local `%s`' % base
                if why:
                    ctx.report(R, f, n, 'closure captures %s by reference' % base,
                               'a closure that outlives the call captures %s by reference: it dangles when the closure is invoked' % why)
    ctx.oblig(R, n_cl)
    # reference members must not be bound to temporaries: every ctor init of a reference member takes an lvalue parameter/member
    for fid, f in F.items():
        if not (f.get('ctor') and is_library(f)):
            continue
        rec = ctx.F['records'].get(f.get('cls'))
        if not rec:
            continue
        refs = {fl['name'] for fl in rec['fields'] if fl['t'].get('ref')}
        for ini in f.get('inits', []):
            if ini.get('member') in refs:
                ctx.inst(R)
                e = unwrap_casts(ini.get('init'))
                while isinstance(e, dict) and e.get('k') == 'initlist' and len(e.get('elts', [])) == 1:
                    e = unwrap_casts(e['elts'][0])
                if isinstance(e, dict) and e.get('k') in ('construct', 'call', 'int') and not e.get('copymove'):
                    ctx.report(R, f, ini.get('init'), '%s::%s' % (f['cls'], ini['member']), 'reference member bound to a temporary')


class _DA(Client):
    """definite assignment of scalar locals"""

    def __init__(self, tracked, report):
        self.tracked = tracked
        self.report = report

    def join(self, a, b):
        if a is None:
            return b
        if b is None:
            return a
        return a & b

    def decl(self, var, st):
        if 'init' in var:
            st = self.transfer(var['init'], st)
            return st | {var['name']}
        if var['name'] in self.tracked:
            return st - {var['name']}
        return st | {var['name']}

    def transfer(self, e, st):
        if st is None or e is None:
            return st
        return self._walk(e, st)

    def _walk(self, e, st):
        if not isinstance(e, dict):
            return st
        k = e.get('k')
        if k == 'assign':
            st = self._walk(e.get('rhs'), st)
            t = unwrap_casts(e.get('lhs'))
            if isinstance(t, dict) and t.get('k') == 'ref' and t.get('dk') == 'local':
                if e.get('op') != '=' and t['name'] in self.tracked and t['name'] not in st:
                    self.report(t, t['name'])
                return st | {t['name']}
            return self._walk(e.get('lhs'), st)
        if k == 'ref':
            if e.get('dk') == 'local' and e['name'] in self.tracked and e['name'] not in st:
                self.report(e, e['name'])
                return st | {e['name']}
            return st
        if k == 'un' and e.get('op') == '&':
            t = unwrap_casts(e.get('e'))
            if isinstance(t, dict) and t.get('k') == 'ref':
                return st | {t['name']}
        if k == 'bin' and e.get('op') in ('&&', '||'):
            st = self._walk(e.get('lhs'), st)
            self._walk(e.get('rhs'), st)     # reads are checked, assignments there are not definite
            return st
        if k == 'cond':
            st = self._walk(e.get('c'), st)
            a = self._walk(e.get('a'), st)
            b = self._walk(e.get('b'), st)
            return a & b
        if k == 'lambda':
            for c in e.get('caps', []):
                if c.get('byref') and c.get('name'):
                    st = st | {c['name']}
            return st
        if k in ('call', 'construct', 'opcall'):
            # out-parameters: a tracked local passed directly as an argument bound to a non-const reference (std::tie, ...)
            fn = str(e.get('fn', ''))
            for a in e.get('args', []):
                a2 = unwrap_casts(a)
                if isinstance(a2, dict) and a2.get('k') == 'ref' and a2.get('dk') == 'local' and \
                        (fn.startswith('std::tie') or '&' in fn and not fn.startswith('std::')):
                    st = st | {a2['name']}
            if e.get('obj') is not None:
                st = self._walk(e['obj'], st)
            if e.get('callee') is not None:
                st = self._walk(e['callee'], st)
            for a in e.get('args', []):
                st = self._walk(a, st)
            return st
        from ..astq import children
        for c in children(e):
            st = self._walk(c, st)
        return st

    def noreturn(self, e):
        return e.get('k') in ('unreachable', 'throw')


def o5_o6_termination(ctx):
    R5 = 'C18.O5'
    ctx.rule(R5, 'termination discipline: the only exception thrown by the library is UnimplementedException, aborts go through '
                 'Assert, no non-void library function can fall off its end, every std::function slot invoked without a null '
                 'check is bound unconditionally in the Teakra::Impl constructor, map::at keys cover the operands that reach them',
             floor=100)
    R6 = 'C18.O6'
    ctx.rule(R6, 'no scalar local is read before it is assigned on some path (definite assignment over the structured CFG, '
                 'UNREACHABLE()/throw as no-return)', floor=12)
    F = ctx.F['functions']
    # slots bound in the facade constructor (setter called at top level of the constructor body)
    root_ctor = [f for f in F.values() if f.get('ctor') and f.get('cls') == 'Teakra::Teakra::Impl']
    ctx.require(len(root_ctor) == 1, 'Teakra::Impl constructor not found')
    bound = set()
    def top_calls(stmts):
        """calls that run on every execution of the constructor: top-level statements, and the bodies of loops that run at
           least once (range-for over a fixed-size array member, counting loops with a non-empty constant range)"""
        from ..loops import loop_range
        for st in stmts:
            if st.get('k') == 'call':
                yield st
            elif st.get('k') == 'block':
                yield from top_calls(st.get('body', []))
            elif st.get('k') == 'rangefor' and 'std::array<' in str((st.get('range') or {}).get('t', '')):
                b_ = st.get('body') or {}
                yield from top_calls(b_.get('body', []) if b_.get('k') == 'block' else [b_])
            elif st.get('k') == 'for':
                rng = loop_range(root_ctor[0], st)
                if rng and len(range(rng[1], rng[2], rng[3])) > 0:
                    b_ = st.get('body') or {}
                    yield from top_calls(b_.get('body', []) if b_.get('k') == 'block' else [b_])
    for st in top_calls(root_ctor[0]['body'].get('body', [])):
        if st.get('fn') in F:
            setter = F[st['fn']]
            for p, n, how in direct_writes(setter.get('body')):
                bound.add((p[0], p[1]))
    host_slots = []
    for fid, f in F.items():
        if not is_library(f):
            continue
        ctx.inst(R5)
        # throws
        for n in walk(f.get('body')):
            if n.get('k') == 'throw':
                t = render(n.get('e'), f)
                if 'UnimplementedException' not in t and short_fn(fid) not in COMPILE_TIME_ONLY:
                    ctx.report(R5, f, n, 'throw', 'library throws something other than UnimplementedException: ' + t[:80])
            elif n.get('k') == 'call' and short_fn(n.get('fn', '')) in ('abort', 'std::abort', 'exit', 'std::exit', 'std::terminate') \
                    and short_fn(fid) != 'Assert':
                ctx.report(R5, f, n, 'call ' + short_fn(n['fn']), 'process termination outside Assert()')
            elif n.get('k') == 'opcall' and n.get('op') == '()' and str(n.get('cls', '')).startswith('std::function<'):
                tgt = n['args'][0] if n.get('args') else None
                p = field_path(tgt)
                if p is None:
                    continue
                ctx.oblig(R5)
                from ..guards import guards_at
                guarded = False
                for c, pol, src in guards_at(f['body'], n):
                    pc = field_path(c)
                    if pc and (pc[0], pc[1]) == (p[0], p[1]) and pol:
                        guarded = True
                    if isinstance(c, dict) and c.get('k') == 'call' and 'operator bool' in str(c.get('fn', '')):
                        pc2 = field_path(c.get('obj'))
                        if pc2 and (pc2[0], pc2[1]) == (p[0], p[1]) and pol:
                            guarded = True
                if guarded or (p[0], p[1]) in bound:
                    continue
                # slots only the host can fill (AHBM external memory, audio) are the host's contract
                if p[0] in ('Teakra::Ahbm',):
                    host_slots.append(path_str(p))
                    continue
                if p[0] in ('Teakra::BitFieldSlot', 'Teakra::Cell', 'Teakra::DataChannel') or p[0].startswith('Matcher<'):
                    # MMIO cells are bound for every offset in MMIORegion::MMIORegion / default storage; matcher fn is never empty
                    # (decided in C12.B0 / C02.R0)
                    continue
                ctx.report(R5, f, n, 'invoke ' + path_str(p), 'std::function slot invoked without a null check and not bound unconditionally in Teakra::Impl::Impl')
        # falling off the end of a non-void function
        if f.get('ret') not in ('void', None) and not f.get('ctor') and not f.get('dtor') and f.get('body') is not None:
            ctx.oblig(R5)
            fl = Flow(Client())
            out = fl.run(f['body'], frozenset())
            if out.normal is not None:
                ctx.report(R5, f, f['body'], 'falls off end', 'non-void function can reach its closing brace without returning a value')
        # definite assignment
        tracked = set()
        for n in walk(f.get('body')):
            if n.get('k') == 'var' and 'init' not in n and not n.get('static') and not n.get('isref') \
                    and (trange(n.get('t')) is not None or n.get('t') in ctx.F['enums']):
                tracked.add(n['name'])
        if tracked:
            ctx.inst(R6)
            ctx.touch(f)
            seen = set()

            def rep(node, name, f=f):
                if name in seen:
                    return
                seen.add(name)
                ctx.report(R6, f, node, 'local ' + name, 'scalar local `%s` may be read before it is assigned' % name)
            fl = Flow(_DA(tracked, rep))
            fl.run(f['body'], frozenset(p['name'] for p in f.get('params', [])))
    ctx.notes.append('host-installed slots invoked without a null check (host contract: install AHBM callbacks before the guest uses AHBM): %s'
                     % sorted(set(host_slots)))
    # unordered_map::at : key sets
    for fid, f in F.items():
        if not is_library(f):
            continue
        for n in walk(f.get('body')):
            if n.get('k') == 'call' and n.get('name') == 'at' and 'unordered_map' in str(n.get('cls', '')):
                ctx.oblig(R5)
                # keys of the static map
                o = unwrap_casts(n.get('obj'))
                keys = None
                for v in walk(f['body']):
                    if v.get('k') == 'var' and isinstance(o, dict) and v.get('name') == o.get('name'):
                        ks = []
                        for il in walk(v.get('init')):
                            if il.get('k') == 'initlist' and len(il.get('elts', [])) == 2:
                                ks.append(const_value(il['elts'][0]))
                            elif il.get('k') == 'construct' and str(il.get('cls', '')).startswith('std::pair<') and len(il.get('args', [])) == 2:
                                ks.append(const_value(il['args'][0]))
                        keys = set(k for k in ks if k is not None)
                if not keys:
                    ctx.report(R5, f, n, 'map.at', 'key set of the map is not a compile-time constant list')
                    continue
                # all callers pass X.GetName() of an operand whose names are inside the key set
                B = Bounds(ctx.F, {}, is_library)
                from ..bounds import callers_index
                for cf, cn in callers_index(ctx.F).get(fid, []):
                    if not is_library(cf):
                        continue
                    a = unwrap_casts(cn['args'][0])
                    names = None
                    if a.get('k') == 'call' and a.get('name') == 'GetName':
                        ot = str((a.get('obj') or {}).get('t', '')).replace('const ', '')
                        names = operand_names(ctx, ot)
                    elif a.get('k') == 'ref' and a.get('dk') == 'parm':
                        # a RegName parameter filled by AtNamed<Operand, pos> entries of the decode table
                        from .. import decode
                        names = []
                        for e in decode.table(ctx.F, 'Teakra::Interpreter'):
                            if e['handler'] == cf['id']:
                                passed = [o for o in e['operands'] if o['pass']]
                                if a['idx'] < len(passed) and passed[a['idx']]['kind'] == 'AtNamed':
                                    nm = operand_names(ctx, passed[a['idx']]['optype'])
                                    if nm is None:
                                        names = None
                                        break
                                    names += nm
                                else:
                                    names = None
                                    break
                        if names == []:
                            names = None
                    if names is None or not set(names) <= keys:
                        ctx.report(R5, cf, cn, 'CounterAcc(%s)' % render(a, cf)[:40],
                                   'map::at may throw: argument names %s are not all keys of the map' % (names,))


def operand_names(ctx, tname, depth=0):
    r = ctx.F['records'].get(tname)
    if r is None or depth > 5:
        return None
    if r.get('tn') == 'EnumOperand':
        pk = r['ta'][1].get('pack', [])
        return [x.get('i') for x in pk]
    for b in r.get('bases', []):
        if b.get('tn') == 'EnumOperand':
            return [x.get('i') for x in b['ta'][1].get('pack', [])]
        x = operand_names(ctx, b.get('s'), depth + 1)
        if x is not None:
            return x
    return None


def run(ctx):
    W = pseudo.words(ctx.F)
    ctx.rule('C18.O3', 'field-width invariants and operand-storage widths proved at every writer (shared with C20.W5)', floor=250)
    wp = WidthProver(ctx, W, 'C18.O3')
    fb = wp.prove()
    B = Bounds(ctx.F, fb, is_library,
               implications=[(((RS, 'lp'), (1, 1)), ((RS, 'bcn'), (1, 4)))])   # lp == (bcn != 0): C09.L1
    B.host_prefixes = HOST_BOUNDARY_FUNCS
    operand_storage_bounds(ctx, B)
    # plain (non status-word) fields used as indices: bound = join over all their writers
    writers = {}
    for fid, f in ctx.F['functions'].items():
        if not is_library(f):
            continue
        for p, n, how in direct_writes(f.get('body')):
            writers.setdefault((p[0], p[1]), []).append((f, p, n, how))
    bitfieldslot_bounds(ctx, B)
    for key in (('Teakra::Dma', 'active_channel'), (RS, 'prpage'), ('Teakra::Dma::Channel', 'ahbm_channel'),
                ('Teakra::Btdmp', 'transmit_period')):
        b = B.infer_field(key[0], key[1], writers)
        if b is not None:
            B.fb[key] = b
            ctx.notes.append('inferred bound %s = %s (join over %d writers)' % (key, b, len(writers.get(key, []))))
    # bcn <= 4: writers are ++ under ASSERT(bcn <= 3), --, = 0, = 1 (C09.L1); narrows the 3-bit width bound
    B.fb[(RS, 'bcn')] = (0, 4)
    bcn_ok = True
    for (f, p, n, how) in writers.get((RS, 'bcn'), []):
        ctx.inst('C18.O3')
        if how in ('++', 'post++'):
            if not wp._guarded_inc(f, n, (RS, 'bcn'), 4):
                bcn_ok = False
                ctx.report('C18.O3', f, n, 'bcn ++', 'loop nest counter incremented without ASSERT(bcn <= 3)')
        elif how == '=' and n.get('k') == 'assign':
            rhs = n['rhs']
            while isinstance(rhs, dict) and rhs.get('k') == 'assign':
                rhs = rhs.get('rhs')
            v = B.IV.iv(rhs, f)
            if v is None or v[1] > 4:
                ctx.report('C18.O3', f, n, 'bcn =', 'loop nest counter assigned a value that may exceed 4: %s' % (v,))
    B.refresh()
    o1_subscripts(ctx, B)
    o2_arith(ctx, B)
    o4_lifetime(ctx)
    o5_o6_termination(ctx)
    ctx.sample({'obligation': 'SharedMemory::ReadWord raw[byte_address]', 'rule': 'C18.O1', 'extent': 0x80000})
    ctx.assumptions += ['libstdc++ internals and host callbacks are trusted',
                        'host code obeys the API contract (indices of SendData/RecvData < 3, AHBM accessors < 3, user memory of DspMemorySize bytes)',
                        'exception edges are not modelled (only UnimplementedException is thrown, checked by O5)']
