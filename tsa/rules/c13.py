"""C13 - a DMA transfer copies exactly the documented 3-D strided element sequence (structural parts)."""
from .. import mmio
from ..astq import walk, walk_parents, field_path, unwrap_casts, const_value, direct_writes, direct_reads
from ..guards import guards_at
from ..norm import render, render_stmt, Renderer, short_fn
import re
from ..sib import switch_arms

D = 'Teakra::Dma'
CH = 'Teakra::Dma::Channel'
AH = 'Teakra::Ahbm'
ACH = 'Teakra::Ahbm::Channel'


def run(ctx):
    F = ctx.F['functions']
    D1, D2, D3, D4, D5 = ('C13.D%d' % i for i in range(1, 6))
    ctx.rule(D1, 'one completion interrupt: DoDma starts the channel, runs Tick while running, and invokes the interrupt slot '
                 'exactly once after the loop; Start / Tick raise nothing; SetZ starts a transfer only for value == 0x40C0 on the '
                 'active channel', floor=4)
    ctx.rule(D2, 'cursor initialisation: every field Tick both reads and writes (cursors, the three counters, running) is '
                 'assigned in Start; the cursors come from addr_X_low | addr_X_high << 16 of the same side', floor=6)
    ctx.rule(D3, 'stepping symmetry: in each of the three stepping branches current_src += src_stepK is paired with '
                 'current_dst += dst_stepK (same K); nesting is counter0 -> counter1 -> counter2 against size0/1/2; word mode '
                 'advances counter0 by 1, double-word mode by 2 using addr & ~1 / addr | 1 on both sides', floor=5)
    ctx.rule(D4, 'memory effects: Tick reads/writes DSP memory only through ReadWord/WriteWord(DataMemoryOffset + f(cursor)) and '
                 'external memory only through ahbm Read16/32 / Write16/32(ahbm_channel, cursor, ...); space codes 0 and 7 select '
                 'them on both sides', floor=2)
    ctx.rule(D5, 'AHBM units: Read32 / WriteInternal advance the burst address by 1/2/4 for U8/U16/U32 with the matching alignment '
                 'mask; burst sizes are 1/4/8; the AHBM channel of a DMA channel is the first whose connect mask has that bit set', floor=4)
    dodma = ctx.fn(D + '::DoDma(unsigned short)')
    start = ctx.fn_opt(CH + '::Start()')
    start_inlined = start is None        # Start() written out in its only caller: DoDma itself initialises the cursors
    if start_inlined:
        start = dodma
    tick = ctx.fn(CH + '::Tick(Teakra::Dma &)')
    setz = ctx.fn(D + '::SetZ(unsigned short)')
    # ---- D1
    # decided on the guarded summary (ASSERTs are not effects; independent statements may stand in either order): on every
    # path DoDma performs exactly {Start, bind ahbm_channel, the Tick loop, one interrupt}, with Start and the binding before
    # the loop and the interrupt after it
    from .. import summ, boolform
    ctx.inst(D1)
    C = '([] f:%s::channels $0)' % D
    E_START = ('call', '(call %s::Start on %s )' % (CH, C))
    E_GET = ('call', '(call %s::GetChannelForDma on f:%s::ahbm $0)' % (AH, D))
    E_BIND = ('write', '(. %s %s::ahbm_channel)' % (C, CH), '=', '(call %s::GetChannelForDma on f:%s::ahbm $0)' % (AH, D))
    E_LOOP = ('loop', '(while (. %s %s::running) (call %s::Tick on %s this))' % (C, CH, CH, C))
    E_IRQ = ('call', '(() f:%s::interrupt_handler)' % D)
    seqs = summ.summary(ctx, dodma, asserts='ignore').effect_sequences()
    okd = bool(seqs)
    shown = []
    for cond, seq, p_ in seqs:
        if not boolform.satisfiable(cond):
            continue
        seq = [e for e in seq if e != E_GET]
        shown.append(seq)
        if start_inlined:
            # the initialisation of the channel's own fields stands where the call of Start() stood
            init_w = [e for e in seq if e[0] == 'write' and e != E_BIND and e[1].startswith('(. %s %s::' % (C, CH))]
            rest = [e for e in seq if e not in init_w]
            if sorted(rest, key=str) != sorted([E_BIND, E_LOOP, E_IRQ], key=str) or p_.end != 'return' or not init_w:
                okd = False
                continue
            if not (max(seq.index(e) for e in init_w) < seq.index(E_LOOP) and seq.index(E_BIND) < seq.index(E_LOOP) < seq.index(E_IRQ)):
                okd = False
            continue
        if sorted(seq, key=str) != sorted([E_START, E_BIND, E_LOOP, E_IRQ], key=str) or p_.end != 'return':
            okd = False
            continue
        i = {e: seq.index(e) for e in seq}
        if not (i[E_START] < i[E_LOOP] and i[E_BIND] < i[E_LOOP] and i[E_LOOP] < i[E_IRQ]):
            okd = False
    if not okd:
        ctx.report(D1, dodma, dodma['body'], 'DoDma sequence', 'DoDma is not Start; bind AHBM channel; while (running) Tick; interrupt once: %s' % shown)
    for f in ((tick,) if start_inlined else (start, tick)):
        ctx.inst(D1)
        if any(n.get('k') == 'opcall' and n.get('op') == '()' and str(n.get('cls', '')).startswith('std::function') for n in walk(f['body'])):
            ctx.report(D1, f, f['body'], short_fn(f['id']) + ' interrupt', 'the element loop itself raises a callback')
    ctx.inst(D1)
    Z = ('write', '(. ([] f:%s::channels f:%s::active_channel) %s::z)' % (D, D, CH), '=', '$0')
    GO = ('call', '(call %s::DoDma on this f:%s::active_channel)' % (D, D))
    eff = summ.summary(ctx, setz, asserts='ignore').effect_conditions()
    START = boolform.A('(== $0 16576)')
    if set(eff) != {Z, GO} or boolform.equivalent(eff[Z], boolform.T) is not True or boolform.equivalent(eff[GO], START) is not True:
        ctx.report(D1, setz, setz['body'], 'SetZ start', 'a transfer is not started exactly for value == 0x40C0 on the active channel: '
                   + str({k: boolform.show(c) for k, c in eff.items()})[:300])
    sites = [fid for fid, f in F.items() for n in walk(f.get('body')) if n.get('k') == 'call' and short_fn(n.get('fn', '')) == D + '::DoDma' and fid.startswith('Teakra::')]
    ctx.inst(D1)
    if sorted(set(sites)) != [setz['id']]:
        ctx.report(D1, dodma, dodma['body'], 'DoDma callers', 'transfers are started from %s' % sorted(set(sites)))
    # ---- D2
    tw = {p[1] for p, n, how in direct_writes(tick['body']) if p[0] == CH}
    trd = {p[1] for p, n in direct_reads(tick['body']) if p[0] == CH}
    sw = {}
    rs = Renderer(start)
    for p, n, how in direct_writes(start['body']):
        if p[0] == CH:
            # (written out in DoDma the fields are those of channels[channel]: the same expressions with that prefix)
            sw[p[1]] = re.sub(r'\(\. \(\[\] f:%s::channels \$0\) (%s::\w+)\)' % (re.escape(D), re.escape(CH)), r'f:\1', rs.r(n.get('rhs'))) \
                if start_inlined else rs.r(n.get('rhs'))
    for fld in sorted(tw & trd | {'running'}):
        ctx.inst(D2)
        if fld not in sw:
            ctx.report(D2, start, start['body'], 'Start ' + fld, 'Tick reads and updates %s but Start does not initialise it (state leaks from the previous transfer)' % fld)
    ctx.require(len(tw & trd) >= 5, 'cursor fields of Dma::Channel::Tick: %s' % sorted(tw & trd))
    for side in ('src', 'dst'):
        ctx.inst(D2)
        want = '(| (<< f:%s::addr_%s_high 16) f:%s::addr_%s_low)' % (CH, side, CH, side)
        alt = '(| f:%s::addr_%s_low (<< f:%s::addr_%s_high 16))' % (CH, side, CH, side)      # (operand order of | is textual)
        if sw.get('current_' + side) not in (want, alt):
            ctx.report(D2, start, start['body'], 'Start current_' + side, 'cursor is initialised from %s' % sw.get('current_' + side))
    for c in ('counter0', 'counter1', 'counter2'):
        if c in sw and sw[c] != '0':
            ctx.report(D2, start, start['body'], 'Start ' + c, '%s starts at %s' % (c, sw[c]))
    if sw.get('running') != '1':
        ctx.report(D2, start, start['body'], 'Start running', 'Start does not mark the channel running')
    # ---- D3 stepping
    rt = Renderer(tick, inline_locals=False)
    steps = []
    for n in walk(tick['body']):
        if n.get('k') == 'assign' and n.get('op') == '+=':
            l = rt.r(n['lhs'])
            if l in ('f:%s::current_src' % CH, 'f:%s::current_dst' % CH):
                steps.append((n, l.split('::')[-1], rt.r(n['rhs']).split('::')[-1]))
    pm = {}
    for x, parents in walk_parents(tick['body']):
        pm[id(x)] = parents
    blocks = {}
    for n, tgt, st in steps:
        b = [p for p in pm[id(n)] if p.get('k') == 'block'][-1]
        blocks.setdefault(id(b), []).append((tgt, st, n, b))
    ctx.require(len(blocks) == 3, 'expected three stepping branches, found %d' % len(blocks))
    seenK = set()
    for items in blocks.values():
        ctx.inst(D3)
        d = {t: s for t, s, n, b in items}
        n0, b0 = items[0][2], items[0][3]
        ok = set(d) == {'current_src', 'current_dst'} and d['current_src'].startswith('src_step') and d['current_dst'].startswith('dst_step') \
            and d['current_src'][-1] == d['current_dst'][-1]
        if not ok:
            ctx.report(D3, tick, n0, 'step branch', 'source and destination are not stepped by the same level: %s' % d)
            continue
        K = int(d['current_src'][-1])
        seenK.add(K)
        # the carry chain as canonical literals: level K is stepped when counters 0..K-1 have reached their size and
        # counter K has not (`counter >= size` is the negation of the atom `counter < size`)
        from .. import boolform
        pc_ = boolform.path_condition(tick['body'], n0, boolform.Former(tick, renderer=rt, expand_locals=False))
        lits = boolform.literals(pc_)
        g = sorted(x for x in (lits or set()) if 'counter' in x[0])
        want = sorted([('(< f:%s::counter%d f:%s::size%d)' % (CH, j, CH, j), False) for j in range(K)]
                      + [('(< f:%s::counter%d f:%s::size%d)' % (CH, K, CH, K), True)])
        if lits is None or g != want:
            ctx.report(D3, tick, n0, 'step level %d nesting' % K, 'level-%d step is taken under %s, expected %s' % (K, g, want))
    if seenK != {0, 1, 2}:
        ctx.report(D3, tick, tick['body'], 'step levels', 'stepping levels found: %s' % sorted(seenK))
    # counter bookkeeping
    tt = rt.s(tick['body'])
    ctx.inst(D3)
    for piece in ('(= f:%s::counter0 0) (++ f:%s::counter1)' % (CH, CH), '(= f:%s::counter1 0) (++ f:%s::counter2)' % (CH, CH),
                  '(= f:%s::running 0)' % CH):
        if piece not in tt:
            ctx.report(D3, tick, tick['body'], 'counter carry', 'missing carry step: ' + piece)
    ctx.inst(D3)
    top = [s for s in tick['body'].get('body', []) if s.get('k') == 'if']
    ok = top and rt.r(top[0]['cond']) == 'f:%s::dword_mode' % CH
    if ok:
        th, el = rt.s(top[0]['then']), rt.s(top[0]['else'])
        ok = th.rstrip('}').endswith('(+= f:%s::counter0 2)' % CH) and el.rstrip('}').endswith('(++ f:%s::counter0)' % CH)
        for side in ('src', 'dst'):
            if ('(& f:%s::current_%s 4294967294)' % (CH, side) not in th and '(& 4294967294 f:%s::current_%s)' % (CH, side) not in th) or \
                    ('(| 1 f:%s::current_%s)' % (CH, side) not in th and '(| f:%s::current_%s 1)' % (CH, side) not in th):
                ctx.report(D3, tick, top[0]['then'], 'dword alignment ' + side, 'double-word mode does not use addr & ~1 / addr | 1 on the %s side' % side)
    if not ok:
        ctx.report(D3, tick, tick['body'], 'element size', 'word mode must advance counter0 by 1 and double-word mode by 2')
    # ---- D4
    ctx.inst(D4)
    DMO = [v for v in walk(tick['body']) if v.get('k') == 'var' and v['name'].startswith('DataMemoryOffset')]
    for n in walk(tick['body']):
        if n.get('k') == 'call' and n.get('name') in ('ReadWord', 'WriteWord'):
            ctx.oblig(D4)
            a = Renderer(tick).r(n['args'][0])
            side = 'src' if n['name'] == 'ReadWord' else 'dst'
            if not (a.startswith('(+ ') and '131072' in a and ('current_' + side) in a and ('current_' + ('dst' if side == 'src' else 'src')) not in a):
                ctx.report(D4, tick, n, n['name'] + ' address', 'DSP-memory %s does not address DataMemoryOffset + %s cursor: %s' % (n['name'], side, a))
        if n.get('k') == 'call' and n.get('cls') == AH and n.get('name') in ('Read16', 'Read32', 'Write16', 'Write32'):
            ctx.oblig(D4)
            side = 'src' if n['name'].startswith('Read') else 'dst'
            args = [rt.r(x) for x in n['args'][:2]]
            if args != ['f:%s::ahbm_channel' % CH, 'f:%s::current_%s' % (CH, side)]:
                ctx.report(D4, tick, n, n['name'] + ' args', 'external access is not (ahbm_channel, current_%s, ...): %s' % (side, args))
    sws = [n for n in walk(tick['body']) if n.get('k') == 'switch']
    ctx.inst(D4)
    if len(sws) != 4:
        ctx.report(D4, tick, tick['body'], 'space switches', 'expected source and destination space dispatch in both element sizes')
    for sw_ in sws:
        arms = switch_arms(sw_)
        m = {}
        for a in arms:
            calls = sorted({c.get('name') for s_ in a['stmts'] for c in walk(s_) if c.get('k') == 'call' and c.get('name') in ('ReadWord', 'WriteWord', 'Read16', 'Read32', 'Write16', 'Write32')})
            for l in a['labels']:
                m[l] = calls
        side = rt.r(sw_['cond']).split('::')[-1]
        rd = side.startswith('src')
        ok = set(m.get(0, [])) <= ({'ReadWord'} if rd else {'WriteWord'}) and m.get(0) and \
            set(m.get(7, [])) <= ({'Read16', 'Read32'} if rd else {'Write16', 'Write32'}) and m.get(7)
        if not ok:
            ctx.report(D4, tick, sw_, 'space dispatch ' + side, 'space 0 / 7 do not select DSP memory / AHBM on this side: %s' % m)
    # ---- D5
    rd32 = ctx.fn(AH + '::Read32(unsigned short,unsigned int)')
    wi = ctx.fn(AH + '::WriteInternal(unsigned short,unsigned int,unsigned int)')
    en = {e['name']: e['v'] for e in ctx.F['enums']['Teakra::Ahbm::UnitSize']['enumerators']}
    for f in (rd32, wi):
        rf = Renderer(f, inline_locals=False)
        sw_ = [n for n in walk(f['body']) if n.get('k') == 'switch' and 'unit_size' in rf.r(n['cond'])]
        ctx.inst(D5)
        if len(sw_) != 1:
            ctx.report(D5, f, f['body'], short_fn(f['id']) + ' unit switch', 'unit-size dispatch not found')
            continue
        for a in switch_arms(sw_[0]):
            for l in a['labels']:
                nm = [k for k, v in en.items() if v == l]
                if not nm:
                    continue
                ctx.oblig(D5)
                adv = [rf.r(n['rhs']) for s_ in a['stmts'] for n in walk(s_) if n.get('k') == 'assign' and n.get('op') == '+=' and rf.r(n['lhs']).startswith('l:current')] \
                    + ['1' for s_ in a['stmts'] for n in walk(s_) if n.get('k') == 'un' and n.get('op') in ('++', 'post++') and rf.r(n['e']).startswith('l:current')]
                want = {'U8': '1', 'U16': '2', 'U32': '4'}[nm[0]]
                if adv != [want]:
                    ctx.report(D5, f, a['stmts'][0] if a['stmts'] else sw_[0], '%s %s advance' % (short_fn(f['id']).split('::')[-1], nm[0]),
                               'burst address advances by %s for unit %s, expected %s' % (adv, nm[0], want))
                masks = [const_value(n.get('rhs')) for s_ in a['stmts'] for n in walk(s_) if n.get('k') == 'bin' and n.get('op') == '&' and rf.r(n.get('lhs')).startswith('l:current')]
                wm = {'U8': [], 'U16': [0xFFFFFFFE], 'U32': [0xFFFFFFFC]}[nm[0]]
                if [m_ for m_ in masks if m_ not in (1,)] != wm:
                    ctx.report(D5, f, a['stmts'][0] if a['stmts'] else sw_[0], '%s %s alignment' % (short_fn(f['id']).split('::')[-1], nm[0]),
                               'alignment masks %s, expected %s' % ([hex(x) for x in masks if x not in (1,)], [hex(x) for x in wm]))
    gb = ctx.fn(ACH + '::GetBurstSize()')
    ctx.inst(D5)
    ben = {e['name']: e['v'] for e in ctx.F['enums']['Teakra::Ahbm::BurstSize']['enumerators']}
    m = {}
    for a in switch_arms([n for n in walk(gb['body']) if n.get('k') == 'switch'][0]):
        rets = [const_value(n['e']) for s_ in a['stmts'] for n in walk(s_) if n.get('k') == 'return']
        for l in a['labels']:
            m[l] = rets
    if m != {ben['X1']: [1], ben['X4']: [4], ben['X8']: [8]}:
        ctx.report(D5, gb, gb['body'], 'GetBurstSize', 'burst sizes are %s, expected X1->1, X4->4, X8->8' % m)
    gc = ctx.fn(AH + '::GetChannelForDma(unsigned short) const')
    ctx.inst(D5)
    rg = Renderer(gc, inline_locals=False)
    conds = [rg.r(n['cond']) for n in walk(gc['body']) if n.get('k') == 'if']
    if len(conds) != 1 or not re.match(r'^\(& \(>> \(\. \(\[\] f:Teakra::Ahbm::channels l:channel(@\d+)?\) Teakra::Ahbm::Channel::dma_channel\) \$0\) 1\)$', conds[0]) \
            and not re.match(r'^\(& 1 \(>> \(\. \(\[\] f:Teakra::Ahbm::channels l:channel(@\d+)?\) Teakra::Ahbm::Channel::dma_channel\) \$0\)\)$', conds[0]):
        ctx.report(D5, gc, gc['body'], 'GetChannelForDma', 'channel selection does not test bit `dma_channel` of the connect mask: %s' % conds)
    ctx.sample({'step branch': 'counter0 < size0', 'src': 'current_src += src_step0', 'dst': 'current_dst += dst_step0'})
    ctx.assumptions += ['the element sequence for all sizes/steps, overlap behaviour and the AHBM unaligned-access quirks are numerical / hardware-fitted and are not decided']
