"""C19 - host mailbox/semaphore API is race-free against a running DSP (lockset analysis, engine E8)."""
from .. import callgraph, mmio, inventory
from ..astq import walk, direct_writes, direct_reads, field_path, unwrap_casts, path_str
from ..norm import render, render_stmt, short_fn
from .widths import is_library

HOST_API = ('SendData', 'RecvData', 'PeekRecvData', 'RecvDataIsReady', 'SendDataIsEmpty',
            'SetSemaphore', 'ClearSemaphore', 'MaskSemaphore', 'GetSemaphore')
# slots written only by set-up calls before the threads run (configuration before concurrency)
CONFIG_SLOTS_REASON = 'std::function slots are installed by Set*Handler / constructor wiring before Run is started on another thread'


class Lockset:
    def __init__(self, ctx, CG):
        self.ctx = ctx
        self.CG = CG
        self.F = ctx.F['functions']
        self.access = {}       # role -> key -> [(is_write, lockset frozenset, f, node)]
        self.order = {}        # (L1, L2) -> witness
        self.self_deadlock = []
        self.slot_calls = []   # (slot key, held list [(mutex, recursive)], f, node, role)
        self.visited = {}

    def field_kind(self, key):
        r = self.ctx.F['records'].get(key[0])
        if not r:
            return None
        for fl in r['fields']:
            if fl['name'] == key[1]:
                k = inventory.classify(fl['t'])
                if k in ('array', 'carray'):
                    et = fl['t']['ta'][0]['t'] if k == 'array' else fl['t'].get('elem', {})
                    ek = inventory.classify(et)
                    return ek + '[]'
                return k
        return None

    def run(self, role, roots):
        self.access.setdefault(role, {})
        seen = set()
        stack = [(r, ()) for r in roots]
        while stack:
            fid, held = stack.pop()
            if (fid, held) in seen:
                continue
            seen.add((fid, held))
            f = self.F.get(fid)
            if f is None or f.get('body') is None:
                continue
            self.ctx.touch(f)
            acc = self.access[role]
            # lock acquisitions in this function
            for (vn, mk, rec) in self.CG.lock_decls(f):
                outer = list(held) + [h for h in self.CG.locks_held_at(f, vn)]
                for (hm, hrec) in outer:
                    if hm == mk:
                        if not rec:
                            self.self_deadlock.append((mk, f, vn))
                        continue
                    self.order.setdefault((hm, mk), (f, vn))
            for p, n, how in direct_writes(f['body']):
                ls = frozenset(m for m, _ in list(held) + self.CG.locks_held_at(f, n))
                acc.setdefault((p[0], p[1]), []).append((True, ls, f, n))
            for p, n in direct_reads(f['body']):
                ls = frozenset(m for m, _ in list(held) + self.CG.locks_held_at(f, n))
                acc.setdefault((p[0], p[1]), []).append((False, ls, f, n))
            for n in walk(f['body']):
                if n.get('k') == 'opcall' and n.get('op') == '()' and str(n.get('cls', '')).startswith('std::function<') and n.get('args'):
                    p = field_path(n['args'][0])
                    if p:
                        self.slot_calls.append(((p[0], p[1]), list(held) + self.CG.locks_held_at(f, n), f, n, role))
            for (callee, node, kind) in self.CG.callees(fid):
                h2 = tuple(sorted(set(list(held) + (self.CG.locks_held_at(f, node) if node is not None else [])), key=str))
                stack.append((callee, h2))
        self.visited[role] = {fid for fid, _ in seen}


def k5_delivery(ctx):
    """every send with interrupts enabled is followed by an interrupt delivery: in the two send operations the handler
    invocation may depend on nothing but the interrupt-enable condition of *this* send and the slot being bound"""
    from .. import boolform
    from ..astq import field_path
    K5 = 'C19.K5'
    ctx.rule(K5, 'delivery on every enabled send: DataChannel::Send invokes the handler exactly when !disable_interrupt (and a '
                 'handler is installed); Apbp::SetSemaphore invokes it exactly when the freshly computed (semaphore & '
                 '~semaphore_mask) is non-zero - no stored state (an earlier signal, the ready flag) may swallow the interrupt', floor=2)
    DC, IMPL = 'Teakra::DataChannel', 'Teakra::Apbp::Impl'
    S = '(. (-> f:Teakra::Apbp::impl) %s::semaphore)' % IMPL
    Mk = '(. (-> f:Teakra::Apbp::impl) %s::semaphore_mask)' % IMPL
    H = '(. (-> f:Teakra::Apbp::impl) %s::semaphore_handler)' % IMPL
    SIG = boolform.A('(& %s %s)' % tuple(sorted([S, '(~ %s)' % Mk])))
    for fid, slot, want, what in (
            (DC + '::Send(unsigned short)', (DC, 'handler', None),
             [boolform.all_of(boolform.neg(boolform.A('f:%s::disable_interrupt' % DC)), boolform.A('f:%s::handler' % DC)),
              boolform.neg(boolform.A('f:%s::disable_interrupt' % DC))], '!disable_interrupt'),
            ('Teakra::Apbp::SetSemaphore(unsigned short)', (IMPL, 'semaphore_handler', None),
             [boolform.all_of(SIG, boolform.A(H)), SIG], '(semaphore & ~semaphore_mask) != 0')):
        f = ctx.fn(fid)
        ctx.inst(K5)
        FM = boolform.Former(f)
        inv = [n for n in walk(f['body']) if n.get('k') == 'opcall' and n.get('op') == '()' and n.get('args')
               and field_path(n['args'][0]) == slot]
        if not inv:
            ctx.report(K5, f, f['body'], short_fn(fid) + ' delivery', 'the send never invokes the interrupt handler')
            continue
        total = boolform.F_
        for n in inv:
            total = boolform.any_of(total, boolform.path_condition(f['body'], n, FM))
        if not any(boolform.equivalent(total, w) is True for w in want):
            ctx.report(K5, f, inv[0], short_fn(fid) + ' delivery',
                       'the handler is invoked under %s; a send must interrupt the peer exactly when %s'
                       % (boolform.show(total)[:260], what))


def run(ctx):
    CG = callgraph.CallGraph(ctx.F, is_library)
    F = ctx.F['functions']
    K1, K2, K3, K4 = 'C19.K1', 'C19.K2', 'C19.K3', 'C19.K4'
    ctx.rule(K1, 'lockset race freedom: every non-atomic field accessed both from the host role (mailbox/semaphore API and the '
                 'handlers it reaches) and from the DSP role (Run and everything reachable, incl. all MMIO closures) with at '
                 'least one write has a common lock over all its access sites', floor=8)
    ctx.rule(K2, 'lock order: the acquisition graph (lock B taken, possibly through handlers, while A is held) is acyclic and '
                 'no non-recursive mutex is re-acquired by its holder', floor=1)
    ctx.rule(K3, 'user-supplied callbacks are never invoked while a non-recursive mutex is held', floor=3)
    ctx.rule(K4, 'atomic hand-off: the core samples each interrupt latch with a single exchange(false); Signal* perform only '
                 'atomic stores; the latches are std::atomic', floor=4)
    host_roots = []
    for nm in HOST_API:
        c = [k for k in F if k.startswith('Teakra::Teakra::%s(' % nm)]
        ctx.require(c, 'host API %s vanished' % nm)
        host_roots += c
    dsp_roots = [k for k in F if k.startswith('Teakra::Teakra::Run(')]
    ctx.require(dsp_roots, 'Teakra::Run vanished')
    L = Lockset(ctx, CG)
    L.run('host', host_roots)
    L.run('dsp', dsp_roots)
    ctx.require(len(L.visited['dsp']) >= 600, 'DSP role reaches only %d functions' % len(L.visited['dsp']))
    ctx.require(len(L.visited['host']) >= 25, 'host role reaches only %d functions' % len(L.visited['host']))
    # closures over references (RefCell / RefSlot): the DSP reads and writes the bound variable without any lock
    M = mmio.Model(ctx.F)
    ctor = M.ctor
    for off, c in M.cells.items():
        refs = []
        if c['kind'] == 'ref':
            refs.append(c['set'])
        if c['kind'] == 'bitfield':
            refs += [s['set'] for s in c['slots'] if s['set'] and s['set'].get('kind') == 'ref']
        for r in refs:
            p = r.get('path')
            if p:
                node = {'l': c['line']}
                L.access['dsp'].setdefault((p[0], p[1]), []).append((True, frozenset(), ctor, node))
                L.access['dsp'].setdefault((p[0], p[1]), []).append((False, frozenset(), ctor, node))
    shared = sorted(set(L.access['host']) & set(L.access['dsp']), key=str)
    n_shared = 0
    for key in shared:
        kind = L.field_kind(key)
        if kind is None:
            continue
        if kind.startswith(('atomic', 'mutex', 'function', 'ref', 'ptr', 'pimpl', 'record')):
            continue
        ha, da = L.access['host'][key], L.access['dsp'][key]
        if not any(w for w, *_ in ha + da):
            continue
        n_shared += 1
        ctx.inst(K1)
        common = None
        for (w, ls, f, n) in ha + da:
            common = ls if common is None else (common & ls)
        if common:
            continue
        # find a witness pair
        wit = None
        for (w1, l1, f1, n1) in ha:
            for (w2, l2, f2, n2) in da:
                if (w1 or w2) and not (l1 & l2):
                    wit = (w1, l1, f1, n1, w2, l2, f2, n2)
                    break
            if wit:
                break
        if wit is None:
            # accesses conflict only within one role (same thread): not a race between the roles
            continue
        w1, l1, f1, n1, w2, l2, f2, n2 = wit
        ctx.report(K1, (ctx.F['records'][key[0]]['file'], key[0], 0), 0, '%s::%s' % key,
                   'field is accessed from the host thread (%s %s:%s in %s, locks %s) and from the DSP thread (%s %s:%s in %s, locks %s) '
                   'without a common lock'
                   % ('write' if w1 else 'read', f1['file'], n1.get('l'), short_fn(f1['id'])[-40:], sorted(str(x[1]) for x in l1),
                      'write' if w2 else 'read', f2['file'], n2.get('l'), short_fn(f2['id'])[-40:], sorted(str(x[1]) for x in l2)))
    ctx.require(n_shared >= 8, 'only %d shared mutable fields found' % n_shared)
    ctx.notes.append('exempt: ' + CONFIG_SLOTS_REASON)
    # ---- K2 lock order
    edges = {}
    for (a, b), w in L.order.items():
        edges.setdefault(a, set()).add(b)
        ctx.inst(K2)
    ctx.notes.append('lock order edges: %s' % sorted('%s -> %s' % (a[1], b[1]) for (a, b) in L.order))
    # cycle detection
    color = {}

    def dfs(u, path):
        color[u] = 1
        for v in edges.get(u, ()):
            if color.get(v) == 1:
                cyc = path[path.index(v):] + [v] if v in path else [u, v]
                f, n = L.order[(u, v)]
                ctx.report(K2, f, n, 'cycle ' + '->'.join(x[1] for x in cyc), 'lock order cycle: %s' % ' -> '.join('%s::%s' % x for x in cyc))
            elif color.get(v) is None:
                dfs(v, path + [v])
        color[u] = 2
    for u in list(edges):
        if color.get(u) is None:
            dfs(u, [u])
    for mk, f, n in L.self_deadlock:
        ctx.report(K2, f, n, 'self-deadlock %s::%s' % mk, 'non-recursive mutex acquired while its holder already owns it (re-entrant path)')
    ctx.require(len(L.order) >= 1, 'no nested lock acquisition found (semaphore handler -> ICU expected)')
    # ---- K3
    user_slots = {k for k, s in CG.W.slots.items() if any(t['kind'] == 'host' for t in s['targets'])}
    ctx.require(len(user_slots) >= 3, 'user-supplied callback slots not found: %s' % sorted(user_slots))
    for (key, held, f, n, role) in L.slot_calls:
        if key not in user_slots:
            continue
        ctx.inst(K3)
        bad = [m for m, rec in held if not rec]
        if bad:
            ctx.report(K3, f, n, 'invoke %s::%s' % key, 'user-supplied callback invoked while holding non-recursive %s' % sorted('%s::%s' % m for m in bad))
    # the semaphore handler relies on its mutex being recursive
    rec = ctx.record('Teakra::Apbp::Impl')
    sm = [fl for fl in rec['fields'] if fl['name'] == 'semaphore_mutex']
    ctx.inst(K3)
    if not sm or 'recursive_mutex' not in sm[0]['t']['s']:
        ctx.report(K3, ('src/apbp.cpp', 'Teakra::Apbp::Impl', sm[0].get('l', 0) if sm else 0), sm[0].get('l', 0) if sm else 0,
                   'Apbp::Impl::semaphore_mutex', 'semaphore mutex is not recursive although the handler it guards may call back into the API')
    # ---- K4
    f = ctx.fn('Teakra::Interpreter::Run(unsigned long)')
    lat = ('interrupt_pending', 'vinterrupt_pending')
    for n in walk(f['body']):
        p = field_path(n) if n.get('k') in ('mem', 'opcall') else None
        if p and p[1] in lat and n.get('k') == 'mem':
            ctx.inst(K4)
    uses = [n for n in walk(f['body']) if n.get('k') == 'call' and n.get('obj') is not None and (field_path(n['obj']) or (0, ''))[1] in lat]
    reads_other = []
    from ..astq import walk_parents
    for n, parents in walk_parents(f['body']):
        if n.get('k') == 'mem' and n.get('name') in lat:
            ok = False
            for par in reversed(parents[-3:]):
                if par.get('k') == 'call' and par.get('name') in ('exchange', 'size'):
                    ok = True
            if not ok:
                reads_other.append(n)
    if len([u for u in uses if u.get('name') == 'exchange' and render(u['args'][0], f) == '0']) != 2 or reads_other:
        ctx.report(K4, f, f['body'], 'Interpreter::Run latches', 'interrupt latches are not sampled by exactly one exchange(false) each')
    rc = ctx.record('Teakra::Interpreter')
    for fl in rc['fields']:
        if fl['name'] in ('interrupt_pending', 'vinterrupt_pending', 'vinterrupt_context_switch', 'vinterrupt_address'):
            ctx.inst(K4)
            if 'std::atomic<' not in fl['t']['s']:
                ctx.report(K4, ('src/interpreter.h', 'Teakra::Interpreter', fl.get('l', 0)), fl.get('l', 0), 'Interpreter::' + fl['name'],
                           'interrupt latch shared with the host thread is not std::atomic')
    for nm in ('SignalInterrupt(unsigned int)', 'SignalVectoredInterrupt(unsigned int,bool)'):
        g = ctx.fn('Teakra::Interpreter::' + nm)
        ctx.inst(K4)
        for st in g['body'].get('body', []):
            if st.get('k') == 'assert':
                continue
            if not (st.get('k') == 'opcall' and st.get('op') == '=' and 'atomic' in str(st.get('cls', '')) or
                    st.get('k') == 'call' and st.get('name') == 'store'):
                ctx.report(K4, g, st, 'Interpreter::' + nm.split('(')[0], 'signal function does something other than atomic stores')
    k5_delivery(ctx)
    ctx.sample({'shared_field': 'Teakra::DataChannel::ready', 'locks': ['DataChannel::mutex']})
    ctx.sample({'lock_order': sorted('%s -> %s' % (a[1], b[1]) for (a, b) in L.order)})
    ctx.assumptions += ['two thread roles: host = the mailbox/semaphore API of teakra.h, dsp = Teakra::Run; other host calls are '
                        'not allowed concurrently (teakra.h)', 'object-insensitive lockset: a mutex member guards the fields of its own object',
                        'ordering / eventual observation / progress are schedule properties and are not decided']
