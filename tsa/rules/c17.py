"""C17 - behaviour depends only on the call history; Reset equals a fresh machine."""
from .. import inventory
from ..astq import walk, field_chain, field_path, unwrap_casts, const_value, direct_writes
from ..facts import AnalysisBroken, unit_kind
from ..norm import render, short_fn
from .widths import is_library

ROOT = 'Teakra::Teakra::Impl'

# wiring / construction-time leaves that Reset keeps by contract ("same callbacks installed")
EXEMPT_FIELDS = {
    ('Teakra::CoreTiming', 'registered_callbacks'): 'callback registry filled by the component constructors; survives Reset by contract',
    ('Teakra::Interpreter', 'decoders'): 'const decode table built once from compile-time data',
    ('Teakra::SharedMemory', 'own_memory'): 'owning pointer of the DSP memory block; contents are cleared through raw by memset',
}


def _kind_of_field(ctx, cls, name):
    r = ctx.F['records'].get(cls)
    if not r:
        return None, None
    for fl in r['fields']:
        if fl['name'] == name:
            return inventory.classify(fl['t']), fl
    for b in r.get('bases', []):
        k, fl = _kind_of_field(ctx, b.get('s'), name)
        if k:
            return k, fl
    return None, None


def chain_to_path(ctx, base, chain):
    p = base
    for (cls, name, idx) in chain:
        p += '.' + name
        k, fl = _kind_of_field(ctx, cls, name)
        if k in ('array', 'carray'):
            # one element addressed by a constant index covers that element only: `x[0].Reset(); x[0].Reset();` does not
            # reset x[1].  Recorded as [#i/N]; the coverage test needs all N (or an access to every element, [])
            n_el = None
            ts = str((fl or {}).get('t', {}).get('s', ''))
            import re as _re
            m_ = _re.search(r', (\d+)>$', ts) or _re.search(r'\[(\d+)\]$', ts)
            if m_:
                n_el = int(m_.group(1))
            if isinstance(idx, int) and n_el and n_el > 1:
                p += '[#%d/%d]' % (idx, n_el)
            else:
                p += '[]'
        elif k == 'pimpl':
            p += '->'
    return p


def n1_init(ctx, leaves):
    R = 'C17.N1'
    ctx.rule(R, 'no indeterminate state after construction: every state leaf reachable from Teakra::Impl (through pimpls, '
                'arrays, nested records) has an in-class initialiser, a mem-initialiser in every constructor, or is '
                'value-initialised by its owner; heap objects are created value-initialised', floor=200)
    for l in leaves:
        ctx.inst(R)
        if not l.initialised:
            ctx.report(R, (l.file, l.owner, l.line or 0), l.line or 0, '%s::%s' % (l.owner, l.field),
                       'state leaf %s (%s) is indeterminate after construction: no in-class initialiser, not initialised '
                       'by every constructor, owner not value-initialised' % (l.path, l.kind))
    # wiring pointers must be assigned in the owning constructor
    F = ctx.F['functions']
    root_ctor = [f for f in F.values() if f.get('ctor') and f.get('cls') == ROOT]
    ctx.require(len(root_ctor) == 1, 'Teakra::Impl constructor not found')
    rc = root_ctor[0]
    ctx.touch(rc)
    for l in leaves:
        if l.kind == 'wiring:ptr' and l.owner == 'Teakra::MemoryInterface':
            ctx.inst(R)
            ok = any(n.get('k') == 'call' and n.get('name') == 'SetMMIO' for n in walk(rc['body']))
            if not ok:
                ctx.report(R, rc, rc['body'], 'MemoryInterface::mmio wiring', 'Teakra::Impl constructor does not bind the MMIO region (SetMMIO)')
    # heap allocations in library code: `new T` without initialiser of a type with scalar content
    n_new = 0
    for fid, f in F.items():
        if not is_library(f):
            continue
        for n in walk(f.get('body')):
            if n.get('k') == 'new':
                n_new += 1
                ctx.inst(R)
                of = n.get('of', '')
                ini = n.get('init')
                default_init = ini is None or (ini.get('k') == 'construct' and not ini.get('args') and not ini.get('zeroinit'))
                trivial = 'std::array<' in of or of in ('unsigned char', 'unsigned short', 'unsigned int', 'char') or '[' in of
                rec = ctx.F['records'].get(of)
                if rec is not None and rec.get('trivial_default_ctor'):
                    trivial = True
                if default_init and trivial:
                    ctx.report(R, f, n, 'new ' + of[:60], 'heap object of trivially-constructible type created without value-initialisation')
            if n.get('k') == 'call' and str(n.get('fn', '')).startswith('std::make_unique<') and '[]' in str(n.get('fn')):
                pass
    # shared memory: own block comes from make_unique<std::array<u8,N>>() (value-initialised)
    ctors = [f for f in F.values() if f.get('ctor') and f.get('cls') == 'Teakra::SharedMemory']
    ctx.require(len(ctors) >= 1, 'SharedMemory constructor not found')
    for c in ctors:
        ctx.touch(c)
        ctx.inst(R)
        allocs = [n for n in walk(c['body']) if n.get('k') == 'call' and 'make_unique' in str(n.get('fn', ''))]
        news = [n for n in walk(c['body']) if n.get('k') == 'new']
        assigns = [n for n in walk(c['body']) if field_path(n.get('args', [None])[0] if n.get('k') == 'opcall' and n.get('args') else None)
                   and n.get('k') == 'opcall' and n.get('op') == '=']
        if not allocs and not news:
            ctx.report(R, c, c['body'], 'SharedMemory::own_memory', 'internally owned DSP memory is not allocated in the constructor')
        for n in allocs:
            if n.get('args'):
                ctx.report(R, c, n, 'SharedMemory::own_memory', 'make_unique called with arguments; value-initialisation not evident')


def reset_coverage(ctx, fn, base, depth=0, seen=None):
    """set of leaf-path prefixes that calling fn on the object at `base` resets, plus the list of constant assignments"""
    cov = set()
    consts = []
    if fn is None or depth > 6:
        return cov, consts
    seen = seen or set()
    if (fn['id'], base) in seen:
        return cov, consts
    seen.add((fn['id'], base))
    ctx.touch(fn)
    # range-for variables bound to member containers
    loopvars = {}
    for n in walk(fn['body']):
        if n.get('k') == 'rangefor':
            ch = field_chain(n.get('range'))
            if ch:
                loopvars[n['var']['name']] = ch
    for n in walk(fn['body']):
        k = n.get('k')
        tgt = None
        if k == 'assign' and n.get('op') == '=':
            tgt = n.get('lhs')
            rhs = n.get('rhs')
        elif k == 'opcall' and n.get('op') == '=' and n.get('args'):
            tgt = n['args'][0]
            rhs = n['args'][1] if len(n['args']) > 1 else None
        if tgt is not None:
            t = unwrap_casts(tgt)
            if isinstance(t, dict) and t.get('k') == 'un' and t.get('op') == '*' and unwrap_casts(t.get('e')).get('k') == 'this':
                cov.add(base)
                continue
            if isinstance(t, dict) and t.get('k') == 'ref' and t.get('name') in loopvars:
                cov.add(chain_to_path(ctx, base, loopvars[t['name']]))
                continue
            ch = field_chain(t)
            if ch:
                cov.add(chain_to_path(ctx, base, ch))
                cv = const_value(rhs) if isinstance(rhs, dict) else None
                if cv is not None and len(ch) == 1:
                    consts.append((ch[0], cv, n))
            continue
        if k == 'call':
            name = n.get('name')
            obj = n.get('obj')
            if name in ('reset', 'clear', 'fill') and obj is not None and str(n.get('cls', '')).startswith('std::'):
                ch = field_chain(obj)
                if ch:
                    cov.add(chain_to_path(ctx, base, ch))
                else:
                    o = unwrap_casts(obj)
                    if isinstance(o, dict) and o.get('k') == 'ref' and o.get('name') in loopvars:
                        cov.add(chain_to_path(ctx, base, loopvars[o['name']]))
                continue
            sfn = str(n.get('fn', ''))
            if sfn.startswith(('std::for_each', 'std::fill', 'std::fill_n', 'std::generate')) and n.get('args'):
                a0 = unwrap_casts(n['args'][0])
                # X.begin() / std::begin(X) / X.data() / X
                tgt0 = None
                if isinstance(a0, dict) and a0.get('k') == 'call' and a0.get('name') in ('begin', 'data', 'cbegin'):
                    tgt0 = a0.get('obj') if a0.get('obj') is not None else (a0.get('args') or [None])[0]
                else:
                    tgt0 = a0
                ch = field_chain(tgt0) if tgt0 is not None else None
                writes_elem = True
                if sfn.startswith('std::for_each'):
                    # the callable must write / reset its element
                    writes_elem = False
                    for x in walk(n['args'][-1]):
                        if x.get('k') == 'lambda' and x.get('fn') in ctx.F['functions']:
                            lam = ctx.F['functions'][x['fn']]
                            for y in walk(lam.get('body')):
                                if y.get('k') in ('assign',) or (y.get('k') == 'opcall' and y.get('op') == '=') \
                                        or (y.get('k') == 'call' and y.get('name') in ('reset', 'clear', 'Reset', 'store')):
                                    writes_elem = True
                if ch and writes_elem:
                    cov.add(chain_to_path(ctx, base, ch))
                continue
            if name == 'memset' or str(n.get('fn', '')).startswith('memset') or str(n.get('fn', '')).startswith('std::memset'):
                args = n.get('args', [])
                ch = field_chain(args[0]) if args else None
                if ch:
                    cov.add(chain_to_path(ctx, base, ch))
                continue
            callee = ctx.F['functions'].get(n.get('fn'))
            if callee is not None and obj is not None and callee.get('name') == 'Reset':
                o = unwrap_casts(obj)
                ch = field_chain(o)
                if ch:
                    sub = chain_to_path(ctx, base, ch)
                elif isinstance(o, dict) and o.get('k') == 'ref' and o.get('name') in loopvars:
                    sub = chain_to_path(ctx, base, loopvars[o['name']])
                elif isinstance(o, dict) and o.get('k') == 'this':
                    sub = base
                else:
                    continue
                c2, k2 = reset_coverage(ctx, callee, sub, depth + 1, seen)
                cov |= c2
                consts += k2
    return cov, consts


def n2_reset(ctx, leaves):
    R = 'C17.N2'
    ctx.rule(R, 'Reset covers all state: every state leaf under Teakra::Impl is written by Teakra::Impl::Reset (transitively '
                'through the component Reset methods, whole-object assignments, memset); constants assigned by Reset equal '
                'the in-class initialisers; mutable state hidden in stored closures is reachable by Reset', floor=200)
    fn = ctx.fn(ROOT + '::Reset()')
    cov, consts = reset_coverage(ctx, fn, 'Teakra')
    # fields that are written only during construction are configuration, not state
    ctor_only = {}
    for fid, f in ctx.F['functions'].items():
        if not is_library(f):
            continue
        for p, n, how in direct_writes(f.get('body')):
            key = (p[0], p[1])
            ctor_only.setdefault(key, True)
            if not f.get('ctor'):
                ctor_only[key] = False
    # element-wise coverage: a prefix `P[#i/N]rest` counts as `P[]rest` only when all N elements occur with the same rest
    import re as _re2
    full_cov = set()
    partial = {}
    for c in cov:
        m_ = _re2.search(r'\[#(\d+)/(\d+)\]', c)
        if not m_:
            full_cov.add(c)
            continue
        key = (c[:m_.start()], c[m_.end():], int(m_.group(2)))
        partial.setdefault(key, set()).add(int(m_.group(1)))
    for (pre, post, n_el), seen_idx in partial.items():
        if len(seen_idx) == n_el:
            full_cov.add(pre + '[]' + post)
        else:
            ctx.notes.append('only elements %s of %d of %s are reset' % (sorted(seen_idx), n_el, pre))
    # (nested partial indices are rare; a second level would be left partial and count as not covered)
    n_cov = 0
    for l in leaves:
        if l.kind.startswith('wiring') or l.kind == 'sync':
            continue
        ctx.inst(R)
        if (l.owner, l.field) in EXEMPT_FIELDS:
            continue
        if l.const:
            continue
        if ctor_only.get((l.owner, l.field), True) and l.kind in ('scalar', 'scalar[]'):
            # never written after construction anywhere in the library
            ctx.notes.append('construction-time constant (never written outside constructors): %s' % l.path)
            continue
        lp = l.path.replace('[]', '')
        ok = False
        for c in full_cov:
            c = c.replace('[]', '')
            if lp == c or lp.startswith(c + '.') or lp.startswith(c + '->') or (c.endswith('->') and lp.startswith(c)):
                ok = True
                break
        if ok:
            n_cov += 1
        else:
            ctx.report(R, (l.file, l.owner, l.line or 0), l.line or 0, '%s::%s' % (l.owner, l.field),
                       'state leaf %s is not reset by Teakra::Impl::Reset (not written by any reached Reset / whole-object assignment)' % l.path)
    ctx.require(n_cov >= 150, 'Reset coverage matched only %d leaves' % n_cov)
    # reset value == construction value
    for (cls, name, idx), cv, n in consts:
        k, fl = _kind_of_field(ctx, cls, name)
        if fl is None or 'init' not in fl:
            continue
        ctx.oblig(R)
        iv = const_value(fl['init'])
        if iv is None:
            vals = [const_value(x) for x in walk(fl['init']) if x.get('k') == 'int' or 'cv' in x]
            vals = [v for v in vals if v is not None]
            if len(vals) == 1:
                iv = vals[0]
            elif not vals:
                iv = 0
        if iv is not None and iv != cv:
            ctx.report(R, (ctx.F['records'][cls]['file'], cls + '::Reset', n.get('l', 0)), n.get('l', 0), '%s::%s' % (cls, name),
                       'Reset assigns %s = %s but a freshly constructed object holds %s' % (name, cv, iv))
    # hidden closure state: lambdas stored in std::function that capture a shared_ptr by value and write through it
    n_cl = 0
    for fid, f in ctx.F['functions'].items():
        if not is_library(f):
            continue
        for n in walk(f.get('body')):
            if n.get('k') != 'lambda':
                continue
            for cap in n.get('caps', []):
                if not cap.get('byref') and 'std::shared_ptr<' in str(cap.get('t', '')):
                    lam = ctx.F['functions'].get(n['fn'])
                    if lam is None:
                        continue
                    writes = False
                    for x in walk(lam['body']):
                        if x.get('k') == 'assign':
                            t = unwrap_casts(x.get('lhs'))
                            if isinstance(t, dict) and (t.get('k') == 'opcall' and t.get('op') == '*' or t.get('k') == 'un' and t.get('op') == '*'):
                                writes = True
                    if writes:
                        n_cl += 1
                        ctx.inst(R)
                        # the heap word is reachable by Reset when the same shared_ptr is also kept in a member that the
                        # reset path writes through (`*cell.storage = 0`)
                        owner = None
                        ci = cap.get('init')
                        while isinstance(ci, dict) and ci.get('k') == 'construct' and ci.get('copymove') and ci.get('args'):
                            ci = unwrap_casts(ci['args'][0])
                        if isinstance(ci, dict):
                            p_ = field_path(ci)
                            if p_:
                                owner = (p_[0], p_[1])
                        if owner is None:
                            for x in walk(f.get('body')):
                                if x.get('k') in ('assign', 'opcall') and (x.get('op') == '='):
                                    lhs = x.get('lhs') if x.get('k') == 'assign' else (x.get('args') or [None])[0]
                                    rhs = x.get('rhs') if x.get('k') == 'assign' else (x.get('args') or [None, None])[1]
                                    rr = unwrap_casts(rhs)
                                    while isinstance(rr, dict) and rr.get('k') == 'construct' and rr.get('copymove') and rr.get('args'):
                                        rr = unwrap_casts(rr['args'][0])
                                    if isinstance(rr, dict) and rr.get('k') == 'ref' and rr.get('name') == cap.get('name'):
                                        p_ = field_path(lhs)
                                        if p_:
                                            owner = (p_[0], p_[1])
                        if owner and any(c.replace('[]', '').endswith('.' + owner[1]) for c in cov):
                            ctx.notes.append('closure-held word of %s is owned by %s::%s, which the reset path clears' % (short_fn(fid), owner[0], owner[1]))
                            continue
                        ctx.report(R, f, n, 'closure storage ' + cap.get('name', '?'),
                                   'guest-writable state lives in a heap word captured by a stored closure (%s); '
                                   'no Reset path can reach it, so it survives Teakra::Reset()' % short_fn(fid))
    return cov


FORBIDDEN = ('rand', 'srand', 'random', 'time', 'clock', 'getenv', 'gettimeofday', 'clock_gettime', 'getpid')


def n3_hidden_inputs(ctx):
    R = 'C17.N3'
    ctx.rule(R, 'no hidden inputs: library code calls no random / clock / environment / thread-id source, iterates no '
                'unordered container, converts no pointer to an integer, and has no mutable namespace-scope or static-local object',
             floor=100)
    n = 0
    for fid, f in ctx.F['functions'].items():
        if not is_library(f):
            continue
        n += 1
        ctx.inst(R)
        for x in walk(f.get('body')):
            k = x.get('k')
            if k == 'call':
                fn = str(x.get('fn', ''))
                nm = x.get('name') or ''
                sf = short_fn(fn)
                if sf in FORBIDDEN or sf.startswith('std::chrono::') and sf.endswith('::now') or 'random_device' in sf \
                        or sf.startswith('std::this_thread::get_id') or 'std::mt19937' in sf or sf in ('std::rand', 'std::time', 'std::clock', 'std::getenv'):
                    ctx.report(R, f, x, 'call ' + sf[:60], 'library code consults a hidden input (%s)' % sf[:80])
            elif k == 'construct' and ('random_device' in str(x.get('cls')) or 'mersenne_twister' in str(x.get('cls'))):
                ctx.report(R, f, x, 'construct ' + str(x.get('cls'))[:40], 'library code creates a random source')
            elif k == 'rangefor':
                t = str((x.get('range') or {}).get('t', ''))
                if 'unordered_' in t:
                    ctx.report(R, f, x, 'rangefor unordered', 'iteration order of an unordered container can reach state')
            elif k == 'cast' and x.get('ck') == 'PointerToIntegral':
                ctx.report(R, f, x, 'pointer-to-integer cast', 'a pointer value is converted to an integer (allocation-dependent)')
    for key, v in ctx.F['vars'].items():
        file = v.get('file', '')
        if not (file.startswith('src/') and file.count('/') == 1 or file.startswith('include/')):
            continue
        if file.startswith('src/test'):
            continue
        if v.get('staticmember') and v.get('const'):
            continue
        ctx.inst(R)
        if v.get('const'):
            continue
        # mutable static: must never be written after initialisation
        written = False
        for fid, f in ctx.F['functions'].items():
            for x in walk(f.get('body')):
                if x.get('k') == 'assign':
                    t = unwrap_casts(x.get('lhs'))
                    if isinstance(t, dict) and t.get('k') == 'ref' and t.get('name') == v['name'] and t.get('dk') in ('staticlocal', 'global', 'staticmember'):
                        written = True
                elif x.get('k') == 'call' and x.get('obj') is not None:
                    o = unwrap_casts(x['obj'])
                    if isinstance(o, dict) and o.get('k') == 'ref' and o.get('name') == v['name'] and o.get('dk') in ('staticlocal', 'global') \
                            and x.get('name') in ('insert', 'emplace', 'erase', 'clear', 'push_back', 'operator[]', 'operator='):
                        written = True
        if written:
            ctx.report(R, (file, v.get('func', v['qname']), v.get('line', 0)), v.get('line', 0), 'static ' + v['qname'],
                       'mutable static object is modified at run time (state shared between emulator instances)')
        else:
            ctx.notes.append('mutable-qualified static %s is only read after initialisation' % v['qname'])
    ctx.require(n >= 100, 'too few library functions scanned')


def run(ctx):
    inv = inventory.Inventory(ctx.F)
    leaves = inv.build()
    ctx.require(len(leaves) >= 230, 'state inventory shrank to %d leaves' % len(leaves))
    n1_init(ctx, leaves)
    n2_reset(ctx, leaves)
    n3_hidden_inputs(ctx)
    if ctx.tier == 'thorough':
        from .. import witness
        witness.c17_init_witness(ctx)
    for l in leaves[:3] + leaves[120:123]:
        ctx.sample({'leaf': l.path, 'kind': l.kind, 'initialised_by': l.why})
    ctx.assumptions += ['user-supplied DSP memory and host callbacks are inputs of the call history',
                        'std containers / std::function / std::mutex initialise themselves']
