"""std::function slot wiring (part of engine E3).

For every std::function-typed field ("slot") of a repo class:
  stores   : where a callable is stored into it (setter bodies, direct assignments)
  targets  : what can be stored: lambdas (fn id), std::bind(&C::M, obj, args...) (method id + bound args),
             host-supplied callables (from the public API)
  invokes  : where the slot is called (opcall '()' on the field)
Resolution follows setter parameters to the setter's call sites (one level of forwarding through std::move).
"""
from .astq import walk, field_path, unwrap_casts


def _strip_move(e):
    e = unwrap_casts(e)
    while isinstance(e, dict):
        if e.get('k') == 'call' and str(e.get('fn', '')).startswith('std::move') and e.get('args'):
            e = unwrap_casts(e['args'][0])
        elif e.get('k') == 'construct' and e.get('args') and (e.get('copymove') or str(e.get('cls', '')).startswith('std::function<')):
            e = unwrap_casts(e['args'][0])
        else:
            break
    return e


def _callable(e):
    """describe a callable expression"""
    e = _strip_move(e)
    if not isinstance(e, dict):
        return None
    if e.get('k') == 'lambda':
        return {'kind': 'lambda', 'fn': e.get('fn'), 'caps': e.get('caps', []), 'node': e}
    if e.get('k') == 'call' and str(e.get('fn', '')).startswith('std::bind<') and e.get('args'):
        tgt = None
        for x in walk(e['args'][0]):
            if x.get('dk') == 'func':
                tgt = x.get('fn')
        return {'kind': 'bind', 'fn': tgt, 'obj': e['args'][1] if len(e['args']) > 1 else None,
                'args': e['args'][2:], 'node': e}
    if e.get('k') == 'ref' and e.get('dk') == 'parm':
        return {'kind': 'param', 'idx': e.get('idx'), 'name': e.get('name')}
    if e.get('k') == 'call' and e.get('fn'):
        # factory returning a lambda (NoSet / NoGet)
        return {'kind': 'factory', 'fn': e.get('fn'), 'node': e}
    if e.get('k') in ('initlist',) and not e.get('elts'):
        return {'kind': 'empty'}
    if e.get('k') == 'mem':
        return {'kind': 'field', 'path': field_path(e)}
    return {'kind': 'other', 'k': e.get('k')}


class Wiring:
    def __init__(self, F, lib_filter):
        self.F = F
        self.funcs = F['functions']
        self.lib = lib_filter
        self.slots = {}      # (cls, field) -> {'stores': [...], 'invokes': [...], 'targets': [...]}
        self._build()

    def slot(self, key):
        return self.slots.setdefault(key, {'stores': [], 'invokes': [], 'targets': []})

    def _is_slot_type(self, t):
        return str(t or '').replace('const ', '').startswith('std::function<')

    def _build(self):
        setters = {}   # fn id -> [(slot key, param idx)]
        for fid, f in self.funcs.items():
            if not self.lib(f):
                continue
            for n in walk(f.get('body')):
                k = n.get('k')
                if k == 'opcall' and n.get('op') == '=' and self._is_slot_type(n.get('cls')) and n.get('args'):
                    p = field_path(n['args'][0])
                    if p is None:
                        continue
                    key = (p[0], p[1])
                    c = _callable(n['args'][1]) if len(n['args']) > 1 else None
                    self.slot(key)['stores'].append({'func': f, 'node': n, 'callable': c})
                    if c and c['kind'] == 'param':
                        setters.setdefault(fid, []).append((key, c['idx']))
                elif k == 'opcall' and n.get('op') == '()' and self._is_slot_type(n.get('cls')) and n.get('args'):
                    p = field_path(n['args'][0])
                    if p is not None:
                        self.slot((p[0], p[1]))['invokes'].append({'func': f, 'node': n, 'args': n['args'][1:]})
            # constructor mem-initialisers: set(std::move(set))
            for ini in f.get('inits', []) or []:
                if ini.get('member') and self._is_slot_type((ini.get('init') or {}).get('t')):
                    c = _callable(ini['init'])
                    key = (f.get('cls'), ini['member'])
                    self.slot(key)['stores'].append({'func': f, 'node': ini['init'], 'callable': c})
                    if c and c['kind'] == 'param':
                        setters.setdefault(fid, []).append((key, c['idx']))
        # resolve setter call sites (two rounds for forwarding setters)
        for rnd in range(3):
            new_setters = {}
            for fid, f in self.funcs.items():
                for n in walk(f.get('body')):
                    if n.get('k') in ('call', 'construct') and n.get('fn') in setters:
                        for key, pidx in setters[n['fn']]:
                            args = n.get('args', [])
                            if pidx is None or pidx >= len(args):
                                continue
                            c = _callable(args[pidx])
                            if c is None:
                                continue
                            if c['kind'] == 'param':
                                if (key, c['idx']) not in setters.get(fid, []):
                                    new_setters.setdefault(fid, []).append((key, c['idx']))
                                # a public API function forwarding its parameter: host-supplied
                                if f['id'].startswith('Teakra::Teakra::') or f.get('externc'):
                                    self._add_target(key, {'kind': 'host', 'via': fid, 'func': f, 'node': n})
                            else:
                                c2 = dict(c)
                                c2['func'] = f
                                c2['site'] = n
                                self._add_target(key, c2)
            if not new_setters:
                break
            for k2, v2 in new_setters.items():
                setters.setdefault(k2, []).extend(v2)
        # direct stores of lambdas / binds
        for key, s in self.slots.items():
            for st in s['stores']:
                c = st['callable']
                if c and c['kind'] in ('lambda', 'bind', 'factory'):
                    c2 = dict(c)
                    c2['func'] = st['func']
                    c2['site'] = st['node']
                    self._add_target(key, c2)
        self.setters = setters

    def _add_target(self, key, t):
        ts = self.slot(key)['targets']
        for o in ts:
            if o.get('kind') == t.get('kind') and o.get('fn') == t.get('fn') and o.get('site') is t.get('site'):
                return
        ts.append(t)

    def target_functions(self, key):
        """[(fn id, mapping of callee param index -> ('arg', invocation arg index) | ('bound', expr, func))]"""
        out = []
        for t in self.slot(key)['targets']:
            if t['kind'] == 'lambda':
                fn = self.funcs.get(t['fn'])
                if fn:
                    out.append((t['fn'], {i: ('arg', i) for i in range(len(fn.get('params', [])))}, t))
            elif t['kind'] == 'bind' and t.get('fn'):
                m = {}
                for i, a in enumerate(t.get('args', [])):
                    a2 = unwrap_casts(a)
                    ph = None
                    if isinstance(a2, dict) and a2.get('k') == 'ref' and str(a2.get('qn', '')).startswith('std::placeholders::_'):
                        ph = int(a2['qn'].rsplit('_', 1)[1]) - 1
                    if ph is not None:
                        m[i] = ('arg', ph)
                    else:
                        m[i] = ('bound', a, t.get('func'))
                out.append((t['fn'], m, t))
        return out
