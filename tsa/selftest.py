"""./check --selftest [name-prefix ...]

Validates the checkers both ways:
  * on an unpatched scratch worktree of /repo HEAD every registered check exits 0;
  * for every mutation under selftest/ and seeded/ whose meta.json has an "expect" list, the patch is applied to a fresh
    scratch worktree and each expected check must exit 1 and name the expected rule.
Scratch worktrees live under a mkdtemp directory and are removed afterwards.  Not a registered property check."""
import json
import os
import subprocess
import sys
import tempfile
from concurrent.futures import ThreadPoolExecutor

HERE = os.path.dirname(os.path.dirname(os.path.abspath(__file__)))


def sh(cmd, **kw):
    return subprocess.run(cmd, stdout=subprocess.PIPE, stderr=subprocess.STDOUT, text=True, **kw)


def run_case(d):
    meta = json.load(open(os.path.join(d, 'meta.json')))
    exp = meta.get('expect') or []
    name = os.path.basename(d)
    if not exp:
        return name, 'SKIP', 'no expectation recorded'
    wt = tempfile.mkdtemp(prefix='tsa-st-')
    os.rmdir(wt)
    r = sh(['git', '-C', '/repo', 'worktree', 'add', '-q', '--detach', wt, 'HEAD'])
    if r.returncode:
        return name, 'ERROR', r.stdout[-300:]
    try:
        ok = False
        for pf in ('patch.diff', 'patch.rebased.diff'):
            p = os.path.join(d, pf)
            if os.path.exists(p) and sh(['git', '-C', wt, 'apply', p]).returncode == 0:
                ok = True
                break
        if not ok:
            return name, 'ERROR', 'patch does not apply to /repo HEAD'
        msgs = []
        good = True
        env = dict(os.environ, VERIF_REPO=wt, VERIF_EVIDENCE_DIR=wt + '.evidence')
        for e in exp:
            r = sh([os.path.join(HERE, 'check'), e['check'], '--tier', 'quick'], env=env)
            hit = r.returncode == 1 and ('[%s]' % e['rule']) in r.stdout if e.get('rule') else r.returncode == 1
            if not hit:
                good = False
                msgs.append('%s rc=%d expected rule %s; tail: %s' % (e['check'], r.returncode, e.get('rule'), r.stdout.strip().splitlines()[-1][:200] if r.stdout.strip() else ''))
            else:
                msgs.append('%s reports %s' % (e['check'], e.get('rule')))
        return name, 'PASS' if good else 'FAIL', '; '.join(msgs)
    finally:
        sh(['git', '-C', '/repo', 'worktree', 'remove', '--force', wt])
        import shutil
        shutil.rmtree(wt + '.evidence', ignore_errors=True)
    return name, 'ERROR', 'unreachable'


def main(filters):
    cases = []
    for base in ('selftest', 'seeded'):
        bd = os.path.join(HERE, base)
        if os.path.isdir(bd):
            for n in sorted(os.listdir(bd)):
                d = os.path.join(bd, n)
                if os.path.exists(os.path.join(d, 'meta.json')) and (not filters or any(n.startswith(f) for f in filters)):
                    cases.append(d)
    # keep the registered evidence files: scratch runs rewrite evidence/<id>.json, so save and restore them
    ev = os.path.join(HERE, 'evidence')
    saved = {}
    for f in os.listdir(ev) if os.path.isdir(ev) else []:
        if f.endswith('.json'):
            saved[f] = open(os.path.join(ev, f)).read()
    rc = 0
    try:
        with ThreadPoolExecutor(max_workers=4) as ex:
            for name, verdict, msg in ex.map(run_case, cases):
                print('%-32s %-5s %s' % (name, verdict, msg))
                if verdict in ('FAIL', 'ERROR'):
                    rc = 1
    finally:
        for f, txt in saved.items():
            open(os.path.join(ev, f), 'w').write(txt)
    return rc
