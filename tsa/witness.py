"""Compile-fail witnesses (thorough tier): a second, independent decision path that uses the compiler's own
type checker / constant evaluator.  A witness TU is generated from the tables, compiled with
`clang++ -fsyntax-only -ferror-limit=0` against the current headers of the repository; any error is a violation
that names the static_assert / declaration that failed.  Nothing is linked or executed."""
import json
import os
import re
import subprocess
import tempfile

from .facts import VERIF, RESOURCE_DIR, AnalysisBroken


def compile_witness(ctx, name, text):
    repo = ctx.F['repo']
    d = tempfile.mkdtemp(prefix='tsa-wit-')
    try:
        p = os.path.join(d, name + '.cc')
        open(p, 'w').write(text)
        cmd = ['clang++', '-std=c++17', '-fsyntax-only', '-ferror-limit=0', '-Wno-everything',
               '-I' + os.path.join(repo, 'include'), '-I' + os.path.join(repo, 'src'),
               '-I' + os.path.join(repo, 'include', 'teakra', 'impl'), '-resource-dir', RESOURCE_DIR, p]
        r = subprocess.run(cmd, stdout=subprocess.PIPE, stderr=subprocess.STDOUT, text=True)
        errs = []
        for line in r.stdout.splitlines():
            m = re.match(r'^(.*?):(\d+):(\d+): error: (.*)$', line)
            if m:
                errs.append((m.group(1), int(m.group(2)), m.group(4)))
        if r.returncode != 0 and not errs:
            raise AnalysisBroken('witness %s could not be compiled: %s' % (name, r.stdout[-500:]))
        return errs, text.splitlines()
    finally:
        import shutil
        shutil.rmtree(d, ignore_errors=True)


def c20_layout_witness(ctx, rid='C20.W8'):
    ctx.rule(rid, 'compile-time witness: a generated TU static_asserts, against the real register.h, that each of the 19 words '
                  'has exactly the architectural slots (position, length, proxy type) of tables/c20_layout.json', floor=19)
    tab = json.load(open(os.path.join(VERIF, 'tsa', 'tables', 'c20_layout.json')))['words']
    rec = ctx.record('Teakra::RegisterState')
    size = {}
    for fl in rec['fields']:
        t = fl['t']
        if t.get('tn') == 'std::array':
            size[fl['name']] = t['ta'][1]['i']

    def proxy(kind, targets):
        RS = 'Teakra::RegisterState'
        if kind == 'Redirector':
            return 'Teakra::Redirector<&%s::%s>' % (RS, targets[0][0])
        if kind == 'RORedirector':
            return 'Teakra::RORedirector<&%s::%s>' % (RS, targets[0][0])
        if kind == 'ArrayRedirector':
            return 'Teakra::ArrayRedirector<%d, &%s::%s, %d>' % (size[targets[0][0]], RS, targets[0][0], targets[0][1])
        if kind == 'ArrayRORedirector':
            return 'Teakra::ArrayRORedirector<%d, &%s::%s, %d>' % (size[targets[0][0]], RS, targets[0][0], targets[0][1])
        if kind == 'DoubleRedirector':
            return 'Teakra::DoubleRedirector<&%s::%s, &%s::%s>' % (RS, targets[0][0], RS, targets[1][0])
        if kind == 'AccEProxy':
            return 'Teakra::AccEProxy<%d>' % targets[0][1]
        if kind == 'LPRedirector':
            return 'Teakra::LPRedirector'
        raise AnalysisBroken('unknown proxy kind in c20_layout.json: ' + kind)
    lines = ['#include <type_traits>', '#include "register.h"',
             'template <class PR> struct W;',
             'template <class... S> struct W<Teakra::PseudoRegister<S...>> {',
             '  static constexpr unsigned count = sizeof...(S);',
             '  template <unsigned P, unsigned L, class X> static constexpr bool has = ((S::pos == P && S::len == L && std::is_same_v<typename S::proxy, X>) || ...);',
             '};']
    n = 0
    for w in sorted(tab):
        lines.append('static_assert(W<Teakra::%s>::count == %d, "%s: number of slots");' % (w, len(tab[w]), w))
        for pos, ln, kind, targets in tab[w]:
            lines.append('static_assert(W<Teakra::%s>::has<%d, %d, %s>, "%s: slot at bit %d length %d is not %s");'
                         % (w, pos, ln, proxy(kind, targets), w, pos, ln, proxy(kind, targets).replace('Teakra::', '')))
            n += 1
    lines.append('int main() {}')
    errs, src = compile_witness(ctx, 'c20_layout', '\n'.join(lines) + '\n')
    ctx.inst(rid, 19, n + 19)
    for f, line, msg in errs:
        s = src[line - 1] if f.endswith('c20_layout.cc') and line - 1 < len(src) else ''
        m = re.search(r'"([^"]+)"\);$', s)
        what = m.group(1) if m else msg
        word = what.split(':')[0]
        ctx.report(rid, ('include/teakra/impl/register.h', 'Teakra::' + word, 0), 0, 'witness ' + what[:60],
                   'the compiler rejects the layout witness: ' + what)
    return n


def c17_init_witness(ctx, rid='C17.N4'):
    ctx.rule(rid, 'compile-time witness: `constexpr T probe;` (default-initialisation) compiles for the literal state classes '
                  'RegisterState, RegisterState::BlockRepeatFrame and MemoryInterfaceUnit - in C++17 that requires every '
                  'scalar member to have an initialiser', floor=3)
    types = ['Teakra::RegisterState', 'Teakra::RegisterState::BlockRepeatFrame', 'Teakra::MemoryInterfaceUnit']
    lines = ['#include "register.h"', '#include "memory_interface.h"']
    for i, t in enumerate(types):
        lines.append('constexpr %s probe_%d;' % (t, i))
    lines.append('int main() {}')
    errs, src = compile_witness(ctx, 'c17_init', '\n'.join(lines) + '\n')
    ctx.inst(rid, len(types))
    for f, line, msg in errs:
        s = src[line - 1] if f.endswith('c17_init.cc') and line - 1 < len(src) else ''
        m = re.match(r'constexpr (\S+) probe', s)
        t = m.group(1) if m else '?'
        ctx.report(rid, ('include/teakra/impl/register.h' if 'Register' in t else 'src/memory_interface.h', t, 0), 0, 'witness ' + t,
                   'default-initialised constexpr object of %s does not compile: a member has no initialiser (%s)' % (t, msg[:120]))
