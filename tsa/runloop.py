"""Structure of Interpreter::Run: the per-cycle loop split into its named stages."""
from .astq import walk
from .facts import AnalysisBroken
from .norm import Renderer

REGS = '(. f:Teakra::Interpreter::regs Teakra::RegisterState::'


class RunLoop:
    def __init__(self, F):
        f = F['functions'].get('Teakra::Interpreter::Run(unsigned long)')
        if f is None:
            raise AnalysisBroken('Interpreter::Run vanished')
        self.f = f
        self.r = Renderer(f, inline_locals=False)
        ri = Renderer(f, inline_locals=True)      # conditions may go through a named temporary
        top = f['body'].get('body', [])
        loops = [n for n in top if n.get('k') == 'for']
        if len(loops) != 1:
            raise AnalysisBroken('Interpreter::Run: cycle loop not found')
        self.prologue = top[:top.index(loops[0])]
        self.loop = loops[0]
        self.body = loops[0]['body'].get('body', [])
        self.stage = {}
        self.order = []
        r = self.r
        for i, st in enumerate(self.body):
            t = r.s(st)
            name = None
            if st.get('k') == 'if':
                c = ri.r(st.get('cond'))
                if c == 'f:Teakra::Interpreter::idle':
                    name = 'idle'
                elif c == REGS + 'rep)':
                    name = 'rep'
                elif c.startswith('(&& ') and REGS + 'lp)' in c and 'BlockRepeatFrame::end' in c:
                    name = 'lp'
                elif REGS + 'ie)' in c and 'NeedExpansion' not in c:
                    name = 'interrupt'
                elif 'NeedExpansion' in c:
                    name = 'expand'
                elif 'vinterrupt_pending' in c:
                    name = 'vlatch'
            elif st.get('k') == 'for' and 'interrupt_pending' in t:
                name = 'latch'
            elif st.get('k') == 'decl' and 'ProgramRead' in t:
                name = 'fetch'
            elif st.get('k') == 'decl' and 'decoders' in t:
                name = 'decode'
            elif st.get('k') == 'decl':
                name = 'decl%d' % i
            elif st.get('k') == 'call' and st.get('name') == 'call' and 'Matcher<' in str(st.get('cls')):
                name = 'dispatch'
            elif st.get('k') == 'call' and st.get('name') == 'Tick':
                name = 'tick'
            if name is None:
                name = 'other%d' % i
            if name in self.stage:
                name = name + '#%d' % i
            self.stage[name] = st
            self.order.append(name)

    def need(self, *names):
        for n in names:
            if n not in self.stage:
                raise AnalysisBroken('Interpreter::Run: stage `%s` not found (stages: %s)' % (n, self.order))

    def index(self, name):
        return self.order.index(name)
