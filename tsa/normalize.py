"""Facts-level normalisation (run once after extraction, before any rule sees the program).

The rules of tsa/rules recognise constructs of the code base by the functions and fields the properties are anchored in.
A behaviour-preserving refactoring must not change what they see, so the program is first brought into a normal form by
two semantics-preserving transformations:

 1. helper inlining - a function that is *not part of the vocabulary* (tables/vocabulary.json: the qualified function
    names of the tree the rules were written against) is a helper introduced later; its calls are replaced by its body
    (expression helpers: `return E;` possibly preceded by asserts / single-assignment locals / an if-return chain;
    statement helpers: void functions whose early returns can be structured into if/else).  A helper whose every use
    was inlined is dropped from the function table.  Functions of the vocabulary are never inlined: they are anchors.
 2. alias substitution - a local reference `T& x = <lvalue path>;` whose path cannot change while x is alive is
    replaced by the path, so that writes through the alias are seen as writes to the object.

Both only rewrite the AST-lite; anything they cannot handle exactly is left as it is (a call stays a call).
"""
import copy
import json
import os

from .astq import walk, children

HERE = os.path.dirname(os.path.abspath(__file__))
VOCAB = os.path.join(HERE, 'tables', 'vocabulary.json')
MAX_ROUNDS = 6


def vocab_key(qname):
    """qualified name with template argument lists removed"""
    out = []
    depth = 0
    for ch in qname or '':
        if ch == '<':
            depth += 1
        elif ch == '>':
            depth -= 1
        elif depth == 0:
            out.append(ch)
    return ''.join(out)


def load_vocab():
    try:
        return set(json.load(open(VOCAB))['functions'])
    except (OSError, ValueError, KeyError):
        return None


# ---------------------------------------------------------------------------------------------- purity

_IMPURE_UN = ('++', '--', 'post++', 'post--')
_PURE_STD = ('empty', 'size', 'length', 'front', 'back', 'at', 'count', 'load', 'operator bool', 'test', 'any', 'none', 'all',
             'has_value', 'value', 'get', 'c_str', 'data')
_PURE_OPCALL = ('[]', '->', '*', '==', '!=', '<', '>', '<=', '>=', '!', '&', '|', '^', '~', '+', '-')


def is_pure(e):
    """no side effects and no dependence on evaluation order"""
    for n in walk(e):
        k = n.get('k')
        if k in ('assign', 'construct', 'new', 'delete', 'lambda', 'throw', 'initlist', 'stdinitlist'):
            if k == 'construct' and n.get('copymove'):
                continue
            return False
        if k == 'call':
            if n.get('name') in _PURE_STD and (str(n.get('cls', '')).startswith('std::') or str(n.get('fn', '')).startswith('std::')):
                continue
            return False
        if k == 'opcall' and n.get('op') not in _PURE_OPCALL:
            return False
        if k == 'un' and n.get('op') in _IMPURE_UN:
            return False
    return True


def _strip(e):
    while isinstance(e, dict) and e.get('k') == 'cast':
        e = e.get('e')
    return e


# ---------------------------------------------------------------------------------------------- substitution

def subst(node, parm_map, this_obj, local_map, tag):
    """deep copy of `node` with parameter refs replaced (parm_map: idx -> expr), `this` re-based onto this_obj
       (None: keep), locals renamed (local_map: (name, dl) -> new name)"""
    if isinstance(node, list):
        return [subst(x, parm_map, this_obj, local_map, tag) for x in node]
    if not isinstance(node, dict):
        return node
    k = node.get('k')
    if k == 'ref' and node.get('dk') == 'parm' and node.get('idx') in parm_map:
        return copy.deepcopy(parm_map[node['idx']])
    if k == 'mem' and this_obj is not None and isinstance(node.get('base'), dict) and node['base'].get('k') == 'this':
        out = {kk: subst(v, parm_map, this_obj, local_map, tag) for kk, v in node.items() if kk != 'base'}
        obj, ptr = this_obj
        out['base'] = copy.deepcopy(obj)
        out['arrow'] = bool(ptr)
        return out
    if k == 'this' and this_obj is not None:
        obj, ptr = this_obj
        if ptr:
            return copy.deepcopy(obj)
        return {'k': 'un', 'op': '&', 'l': node.get('l'), 't': node.get('t'), 'e': copy.deepcopy(obj)}
    out = {}
    for kk, v in node.items():
        out[kk] = subst(v, parm_map, this_obj, local_map, tag)
    if k in ('var',) and (node.get('name'), node.get('dl')) in local_map:
        out['name'] = local_map[(node['name'], node.get('dl'))]
        if 'dl' in out:
            out['dl'] = out['dl'] + tag
    elif k == 'ref' and node.get('dk') in ('local', 'binding') and (node.get('name'), node.get('dl')) in local_map:
        out['name'] = local_map[(node['name'], node.get('dl'))]
        if 'dl' in out:
            out['dl'] = out['dl'] + tag
    return out


def _locals_of(body):
    out = {}
    for n in walk(body):
        if n.get('k') == 'var' and n.get('name'):
            out[(n['name'], n.get('dl'))] = n
    return out


def _parm_uses(body, nparams):
    uses = [0] * nparams
    written = [False] * nparams
    for n in walk(body):
        k = n.get('k')
        if k == 'ref' and n.get('dk') == 'parm' and isinstance(n.get('idx'), int) and n['idx'] < nparams:
            uses[n['idx']] += 1
        tgt = None
        if k == 'assign':
            tgt = _strip(n.get('lhs'))
        elif k == 'un' and n.get('op') in _IMPURE_UN + ('&',):
            tgt = _strip(n.get('e'))
        if isinstance(tgt, dict) and tgt.get('k') == 'ref' and tgt.get('dk') == 'parm' and isinstance(tgt.get('idx'), int) \
                and tgt['idx'] < nparams:
            written[tgt['idx']] = True
    return uses, written


# ---------------------------------------------------------------------------------------------- helper forms

def _always_returns(s):
    if s is None:
        return False
    k = s.get('k')
    if k in ('return', 'unreachable', 'throw'):
        return True
    if k == 'block':
        return any(_always_returns(x) for x in s.get('body', []))
    if k == 'if':
        return s.get('else') is not None and _always_returns(s.get('then')) and _always_returns(s.get('else'))
    return False


def _has_return(s):
    return any(n.get('k') == 'return' for n in walk(s))


def _stmts(s):
    if s is None:
        return []
    if s.get('k') == 'block':
        return list(s.get('body', []))
    return [s]


def value_form(stmts):
    """(prefix statements, expression, prefix_is_pure) for a statement list that computes one value on every path:
       simple statements (asserts, declarations, expression statements) followed by  return E | an if-return chain.
       None when not of that form."""
    prefix = []
    pure = True
    i = 0
    while i < len(stmts) and stmts[i].get('k') in ('assert', 'decl', 'null', 'assign', 'un', 'call', 'opcall'):
        s = stmts[i]
        if s.get('k') == 'decl':
            for v in s.get('vars', []):
                if v.get('static') or v.get('bindings'):
                    return None
                if 'init' in v and not is_pure(v['init']):
                    pure = False
        elif s.get('k') in ('assign', 'un', 'call', 'opcall'):
            pure = False
        if s.get('k') != 'null':
            prefix.append(s)
        i += 1
    e = _value_expr(stmts[i:])
    if e is None:
        return None
    return prefix, e, pure


def _value_expr(stmts):
    if not stmts:
        return None
    s = stmts[0]
    k = s.get('k')
    if k == 'return' and s.get('e') is not None and len(stmts) == 1:
        return s['e']
    if k == 'block' and len(stmts) == 1:
        return _value_expr(_stmts(s))
    if k == 'if' and not s.get('init') and is_pure(s.get('cond')):
        a = _value_expr(_stmts(s.get('then')))
        if a is None:
            return None
        if s.get('else') is not None:
            if len(stmts) != 1:
                return None
            b = _value_expr(_stmts(s.get('else')))
        else:
            b = _value_expr(stmts[1:])
        if b is None:
            return None
        return {'k': 'cond', 'l': s.get('l'), 't': a.get('t'), 'c': s['cond'], 'a': a, 'b': b}
    return None


def structure_void(stmts):
    """statement list of a void function with its early `return;`s turned into if/else nesting; None if a return sits
       inside a loop / switch / try or the function returns a value"""
    out = []
    stmts = list(stmts)
    i = 0
    while i < len(stmts):
        s = stmts[i]
        k = s.get('k')
        if k == 'return':
            if s.get('e') is not None:
                return None
            return out
        if not _has_return(s):
            out.append(s)
            i += 1
            continue
        if k == 'block':
            # a nested scope with a return in it: flatten (locals are renamed apart at the call site anyway)
            stmts[i:i + 1] = _stmts(s)
            continue
        if k == 'if' and not s.get('init'):
            th, el = _stmts(s.get('then')), _stmts(s.get('else'))
            rest = stmts[i + 1:]
            # every path through the `if` either returns or continues with `rest`: push the rest into both branches
            # (a branch that always returns drops it again); the copy keeps node identities distinct
            a = structure_void(th + rest)
            b = structure_void(el + copy.deepcopy(rest))
            if a is None or b is None:
                return None
            node = {'k': 'if', 'l': s.get('l'), 'cond': s['cond'], 'then': {'k': 'block', 'l': s.get('l'), 'body': a}}
            if b:
                node['else'] = {'k': 'block', 'l': s.get('l'), 'body': b}
            return out + [node]
        return None
    return out


class Helper:
    def __init__(self, f):
        self.f = f
        self.nparams = len(f.get('params', []))
        body = f.get('body')
        self.value = None
        self.void = None
        if not isinstance(body, dict) or body.get('k') != 'block':
            return
        st = body.get('body', [])
        self.uses, self.written = _parm_uses(body, self.nparams)
        if any(n.get('k') in ('lambda', 'try') or (n.get('k') == 'var' and n.get('static')) for n in walk(body)):
            return
        if f.get('ret') == 'void':
            self.void = structure_void(st)
        else:
            self.value = value_form(st)


def candidate(f, vocab):
    if vocab_key(f.get('qname')) in vocab:
        return False
    if f.get('lambda') or f.get('ctor') or f.get('dtor') or f.get('virtual') or f.get('overrides') or f.get('externc'):
        return False
    if f.get('name', '').startswith('operator') or f.get('name') == 'main':
        return False
    if not f.get('file', '').startswith(('src/', 'include/')):
        return False
    if not isinstance(f.get('body'), dict):
        return False
    return True


# ---------------------------------------------------------------------------------------------- call-site rewriting

class Inliner:
    def __init__(self, functions, helpers):
        self.F = functions
        self.H = helpers
        self.counter = 0
        self.changed = False

    def _site_maps(self, h, call):
        """(parm_map, this_obj, extra_decls) or None when the site cannot be inlined exactly"""
        args = call.get('args', [])
        if len(args) != h.nparams:
            return None        # default arguments / variadics: leave the call
        parm_map = {}
        decls = []
        self.counter += 1
        tag = self.counter * 10 ** 7
        for i, a in enumerate(args):
            p = h.f['params'][i]
            byref = '&' in str(p.get('t', ''))
            if h.written[i] and not byref:
                # by-value parameter modified in the helper: give it a local of its own
                nm = '%s@p%d' % (p.get('name') or 'arg', self.counter)
                decls.append({'k': 'decl', 'l': call.get('l'), 'vars': [{'k': 'var', 'l': call.get('l'), 'dl': tag + i, 'name': nm,
                                                                        't': p.get('t'), 'init': copy.deepcopy(a)}]})
                parm_map[i] = {'k': 'ref', 'l': call.get('l'), 't': p.get('t'), 'name': nm, 'dk': 'local', 'dl': tag + i}
            elif h.uses[i] > 1 and not is_pure(a):
                return None
            else:
                parm_map[i] = a
        this_obj = None
        if h.f.get('cls') and not h.f.get('static'):
            obj = call.get('obj')
            if obj is None:
                return None
            t = str(obj.get('t', ''))
            ptr = t.rstrip().endswith('*') or obj.get('k') == 'this' or (obj.get('k') == 'opcall' and obj.get('op') == '->')
            if not is_pure(obj):
                return None
            this_obj = (obj, ptr)
        lm = {key: '%s@i%d' % (key[0], self.counter) for key in _locals_of(h.f['body'])}
        return parm_map, this_obj, decls, lm, tag

    def expr_replacement(self, call, whole=False):
        """for a call to a value helper: (prefix statements, expression) or None.  `whole`: the call is the entire value
           computed by its statement, so that even a side-effecting prefix can be placed in front of the statement"""
        h = self.H.get(call.get('fn'))
        if h is None or h.value is None:
            return None
        m = self._site_maps(h, call)
        if m is None:
            return None
        parm_map, this_obj, decls, lm, tag = m
        prefix, e, pure = h.value
        if not pure and not whole:
            return None
        pre = decls + [subst(s, parm_map, this_obj, lm, tag) for s in prefix]
        return pre, subst(e, parm_map, this_obj, lm, tag)

    def stmt_replacement(self, call):
        h = self.H.get(call.get('fn'))
        if h is None or h.void is None:
            return None
        m = self._site_maps(h, call)
        if m is None:
            return None
        parm_map, this_obj, decls, lm, tag = m
        return decls + [subst(s, parm_map, this_obj, lm, tag) for s in h.void]

    # ---- walking a function body
    def run(self, f):
        body = f.get('body')
        if isinstance(body, dict):
            self._block_like(body, f)

    def _block_like(self, node, f):
        """rewrite all statement lists below node"""
        if not isinstance(node, dict):
            return
        k = node.get('k')
        if k == 'block':
            node['body'] = self._stmt_list(node.get('body', []), f)
            return
        if k == 'lambda':
            return
        for key in ('then', 'else', 'body', 'sub'):
            c = node.get(key)
            if isinstance(c, dict):
                if c.get('k') != 'block' and ((key in ('then', 'else', 'body') and k in ('if', 'for', 'while', 'do', 'rangefor'))
                                              or (key == 'sub' and k in ('case', 'default', 'attributed'))):
                    # single statement branch: give it a block so that it can grow
                    new = self._stmt_list([c], f)
                    node[key] = new[0] if len(new) == 1 else {'k': 'block', 'l': c.get('l'), 'body': new}
                else:
                    self._block_like(c, f)
        if k == 'switch' and isinstance(node.get('body'), dict):
            self._block_like(node['body'], f)
        if k == 'try':
            for c in children(node):
                self._block_like(c, f)

    def _stmt_list(self, stmts, f):
        out = []
        for s in stmts:
            k = s.get('k')
            # 1. void helper called as a statement
            if k == 'call' and s.get('fn') in self.H and s.get('fn') != f.get('id'):
                rep = self.stmt_replacement(s)
                if rep is not None:
                    self.changed = True
                    out.extend(rep)
                    continue
            # 2. value helpers inside the expressions of a simple statement
            if k in ('return', 'decl', 'assign', 'call', 'opcall', 'assert', 'if', 'un', 'bin', 'cond', 'cast'):
                pre, s = self._rewrite_exprs(s, f, hoist_ok=self._hoistable(s))
                out.extend(pre)
            out.append(s)
            self._block_like(s, f)
        return out

    @staticmethod
    def _hoistable(s):
        """prefix statements of an inlined helper may be placed in front of statement s only when nothing in s has
           side effects that the hoisted asserts / locals could observe"""
        roots = [s.get('cond')] if s.get('k') == 'if' else [s]
        for r in roots:
            for n in walk(r):
                if n.get('k') == 'un' and n.get('op') in _IMPURE_UN:
                    return False
                if n.get('k') in ('lambda', 'assign') and n is not s:
                    return False
        return True

    def _rewrite_exprs(self, s, f, hoist_ok):
        """replace value-helper calls in the expressions owned directly by statement s; returns (hoisted prefix, s')"""
        pre = []
        whole_node = None
        k0 = s.get('k')
        cand = None
        if k0 == 'return':
            cand = s.get('e')
        elif k0 == 'assign' and is_pure(s.get('lhs')):
            cand = s.get('rhs')
        elif k0 == 'decl' and len(s.get('vars', [])) == 1:
            cand = s['vars'][0].get('init')
        elif k0 == 'call':
            cand = s
        cand = _strip(cand)
        if isinstance(cand, dict) and cand.get('k') == 'construct' and cand.get('copymove') and len(cand.get('args', [])) == 1:
            cand = _strip(cand['args'][0])
        if isinstance(cand, dict) and cand.get('k') == 'call' and all(is_pure(a) for a in cand.get('args', [])):
            whole_node = cand

        def rw(e):
            if isinstance(e, list):
                return [rw(x) for x in e]
            if not isinstance(e, dict):
                return e
            k = e.get('k')
            if k in ('block', 'lambda', 'if', 'for', 'while', 'do', 'switch', 'rangefor', 'try', 'case', 'default'):
                return e
            for kk, v in list(e.items()):
                if kk in ('owner', 'fta', 'ta', 'caps_t'):
                    continue
                if isinstance(v, (dict, list)):
                    e[kk] = rw(v)
            if k == 'call' and e.get('fn') in self.H and e.get('fn') != f.get('id'):
                rep = self.expr_replacement(e, whole=e is whole_node)
                if rep is not None:
                    p, ex = rep
                    if p and not hoist_ok and e is not whole_node:
                        return e
                    pre.extend(p)
                    self.changed = True
                    return ex
            return e
        if s.get('k') == 'if':
            s['cond'] = rw(s.get('cond'))
            return pre, s
        return pre, rw(s)


# ---------------------------------------------------------------------------------------------- alias substitution

def _path_inputs_stable(init, body):
    """the lvalue path `init` denotes the same object throughout `body`: every index / base it reads is a parameter or
       local never assigned in body, a constant, `this`, or a field that body does not write directly"""
    from .astq import direct_writes, field_path
    assigned = set()
    for n in walk(body):
        k = n.get('k')
        tgt = None
        if k == 'assign':
            tgt = _strip(n.get('lhs'))
        elif k == 'un' and n.get('op') in _IMPURE_UN:
            tgt = _strip(n.get('e'))
        if isinstance(tgt, dict) and tgt.get('k') == 'ref':
            assigned.add((tgt.get('name'), tgt.get('dl')))
    written_fields = {(p[0], p[1]) for p, n, how in direct_writes(body)}

    def idx_ok(e):
        for n in walk(e):
            k = n.get('k')
            if k == 'ref' and n.get('dk') in ('parm', 'local', 'binding') and (n.get('name'), n.get('dl')) in assigned:
                return False
            if k == 'mem' and (n.get('cls'), n.get('name')) in written_fields:
                return False
            if k in ('call', 'assign', 'construct') or (k == 'un' and n.get('op') in _IMPURE_UN):
                return False
        return True
    # walk down the path; only index expressions and pointer-valued bases matter
    e = _strip(init)
    while isinstance(e, dict):
        k = e.get('k')
        if k == 'mem':
            if e.get('arrow') and not idx_ok(e.get('base')) and _strip(e.get('base')).get('k') != 'this':
                return False
            e = _strip(e.get('base'))
        elif k == 'index':
            if not idx_ok(e.get('idx')):
                return False
            e = _strip(e.get('base'))
        elif k == 'opcall' and e.get('op') in ('[]', '->', '*'):
            args = e.get('args', [])
            if len(args) == 2 and not idx_ok(args[1]):
                return False
            e = _strip(args[0]) if args else None
        elif k == 'un' and e.get('op') == '*':
            if not idx_ok(e.get('e')):
                return False
            return True
        elif k in ('ref', 'this'):
            return (e.get('name'), e.get('dl')) not in assigned
        else:
            return False
    return False


def substitute_aliases(f):
    body = f.get('body')
    if not isinstance(body, dict):
        return False
    changed = False
    for blk in [n for n in walk(body) if n.get('k') == 'block']:
        new = []
        for s in blk.get('body', []):
            if s.get('k') != 'decl':
                new.append(s)
                continue
            keep = []
            for v in s.get('vars', []):
                init = v.get('init')
                if v.get('isref') and isinstance(init, dict) and not v.get('static') and not v.get('bindings') \
                        and is_pure(init) and _strip(init).get('k') in ('mem', 'index', 'opcall') \
                        and _path_inputs_stable(init, body):
                    key = (v.get('name'), v.get('dl'))
                    _replace_refs(body, key, init)
                    changed = True
                else:
                    keep.append(v)
            if keep:
                s['vars'] = keep
                new.append(s)
        blk['body'] = new
    return changed


def _replace_refs(node, key, init):
    if isinstance(node, list):
        for i, x in enumerate(node):
            if isinstance(x, dict) and x.get('k') == 'ref' and x.get('dk') == 'local' and (x.get('name'), x.get('dl')) == key:
                node[i] = copy.deepcopy(init)
            else:
                _replace_refs(x, key, init)
        return
    if not isinstance(node, dict):
        return
    for kk, v in list(node.items()):
        if kk in ('owner', 'fta', 'ta', 'caps_t'):
            continue
        if isinstance(v, dict) and v.get('k') == 'ref' and v.get('dk') == 'local' and (v.get('name'), v.get('dl')) == key:
            node[kk] = copy.deepcopy(init)
        elif isinstance(v, (dict, list)):
            _replace_refs(v, key, init)


# ---------------------------------------------------------------------------------------------- loop form

def while_to_for(f):
    """`while (c) { body; ++v; }` with v tested in c and no `continue` in body is `for (; c; ++v) { body }`"""
    body = f.get('body')
    if not isinstance(body, dict):
        return False
    changed = False
    for n in list(walk(body)):
        if n.get('k') != 'while':
            continue
        b = n.get('body')
        stmts = _stmts(b)
        if len(stmts) < 1:
            continue
        last = stmts[-1]
        tgt = None
        if last.get('k') == 'un' and last.get('op') in _IMPURE_UN:
            tgt = _strip(last.get('e'))
        elif last.get('k') == 'assign' and last.get('op') in ('+=', '-='):
            tgt = _strip(last.get('lhs'))
        if not (isinstance(tgt, dict) and tgt.get('k') == 'ref' and tgt.get('dk') == 'local'):
            continue
        key = (tgt.get('name'), tgt.get('dl'))
        if not any(x.get('k') == 'ref' and (x.get('name'), x.get('dl')) == key for x in walk(n.get('cond'))):
            continue
        inner = stmts[:-1]
        if any(x.get('k') == 'continue' for s_ in inner for x in _walk_same_loop(s_)):
            continue
        # v must not be written elsewhere in the body
        if any(_writes_local(x, key) for s_ in inner for x in walk(s_)):
            continue
        n['k'] = 'for'
        n['init'] = None
        n['inc'] = last
        n['body'] = {'k': 'block', 'l': b.get('l') if isinstance(b, dict) else n.get('l'), 'body': inner}
        changed = True
    return changed


def _walk_same_loop(s):
    """nodes of s that belong to the same loop level (does not descend into nested loops)"""
    yield s
    if s.get('k') in ('for', 'while', 'do', 'rangefor', 'lambda'):
        return
    for c in children(s):
        yield from _walk_same_loop(c)


def _writes_local(n, key):
    t = None
    if n.get('k') == 'assign':
        t = _strip(n.get('lhs'))
    elif n.get('k') == 'un' and n.get('op') in _IMPURE_UN + ('&',):
        t = _strip(n.get('e'))
    return isinstance(t, dict) and t.get('k') == 'ref' and (t.get('name'), t.get('dl')) == key


def index_to_rangefor(f, R=None):
    """`for (i = 0; i < C.size(); ++i) { ... C[i] ... }` where i is used for nothing but C[i] is `for (auto& e : C)`"""
    from .loops import loop_range
    from .norm import Renderer
    body = f.get('body')
    if not isinstance(body, dict):
        return False
    changed = False
    r = None
    SHRINK = ('pop_back', 'clear', 'erase', 'resize', 'pop', 'pop_front')
    for n in list(walk(body)):
        if n.get('k') != 'for':
            continue
        inc = _strip(n.get('inc'))
        if not (isinstance(inc, dict) and inc.get('k') == 'un' and inc.get('op') in ('++', 'post++')):
            continue
        v = _strip(inc.get('e'))
        if not (isinstance(v, dict) and v.get('k') == 'ref' and v.get('dk') == 'local'):
            continue
        key = (v.get('name'), v.get('dl'))
        decl = [x for x in walk(n.get('init') or {}) if x.get('k') == 'var' and (x.get('name'), x.get('dl')) == key]
        if len(decl) != 1 or 'init' not in decl[0] or not _is_zero(decl[0]['init']):
            continue
        c = _strip(n.get('cond'))
        if not (isinstance(c, dict) and c.get('k') == 'bin' and c.get('op') in ('<', '!=', '>')):
            continue
        a, b = (c['lhs'], c['rhs']) if c['op'] != '>' else (c['rhs'], c['lhs'])
        a2, b2 = _strip(a), _strip(b)
        if not (isinstance(a2, dict) and a2.get('k') == 'ref' and (a2.get('name'), a2.get('dl')) == key):
            continue
        if not (isinstance(b2, dict) and b2.get('k') == 'call' and b2.get('name') == 'size' and b2.get('obj') is not None
                and not b2.get('args') and is_pure(b2['obj'])):
            continue
        cont = b2['obj']
        r = r or Renderer(None, inline_locals=False)
        ct = r.r(cont)
        # every use of i in the body is C[i]; C is not shrunk or reassigned in the body
        uses = []
        ok = True

        def scan(x, parent):
            nonlocal ok
            if not isinstance(x, dict):
                return
            if x.get('k') == 'ref' and (x.get('name'), x.get('dl')) == key:
                good = isinstance(parent, dict) and ((parent.get('k') == 'opcall' and parent.get('op') == '[]' and len(parent.get('args', [])) == 2
                                                     and _strip(parent['args'][1]) is x and r.r(parent['args'][0]) == ct)
                                                    or (parent.get('k') == 'call' and parent.get('name') == 'at' and parent.get('obj') is not None
                                                        and r.r(parent['obj']) == ct and len(parent.get('args', [])) == 1 and _strip(parent['args'][0]) is x))
                if not good:
                    ok = False
                else:
                    uses.append(parent)
                return
            if x.get('k') == 'call' and x.get('name') in SHRINK and x.get('obj') is not None and r.r(x['obj']) == ct:
                ok = False
            if x.get('k') == 'lambda':
                ok = False
            if x.get('k') == 'cast':
                scan(x.get('e'), parent)
                return
            for ch in children(x):
                scan(ch, x)
        scan(n.get('body'), n)
        if not ok or not uses:
            continue
        for p_, node, how in _direct_writes(n.get('body')):
            if r.r(node.get('lhs') if node.get('k') == 'assign' else node.get('e') or {}) == ct:
                ok = False
        if not ok:
            continue
        ename = 'elem@%s' % (v.get('dl') or n.get('l'))
        et = uses[0].get('t')
        for u in uses:
            keep = {'l': u.get('l'), 't': u.get('t')}
            u.clear()
            u.update({'k': 'ref', 'name': ename, 'dk': 'local', 'dl': v.get('dl'), 'isref': True})
            u.update(keep)
        n.pop('init', None)
        n.pop('cond', None)
        n.pop('inc', None)
        n['k'] = 'rangefor'
        n['range'] = cont
        n['var'] = {'k': 'var', 'l': n.get('l'), 'dl': v.get('dl'), 'name': ename, 't': '%s &' % et, 'isref': True, 'synthetic': True}
        changed = True
    return changed


def _is_zero(e):
    from .astq import const_value
    return const_value(e) == 0


def _direct_writes(body):
    from .astq import direct_writes
    return direct_writes(body)


def canonical_atomics(f):
    """x.store(v) / x.load() on std::atomic are the explicit spellings of `x = v` / the implicit conversion: bring them
       into the implicit form (default sequentially-consistent order only; an explicit weaker order is left alone)"""
    changed = False
    for n in walk(f.get('body')):
        if n.get('k') != 'call' or n.get('obj') is None:
            continue
        cls = str(n.get('cls', ''))
        if not (cls.startswith('std::atomic<') or cls.startswith('std::__atomic_base<')):
            continue
        args = n.get('args', [])
        if any(isinstance(a, dict) and 'memory_order' in str(a.get('t', '')) and a.get('k') not in ('defaultarg',) and a.get('cv') not in (5, '5')
               for a in args[1:] if n.get('name') == 'store') or (n.get('name') == 'load' and args and args[0].get('cv') not in (5, '5', None)):
            continue
        if n.get('name') == 'store' and len(args) >= 1:
            obj, val = n['obj'], args[0]
            keep = {'l': n.get('l'), 't': val.get('t') if isinstance(val, dict) else n.get('t')}
            n.clear()
            n.update({'k': 'opcall', 'op': '=', 'fn': '%s::operator=' % cls, 'cls': cls, 'args': [obj, val], 'was': 'store'})
            n.update(keep)
            changed = True
        elif n.get('name') == 'load':
            obj = n['obj']
            t = n.get('t')
            keep = {'l': n.get('l'), 't': t}
            n.clear()
            n.update({'k': 'call', 'fn': '%s::operator %s() const' % (cls, t), 'name': 'operator %s' % t, 'cls': cls, 'obj': obj, 'args': [],
                      'was': 'load'})
            n.update(keep)
            changed = True
    return changed


def annotate_range_elements(f):
    """references to the element variable of `for (auto& e : C)` carry C, so that an access through e is seen as an
       access to an element of C (astq.field_chain)"""
    for n in walk(f.get('body')):
        if n.get('k') != 'rangefor' or not isinstance(n.get('var'), dict):
            continue
        v = n['var']
        if not (v.get('isref') or str(v.get('t', '')).rstrip().endswith('*')):
            continue
        key = (v.get('name'), v.get('dl'))
        for x in walk(n.get('body')):
            if x.get('k') == 'ref' and x.get('dk') == 'local' and (x.get('name'), x.get('dl')) == key and v.get('isref'):
                x['elem_of'] = n.get('range')


# ---------------------------------------------------------------------------------------------- driver

def normalize(facts):
    """in-place; returns a small report that goes into the evidence"""
    F = facts['functions']
    report = {'inlined_helpers': [], 'kept_helpers': [], 'alias_functions': 0}
    vocab = load_vocab()
    if vocab is not None:
        cands = {fid: f for fid, f in F.items() if candidate(f, vocab)}
        # recursion guard: a helper that (transitively, within the candidate set) reaches itself is left alone
        calls = {fid: {n.get('fn') for n in walk(f['body']) if n.get('k') == 'call' and n.get('fn') in cands} for fid, f in cands.items()}

        def reaches(a, b, seen):
            for c in calls.get(a, ()):
                if c == b or (c not in seen and reaches(c, b, seen | {c})):
                    return True
            return False
        cands = {fid: f for fid, f in cands.items() if not reaches(fid, fid, {fid})}
        for _ in range(MAX_ROUNDS):
            helpers = {fid: Helper(f) for fid, f in cands.items()}
            helpers = {fid: h for fid, h in helpers.items() if h.value is not None or h.void is not None}
            if not helpers:
                break
            inl = Inliner(F, helpers)
            for fid, f in F.items():
                inl.run(f)
            if not inl.changed:
                break
        # drop helpers nobody refers to any more
        if cands:
            used = set()
            for fid, f in F.items():
                for n in walk(f.get('body')):
                    fn = n.get('fn')
                    if fn in cands and fn != fid and n.get('k') in ('call', 'ref', 'memfn', 'opcall', 'construct'):
                        used.add(fn)
            for fid in sorted(cands):
                if fid not in used and not _externally_visible(cands[fid]):
                    report['inlined_helpers'].append(fid)
                    del F[fid]
                    facts.get('func_units', {}).pop(fid, None)
                else:
                    report['kept_helpers'].append(fid)
    report['while_loops'] = 0
    for fid, f in F.items():
        if f.get('file', '').startswith(('src/', 'include/')):
            if substitute_aliases(f):
                report['alias_functions'] += 1
            if while_to_for(f):
                report['while_loops'] += 1
            if index_to_rangefor(f):
                report['index_loops'] = report.get('index_loops', 0) + 1
            if canonical_atomics(f):
                report['atomics'] = report.get('atomics', 0) + 1
            annotate_range_elements(f)
    facts['normalize'] = report
    return report


def _externally_visible(f):
    """public API of the library (include/teakra/*.h): a new public entry point is not a helper even if unused"""
    return f.get('file', '').startswith('include/teakra/') and not f.get('file', '').startswith('include/teakra/impl/')
