"""Facts-level normalisation (run once after extraction, before any rule sees the program).

The rules of tsa/rules recognise constructs of the code base by the functions and fields the properties are anchored in.
A behaviour-preserving refactoring must not change what they see, so the program is first brought into a normal form by
two semantics-preserving transformations:

 1. helper inlining - a function that is *not part of the vocabulary* (tables/vocabulary.json: the qualified function
    names of the tree the rules were written against) is a helper introduced later; its calls are replaced by its body
    (expression helpers: `return E;` possibly preceded by asserts / single-assignment locals / an if-return chain;
    statement helpers: void functions whose early returns can be structured into if/else).  A helper whose every use
    was inlined is dropped from the function table.  Functions of the vocabulary are never inlined: they are anchors.
 2. alias substitution - a local reference `T& x = <lvalue path>;` whose path cannot change while x is alive is
    replaced by the path, so that writes through the alias are seen as writes to the object.

Both only rewrite the AST-lite; anything they cannot handle exactly is left as it is (a call stays a call).
"""
import copy
import json
import os

from .astq import walk, children

HERE = os.path.dirname(os.path.abspath(__file__))
VOCAB = os.path.join(HERE, 'tables', 'vocabulary.json')
MAX_ROUNDS = 6


def vocab_key(qname):
    """qualified name with template argument lists removed"""
    out = []
    depth = 0
    for ch in qname or '':
        if ch == '<':
            depth += 1
        elif ch == '>':
            depth -= 1
        elif depth == 0:
            out.append(ch)
    return ''.join(out)


def load_known_locals():
    try:
        return json.load(open(VOCAB)).get('locals')
    except (OSError, ValueError):
        return None


def load_vocab():
    try:
        return set(json.load(open(VOCAB))['functions'])
    except (OSError, ValueError, KeyError):
        return None


# ---------------------------------------------------------------------------------------------- purity

_IMPURE_UN = ('++', '--', 'post++', 'post--')
_PURE_STD = ('empty', 'size', 'length', 'front', 'back', 'at', 'count', 'load', 'operator bool', 'test', 'any', 'none', 'all',
             'has_value', 'value', 'get', 'c_str', 'data')
_PURE_OPCALL = ('[]', '->', '*', '==', '!=', '<', '>', '<=', '>=', '!', '&', '|', '^', '~', '+', '-')


def is_pure(e):
    """no side effects and no dependence on evaluation order"""
    for n in walk(e):
        k = n.get('k')
        if k in ('assign', 'construct', 'new', 'delete', 'lambda', 'throw', 'initlist', 'stdinitlist'):
            if k == 'construct' and n.get('copymove'):
                continue
            return False
        if k == 'call':
            if n.get('name') in _PURE_STD and (str(n.get('cls', '')).startswith('std::') or str(n.get('fn', '')).startswith('std::')):
                continue
            return False
        if k == 'opcall' and n.get('op') not in _PURE_OPCALL:
            return False
        if k == 'un' and n.get('op') in _IMPURE_UN:
            return False
    return True


def _strip(e):
    while isinstance(e, dict) and e.get('k') == 'cast':
        e = e.get('e')
    return e


# ---------------------------------------------------------------------------------------------- substitution

def subst(node, parm_map, this_obj, local_map, tag):
    """deep copy of `node` with parameter refs replaced (parm_map: idx -> expr), `this` re-based onto this_obj
       (None: keep), locals renamed (local_map: (name, dl) -> new name)"""
    if isinstance(node, list):
        return [subst(x, parm_map, this_obj, local_map, tag) for x in node]
    if not isinstance(node, dict):
        return node
    k = node.get('k')
    if k == 'ref' and node.get('dk') == 'parm' and node.get('idx') in parm_map:
        return copy.deepcopy(parm_map[node['idx']])
    if k == 'mem' and this_obj is not None and isinstance(node.get('base'), dict) and node['base'].get('k') == 'this':
        out = {kk: subst(v, parm_map, this_obj, local_map, tag) for kk, v in node.items() if kk != 'base'}
        obj, ptr = this_obj
        out['base'] = copy.deepcopy(obj)
        out['arrow'] = bool(ptr)
        return out
    if k == 'this' and this_obj is not None:
        obj, ptr = this_obj
        if ptr:
            return copy.deepcopy(obj)
        return {'k': 'un', 'op': '&', 'l': node.get('l'), 't': node.get('t'), 'e': copy.deepcopy(obj)}
    out = {}
    for kk, v in node.items():
        out[kk] = subst(v, parm_map, this_obj, local_map, tag)
    if k in ('var',) and (node.get('name'), node.get('dl')) in local_map:
        out['name'] = local_map[(node['name'], node.get('dl'))]
        if 'dl' in out:
            out['dl'] = out['dl'] + tag
    elif k == 'ref' and node.get('dk') in ('local', 'binding') and (node.get('name'), node.get('dl')) in local_map:
        out['name'] = local_map[(node['name'], node.get('dl'))]
        if 'dl' in out:
            out['dl'] = out['dl'] + tag
    return out


def _locals_of(body):
    out = {}
    for n in walk(body):
        if n.get('k') == 'var' and n.get('name'):
            out[(n['name'], n.get('dl'))] = n
    return out


def _parm_uses(body, nparams):
    uses = [0] * nparams
    written = [False] * nparams
    for n in walk(body):
        k = n.get('k')
        if k == 'ref' and n.get('dk') == 'parm' and isinstance(n.get('idx'), int) and n['idx'] < nparams:
            uses[n['idx']] += 1
        tgt = None
        if k == 'assign':
            tgt = _strip(n.get('lhs'))
        elif k == 'un' and n.get('op') in _IMPURE_UN + ('&',):
            tgt = _strip(n.get('e'))
        if isinstance(tgt, dict) and tgt.get('k') == 'ref' and tgt.get('dk') == 'parm' and isinstance(tgt.get('idx'), int) \
                and tgt['idx'] < nparams:
            written[tgt['idx']] = True
    return uses, written


# ---------------------------------------------------------------------------------------------- helper forms

def _always_returns(s):
    if s is None:
        return False
    k = s.get('k')
    if k in ('return', 'unreachable', 'throw'):
        return True
    if k == 'block':
        return any(_always_returns(x) for x in s.get('body', []))
    if k == 'if':
        return s.get('else') is not None and _always_returns(s.get('then')) and _always_returns(s.get('else'))
    return False


def _has_return(s):
    return any(n.get('k') == 'return' for n in walk(s))


def _stmts(s):
    if s is None:
        return []
    if s.get('k') == 'block':
        return list(s.get('body', []))
    return [s]


def value_form(stmts):
    """(prefix statements, expression, prefix_is_pure) for a statement list that computes one value on every path:
       simple statements (asserts, declarations, expression statements) followed by  return E | an if-return chain.
       None when not of that form."""
    prefix = []
    pure = True
    i = 0
    while i < len(stmts) and stmts[i].get('k') in ('assert', 'decl', 'null', 'assign', 'un', 'call', 'opcall'):
        s = stmts[i]
        if s.get('k') == 'decl':
            for v in s.get('vars', []):
                if v.get('static') or v.get('bindings'):
                    return None
                if 'init' in v and not is_pure(v['init']):
                    pure = False
        elif s.get('k') in ('assign', 'un', 'call', 'opcall'):
            pure = False
        if s.get('k') != 'null':
            prefix.append(s)
        i += 1
    lifted = []
    e = _value_expr(stmts[i:], lifted)
    if e is None:
        return None
    # single-assignment locals with a pure initialiser are folded into the expression (a helper's `T* p = &arg;`)
    e = copy.deepcopy(e)
    keep = []
    pending = list(prefix)
    while pending:
        s0 = pending.pop(0)
        vs = s0.get('vars', []) if s0.get('k') == 'decl' else None
        if vs and len(vs) == 1 and 'init' in vs[0] and is_pure(vs[0]['init']) and not vs[0].get('isref'):
            key = (vs[0].get('name'), vs[0].get('dl'))
            rest = pending + lifted + [e]
            written = any(_writes_local(x, key) for r_ in rest for x in walk(r_))
            captured = any(x.get('k') == 'lambda' and any(c.get('name') == key[0] for c in x.get('caps', [])) for r_ in rest for x in walk(r_))
            # later prefix statements with side effects may change what the initialiser reads: fold only across pure ones
            later_impure = any(x_.get('k') in ('assign', 'un', 'call', 'opcall') or
                               (x_.get('k') == 'decl' and any('init' in v_ and not is_pure(v_['init']) for v_ in x_.get('vars', [])))
                               for x_ in pending)
            if not written and not captured and not later_impure:
                holder = {'k': 'block', 'body': rest}
                # refs that come out of a former closure body may carry no declaration position: match them by name
                for x in walk(holder):
                    if x.get('k') == 'ref' and x.get('dk') in ('local', 'parm') and x.get('name') == key[0] and x.get('dl') != key[1] \
                            and x.get('idx') is None:
                        x['dl'] = key[1]
                        x['dk'] = 'local'
                _replace_refs(holder, key, vs[0]['init'])
                pending = holder['body'][:len(pending)]
                lifted = holder['body'][len(pending):-1]
                e = holder['body'][-1]
                continue
        keep.append(s0)
    pure = pure and True
    return keep + lifted, e, pure


def _value_expr(stmts, lifted=None, guards=()):
    """expression computed by a return / if-return chain.  ASSERTs met on the way are lifted out as statements guarded by
       the (pure) conditions under which they are reached: appended to `lifted`."""
    if not stmts:
        return None
    s = stmts[0]
    k = s.get('k')
    if k == 'assert' and lifted is not None:
        st = s
        for c, pol in reversed(guards):
            cond = c if pol else {'k': 'un', 'op': '!', 'l': c.get('l'), 't': 'bool', 'e': c}
            st = {'k': 'if', 'l': s.get('l'), 'cond': cond, 'then': {'k': 'block', 'l': s.get('l'), 'body': [st]}}
        lifted.append(st)
        return _value_expr(stmts[1:], lifted, guards)
    if k == 'null':
        return _value_expr(stmts[1:], lifted, guards)
    if k == 'return' and s.get('e') is not None and len(stmts) == 1:
        return s['e']
    if k == 'block' and len(stmts) == 1:
        return _value_expr(_stmts(s), lifted, guards)
    if k == 'if' and not s.get('init') and is_pure(s.get('cond')):
        a = _value_expr(_stmts(s.get('then')), lifted, guards + ((s['cond'], True),))
        if a is None:
            return None
        if s.get('else') is not None:
            if len(stmts) != 1:
                return None
            b = _value_expr(_stmts(s.get('else')), lifted, guards + ((s['cond'], False),))
        else:
            b = _value_expr(stmts[1:], lifted, guards + ((s['cond'], False),))
        if b is None:
            return None
        return {'k': 'cond', 'l': s.get('l'), 't': a.get('t'), 'c': s['cond'], 'a': a, 'b': b}
    return None


def structure_void(stmts):
    """statement list of a void function with its early `return;`s turned into if/else nesting; None if a return sits
       inside a loop / switch / try or the function returns a value"""
    out = []
    stmts = list(stmts)
    i = 0
    while i < len(stmts):
        s = stmts[i]
        k = s.get('k')
        if k == 'return':
            if s.get('e') is not None:
                return None
            return out
        if not _has_return(s):
            out.append(s)
            i += 1
            continue
        if k == 'block':
            # a nested scope with a return in it: flatten (locals are renamed apart at the call site anyway)
            stmts[i:i + 1] = _stmts(s)
            continue
        if k == 'if' and not s.get('init'):
            th, el = _stmts(s.get('then')), _stmts(s.get('else'))
            rest = stmts[i + 1:]
            # every path through the `if` either returns or continues with `rest`: push the rest into both branches
            # (a branch that always returns drops it again); the copy keeps node identities distinct
            a = structure_void(th + rest)
            b = structure_void(el + copy.deepcopy(rest))
            if a is None or b is None:
                return None
            node = {'k': 'if', 'l': s.get('l'), 'cond': s['cond'], 'then': {'k': 'block', 'l': s.get('l'), 'body': a}}
            if b:
                node['else'] = {'k': 'block', 'l': s.get('l'), 'body': b}
            return out + [node]
        return None
    return out


class Helper:
    def __init__(self, f):
        self.f = f
        self.nparams = len(f.get('params', []))
        body = f.get('body')
        self.value = None
        self.void = None
        if not isinstance(body, dict) or body.get('k') != 'block':
            return
        st = body.get('body', [])
        self.uses, self.written = _parm_uses(body, self.nparams)
        self.returns_closure = False
        if any(n.get('k') == 'try' or (n.get('k') == 'var' and n.get('static')) for n in walk(body)):
            return
        lambdas = [n for n in walk(body) if n.get('k') == 'lambda']
        if lambdas:
            # a factory: `return <expression containing lambdas>;` and nothing else - its closures are specialised per call
            if not (len(st) == 1 and st[0].get('k') == 'return' and st[0].get('e') is not None):
                return
            self.returns_closure = True
        if f.get('ret') == 'void':
            self.void = structure_void(st)
        else:
            self.value = value_form(st)


def candidate(f, vocab):
    if vocab_key(f.get('qname')) in vocab:
        return False
    if f.get('lambda') or f.get('ctor') or f.get('dtor') or f.get('virtual') or f.get('overrides') or f.get('externc'):
        return False
    if f.get('name', '').startswith('operator') or f.get('name') == 'main':
        return False
    if not f.get('file', '').startswith(('src/', 'include/')):
        return False
    if not isinstance(f.get('body'), dict):
        return False
    return True


# ---------------------------------------------------------------------------------------------- call-site rewriting

class Inliner:
    def __init__(self, functions, helpers):
        self.F = functions
        self.H = helpers
        self.counter = 0
        self.changed = False

    def _site_maps(self, h, call):
        """(parm_map, this_obj, extra_decls) or None when the site cannot be inlined exactly"""
        args = call.get('args', [])
        if len(args) != h.nparams:
            return None        # default arguments / variadics: leave the call
        parm_map = {}
        decls = []
        self.counter += 1
        tag = self.counter * 10 ** 7
        for i, a in enumerate(args):
            p = h.f['params'][i]
            byref = '&' in str(p.get('t', ''))
            if h.written[i] and not byref:
                # by-value parameter modified in the helper: give it a local of its own
                nm = '%s@p%d' % (p.get('name') or 'arg', self.counter)
                decls.append({'k': 'decl', 'l': call.get('l'), 'vars': [{'k': 'var', 'l': call.get('l'), 'dl': tag + i, 'name': nm,
                                                                        't': p.get('t'), 'init': copy.deepcopy(a)}]})
                parm_map[i] = {'k': 'ref', 'l': call.get('l'), 't': p.get('t'), 'name': nm, 'dk': 'local', 'dl': tag + i}
            elif h.uses[i] > 1 and not is_pure(a):
                return None
            else:
                parm_map[i] = a
        this_obj = None
        if h.f.get('cls') and not h.f.get('static'):
            obj = call.get('obj')
            if obj is None:
                return None
            t = str(obj.get('t', '')).rstrip()
            while t.endswith('const'):
                t = t[:-5].rstrip()
            ptr = t.endswith('*') or obj.get('k') == 'this' or (obj.get('k') == 'opcall' and obj.get('op') == '->')
            if not is_pure(obj):
                return None
            o3 = _strip(obj)
            if ptr and isinstance(o3, dict) and o3.get('k') == 'un' and o3.get('op') == '&':
                obj, ptr = o3.get('e'), False        # (&x)->m is x.m
            this_obj = (obj, ptr)
        lm = {key: '%s@i%d' % (key[0], self.counter) for key in _locals_of(h.f['body'])}
        return parm_map, this_obj, decls, lm, tag

    def expr_replacement(self, call, whole=False):
        """for a call to a value helper: (prefix statements, expression) or None.  `whole`: the call is the entire value
           computed by its statement, so that even a side-effecting prefix can be placed in front of the statement"""
        h = self.H.get(call.get('fn'))
        if h is None or h.value is None:
            return None
        m = self._site_maps(h, call)
        if m is None:
            return None
        parm_map, this_obj, decls, lm, tag = m
        prefix, e, pure = h.value
        if not pure and not whole:
            return None
        pre = decls + [subst(s, parm_map, this_obj, lm, tag) for s in prefix]
        ex = subst(e, parm_map, this_obj, lm, tag)
        if h.returns_closure:
            if decls or not self._specialise_closures(ex, h, parm_map, call):
                return None
        return pre, ex

    def _specialise_closures(self, ex, h, parm_map, call):
        """the closures returned by a factory capture its parameters; give each call site its own copy of the closure's
           function fact in which those captures are the call's arguments (which must be pure lvalues / values)"""
        pnames = {p.get('name'): i for i, p in enumerate(h.f.get('params', [])) if p.get('name')}
        for n in walk(ex):
            if n.get('k') != 'lambda':
                continue
            lam = self.F.get(n.get('fn'))
            if lam is None:
                return False
            caps = [c for c in n.get('caps', [])]
            capt = {c.get('name') for c in caps if c.get('name') in pnames}
            if any(c.get('this') for c in caps):
                return False
            for nm in capt:
                if not is_pure(parm_map[pnames[nm]]):
                    return False
            self.counter += 1
            host = getattr(self, 'cur', None)
            host_id = (host or {}).get('id', '').split('::<lambda@', 1)[0] or n['fn']
            new_id = '%s::<lambda@%s:%d>' % (host_id, call.get('l', 0), 900000 + self.counter)
            clone = copy.deepcopy(lam)
            clone['id'] = new_id
            own = {p.get('name') for p in lam.get('params', []) if p.get('name')}

            def rw(x):
                if isinstance(x, list):
                    return [rw(y) for y in x]
                if not isinstance(x, dict):
                    return x
                if x.get('k') == 'ref' and x.get('dk') in ('parm', 'local') and x.get('name') in capt and x.get('name') not in own:
                    return copy.deepcopy(parm_map[pnames[x['name']]])
                return {kk: (rw(vv) if isinstance(vv, (dict, list)) and kk not in ('owner', 'fta', 'ta', 'elem_of') else vv) for kk, vv in x.items()}
            clone['body'] = rw(clone.get('body'))
            clone['specialised_from'] = n['fn']
            self.F[new_id] = clone
            # captures: the factory's parameters are replaced by what the arguments mention
            newcaps = [c for c in caps if c.get('name') not in capt]
            seen = {c.get('name') for c in newcaps}
            for nm in capt:
                for y in walk(parm_map[pnames[nm]]):
                    if y.get('k') == 'ref' and y.get('dk') in ('local', 'parm', 'binding') and y.get('name') not in seen:
                        seen.add(y['name'])
                        byref = any(c.get('name') == nm and c.get('byref') for c in caps) and y.get('dk') == 'parm'
                        newcaps.append({'name': y['name'], 'byref': bool(byref), 't': y.get('t'), 'dl': y.get('dl')})
            n['caps'] = newcaps
            n['fn'] = new_id
            self.new_functions = getattr(self, 'new_functions', 0) + 1
        return True

    def local_closure_replacement(self, e, f):
        """`const auto make = [this](u32 n) { return <expr>; }; ... make(3)`: a local closure that only computes a value is a
           local helper; its call is replaced by the value with the argument substituted (captures are the enclosing
           function's own `this` / by-value constants, which mean the same at the call site)"""
        callee = _strip(e['args'][0])
        if not (isinstance(callee, dict) and callee.get('k') == 'ref' and callee.get('dk') == 'local'):
            return None
        decl = None
        for n in walk(f.get('body')):
            if n.get('k') == 'var' and (n.get('name'), n.get('dl')) == (callee.get('name'), callee.get('dl')) and 'init' in n:
                decl = n
        init = _strip(decl.get('init')) if decl else None
        while isinstance(init, dict) and init.get('k') == 'construct' and init.get('copymove') and init.get('args'):
            init = _strip(init['args'][0])
        if not (isinstance(init, dict) and init.get('k') == 'lambda'):
            return None
        lam = self.F.get(init.get('fn'))
        if lam is None or any(c.get('byref') and c.get('name') for c in init.get('caps', [])):
            return None
        h = Helper(lam)
        if h.value is None or h.value[0]:
            return None
        args = e['args'][1:]
        if len(args) != h.nparams or any(h.uses[i] > 1 and not is_pure(a) for i, a in enumerate(args)) or any(h.written):
            return None
        own = {p.get('name') for p in lam.get('params', [])}
        # parameters of the closure are refs of kind parm whose name is one of its own parameters
        def rw2(x):
            if isinstance(x, list):
                return [rw2(y) for y in x]
            if not isinstance(x, dict):
                return x
            if x.get('k') == 'ref' and x.get('dk') == 'parm' and x.get('name') in own and isinstance(x.get('idx'), int) and x['idx'] < len(args):
                return copy.deepcopy(args[x['idx']])
            return {kk: (rw2(vv) if isinstance(vv, (dict, list)) and kk not in ('owner', 'fta', 'ta', 'elem_of') else vv) for kk, vv in x.items()}
        self.inlined_local_closures = getattr(self, 'inlined_local_closures', set())
        self.inlined_local_closures.add((f.get('id'), callee.get('name'), callee.get('dl'), init.get('fn')))
        return rw2(copy.deepcopy(h.value[1]))

    def stmt_replacement(self, call):
        h = self.H.get(call.get('fn'))
        if h is None or h.void is None:
            return None
        m = self._site_maps(h, call)
        if m is None:
            return None
        parm_map, this_obj, decls, lm, tag = m
        return decls + [subst(s, parm_map, this_obj, lm, tag) for s in h.void]

    # ---- walking a function body
    def run(self, f):
        body = f.get('body')
        self.cur = f
        if isinstance(body, dict):
            self._block_like(body, f)

    def _block_like(self, node, f):
        """rewrite all statement lists below node"""
        if not isinstance(node, dict):
            return
        k = node.get('k')
        if k == 'block':
            node['body'] = self._stmt_list(node.get('body', []), f)
            return
        if k == 'lambda':
            return
        for key in ('then', 'else', 'body', 'sub'):
            c = node.get(key)
            if isinstance(c, dict):
                if c.get('k') != 'block' and ((key in ('then', 'else', 'body') and k in ('if', 'for', 'while', 'do', 'rangefor'))
                                              or (key == 'sub' and k in ('case', 'default', 'attributed'))):
                    # single statement branch: give it a block so that it can grow
                    new = self._stmt_list([c], f)
                    node[key] = new[0] if len(new) == 1 else {'k': 'block', 'l': c.get('l'), 'body': new}
                else:
                    self._block_like(c, f)
        if k == 'switch' and isinstance(node.get('body'), dict):
            self._block_like(node['body'], f)
        if k == 'try':
            for c in children(node):
                self._block_like(c, f)

    def _stmt_list(self, stmts, f):
        out = []
        for s in stmts:
            k = s.get('k')
            # 1. void helper called as a statement
            if k == 'call' and s.get('fn') in self.H and s.get('fn') != f.get('id'):
                rep = self.stmt_replacement(s)
                if rep is not None:
                    self.changed = True
                    out.extend(rep)
                    continue
            # 2. value helpers inside the expressions of a simple statement
            if k in ('return', 'decl', 'assign', 'call', 'opcall', 'assert', 'if', 'un', 'bin', 'cond', 'cast'):
                pre, s = self._rewrite_exprs(s, f, hoist_ok=self._hoistable(s))
                out.extend(pre)
            out.append(s)
            self._block_like(s, f)
        return out

    @staticmethod
    def _hoistable(s):
        """prefix statements of an inlined helper may be placed in front of statement s only when nothing in s has
           side effects that the hoisted asserts / locals could observe"""
        roots = [s.get('cond')] if s.get('k') == 'if' else [s]
        for r in roots:
            for n in walk(r):
                if n.get('k') == 'un' and n.get('op') in _IMPURE_UN:
                    return False
                if n.get('k') in ('lambda', 'assign') and n is not s:
                    return False
        return True

    def _rewrite_exprs(self, s, f, hoist_ok):
        """replace value-helper calls in the expressions owned directly by statement s; returns (hoisted prefix, s')"""
        pre = []
        whole_node = None
        k0 = s.get('k')
        cand = None
        if k0 == 'return':
            cand = s.get('e')
        elif k0 == 'assign' and is_pure(s.get('lhs')):
            cand = s.get('rhs')
        elif k0 == 'decl' and len(s.get('vars', [])) == 1:
            cand = s['vars'][0].get('init')
        elif k0 == 'call':
            cand = s
        cand = _strip(cand)
        if isinstance(cand, dict) and cand.get('k') == 'construct' and cand.get('copymove') and len(cand.get('args', [])) == 1:
            cand = _strip(cand['args'][0])
        if isinstance(cand, dict) and cand.get('k') == 'call' and all(is_pure(a) for a in cand.get('args', [])):
            whole_node = cand

        def rw(e):
            if isinstance(e, list):
                return [rw(x) for x in e]
            if not isinstance(e, dict):
                return e
            k = e.get('k')
            if k in ('block', 'lambda', 'if', 'for', 'while', 'do', 'switch', 'rangefor', 'try', 'case', 'default'):
                return e
            for kk, v in list(e.items()):
                if kk in ('owner', 'fta', 'ta', 'caps_t'):
                    continue
                if isinstance(v, (dict, list)):
                    e[kk] = rw(v)
            if k == 'opcall' and e.get('op') == '()' and e.get('args'):
                rep = self.local_closure_replacement(e, f)
                if rep is not None:
                    self.changed = True
                    return rep
            if k == 'call' and e.get('fn') in self.H and e.get('fn') != f.get('id'):
                rep = self.expr_replacement(e, whole=e is whole_node)
                if rep is not None:
                    p, ex = rep
                    if p and not hoist_ok and e is not whole_node:
                        return e
                    pre.extend(p)
                    self.changed = True
                    return ex
            return e
        if s.get('k') == 'if':
            s['cond'] = rw(s.get('cond'))
            return pre, s
        return pre, rw(s)


# ---------------------------------------------------------------------------------------------- alias substitution

def _positions(body):
    """pre-order position and branch context of every node below body: id(node) -> (pos, ((if-id, branch), ...), loops)"""
    out = {}
    counter = [0]

    def rec(n, ctxt, loops):
        if not isinstance(n, dict):
            return
        out[id(n)] = (counter[0], ctxt, loops)
        counter[0] += 1
        k = n.get('k')
        if k == 'if':
            rec(n.get('cond'), ctxt, loops)
            rec(n.get('then'), ctxt + ((id(n), 0),), loops)
            rec(n.get('else'), ctxt + ((id(n), 1),), loops)
            return
        if k == 'cond':
            rec(n.get('c'), ctxt, loops)
            rec(n.get('a'), ctxt + ((id(n), 0),), loops)
            rec(n.get('b'), ctxt + ((id(n), 1),), loops)
            return
        l2 = loops + (id(n),) if k in ('for', 'while', 'do', 'rangefor') else loops
        for c in children(n):
            rec(c, ctxt, l2)
    rec(body, (), ())
    return out


def _may_precede(pos, w, u, decl):
    """can the write node w execute after the declaration `decl` and before the use node u?"""
    pw, cw, lw = pos[id(w)]
    pu, cu, lu = pos[id(u)]
    pd, cd, ld = pos[id(decl)]
    if pw < pd:
        # textually before the declaration: to run after it and before the use it needs a back edge of a loop around the
        # write and the use - which (structured code) is around the declaration too, so the declaration runs again first
        return False
    # in different branches of one conditional: never on the same path
    bw = dict(cw)
    for i_, b_ in cu:
        if i_ in bw and bw[i_] != b_:
            return False
    if pw < pu:
        if w.get('k') == 'assign' and any(x is u for x in walk(w.get('rhs'))):
            # the use is the right-hand side of the very assignment that writes: read first, then written
            return bool((set(lw) & set(lu)) - set(ld))
        return True
    # later in the text: only through a loop that contains both but not the declaration
    return bool((set(lw) & set(lu)) - set(ld))


def _input_writes(init, body, identity_only=False):
    """nodes of body that write something the pure expression `init` reads: assigned locals / parameters, directly written
       fields, and calls (which may write anything the expression reads from memory)"""
    from .astq import direct_writes
    names = set()
    fields = set()
    reads_memory = False
    for n in walk(init):
        k = n.get('k')
        if k == 'ref' and n.get('dk') in ('parm', 'local', 'binding'):
            names.add((n.get('name'), n.get('dl')))
        elif k == 'mem':
            fields.add((n.get('cls'), n.get('name')))
            b_ = _strip(n.get('base'))
            if not identity_only:
                reads_memory = True        # a value read from memory: any call (unlock(), a handler) may separate it from its use
            elif not (isinstance(b_, dict) and b_.get('k') == 'this'):
                reads_memory = reads_memory or not (isinstance(b_, dict) and b_.get('k') == 'opcall' and str(b_.get('cls', '')).startswith('std::unique_ptr<'))
        elif identity_only and k == 'opcall' and n.get('op') in ('[]', '*', '->') and str(n.get('cls', '')).startswith(('std::unique_ptr<', 'std::array<')):
            pass        # owning pointer / fixed array of the object itself: identity decided by the member, not by other memory
        elif k in ('index',) or (k == 'opcall' and n.get('op') in ('[]', '*', '->')) or (k == 'un' and n.get('op') == '*') or k == 'call':
            reads_memory = True
    out = []
    for n in walk(body):
        k = n.get('k')
        tgt = None
        if k == 'assign':
            tgt = _strip(n.get('lhs'))
        elif k == 'un' and n.get('op') in _IMPURE_UN:
            tgt = _strip(n.get('e'))
        if isinstance(tgt, dict) and tgt.get('k') == 'ref' and (tgt.get('name'), tgt.get('dl')) in names:
            out.append(n)
        if reads_memory and k in ('call', 'construct', 'new', 'delete') and not (k == 'construct' and n.get('copymove')):
            if not (n.get('name') in _PURE_STD and (str(n.get('cls', '')).startswith('std::') or str(n.get('fn', '')).startswith('std::'))):
                if not any(x is n for x in walk(init)):
                    out.append(n)
        if reads_memory and k == 'opcall' and n.get('op') in ('()', '=') and not any(x is n for x in walk(init)):
            out.append(n)
    for p, n, how in direct_writes(body):
        if (p[0], p[1]) in fields:
            out.append(n)
    return out


def _path_inputs(init):
    """for an lvalue path: the sub-expressions that decide *which* object it denotes (indices, pointer-valued bases)"""
    out = []
    e = _strip(init)
    while isinstance(e, dict):
        k = e.get('k')
        if k == 'mem':
            b = _strip(e.get('base'))
            if e.get('arrow') and isinstance(b, dict) and b.get('k') != 'this':
                out.append(b)
                return out
            e = b
        elif k == 'index':
            out.append(e.get('idx'))
            e = _strip(e.get('base'))
        elif k == 'opcall' and e.get('op') in ('[]', '->', '*'):
            args = e.get('args', [])
            if len(args) == 2:
                out.append(args[1])
            e = _strip(args[0]) if args else None
        elif k == 'un' and e.get('op') == '*':
            out.append(e.get('e'))
            return out
        else:
            return out
    return out


def _stable_until_uses(decl_stmt, var, init, body, uses, pos=None, alias=False):
    pos = pos or _positions(body)
    if id(decl_stmt) not in pos:
        return False
    if alias:
        writes = []
        for part in _path_inputs(init):
            writes += _input_writes(part, body, identity_only=True)
    else:
        writes = _input_writes(init, body)
    for w in writes:
        if id(w) not in pos:
            continue
        for u in uses:
            if id(u) in pos and _may_precede(pos, w, u, decl_stmt):
                return False
    return True


def _uses_of(body, key):
    return [x for x in walk(body) if x.get('k') == 'ref' and x.get('dk') in ('local', 'binding') and (x.get('name'), x.get('dl')) == key]


def substitute_aliases(f, known_locals=None):
    """local references `T& x = <lvalue path>` and - when `known_locals` (the local names this function had in the tree
       the rules were written against) is given - *new* single-assignment value temporaries `const T v = <pure expr>` are
       replaced by their initialiser wherever nothing the initialiser reads can change between the declaration and the use"""
    body = f.get('body')
    if not isinstance(body, dict):
        return False
    changed = False
    pos = None
    for blk in [n for n in walk(body) if n.get('k') == 'block']:
        new = []
        for s in blk.get('body', []):
            if s.get('k') != 'decl':
                new.append(s)
                continue
            keep = []
            for v in s.get('vars', []):
                init = v.get('init')
                ok = False
                if isinstance(init, dict) and not v.get('static') and not v.get('bindings') and is_pure(init):
                    key = (v.get('name'), v.get('dl'))
                    is_alias = v.get('isref') and _strip(init).get('k') in ('mem', 'index', 'opcall')
                    base = str(v.get('name', '')).split('@')[0]
                    i0 = _strip(init)
                    is_copy = (not v.get('isref')) and isinstance(i0, dict) \
                        and ((i0.get('k') == 'ref' and i0.get('dk') in ('local', 'parm')) or _is_field_read(i0)) \
                        and not _is_class_type(v.get('t')) \
                        and str(v.get('t', '')).replace('const ', '').strip() == str(i0.get('t', '')).replace('const ', '').strip()   # a second name for a variable (no conversion)
                    is_temp = (not v.get('isref')) and known_locals is not None and (base not in known_locals or is_copy) \
                        and _strip(init).get('k') not in ('initlist', 'construct', 'lambda', 'str') and not _is_class_type(v.get('t'))
                    if is_alias or is_temp:
                        uses = _uses_of(body, key)
                        written = any(_writes_local(x, key) for x in walk(body))
                        # a value temporary is folded back only when it names a sub-expression used once; one that is tested
                        # and then used again carries flow information (guards) that the interval engine keys on the variable
                        if uses and (is_alias or (not written and (len(uses) == 1 or is_copy or _small_arith(init)))):
                            pos = pos or _positions(body)
                            if _stable_until_uses(s, v, init, body, uses, pos, alias=is_alias):
                                _replace_refs(body, key, init)
                                ok = True
                                changed = True
                                pos = None
                        elif uses and is_temp and not written and _store_forward(blk, s, v, init, body, uses):
                            ok = True
                            changed = True
                            pos = None
                if not ok and isinstance(init, dict) and not v.get('static') and not v.get('isref') and not v.get('bindings') \
                        and _closure_value(init) is not None:
                    # a named closure (`const auto irq = [this] { ... };`) that is only handed on (copied into slots), never
                    # called here: every use is the closure expression itself
                    key = (v.get('name'), v.get('dl'))
                    uses = _uses_of(body, key)
                    written = any(_writes_local(x, key) for x in walk(body))
                    called = any(x.get('k') == 'opcall' and x.get('op') == '()' and x.get('args') and _is_ref(x['args'][0], key) for x in walk(body)) \
                        or any(x.get('k') == 'call' and _is_ref(x.get('obj'), key) for x in walk(body))
                    if uses and not written and not called:
                        pos = pos or _positions(body)
                        if all(_closure_input_stable(s, v, part, body, uses, pos) for part in _closure_value(init)):
                            _replace_refs(body, key, init)
                            ok = True
                            changed = True
                            pos = None
                if not ok:
                    keep.append(v)
            if keep:
                s['vars'] = keep
                new.append(s)
        blk['body'] = new
    return changed


def _small_arith(e):
    """a small arithmetic expression over parameters, locals and constants only (`cycles - 1`): a name for it carries no more
       flow information than the expression itself"""
    n = 0
    for x in walk(e):
        n += 1
        k = x.get('k')
        if k == 'ref':
            if x.get('dk') not in ('parm', 'local', 'binding', 'staticmember', 'global', 'enumerator', 'enum'):
                return False
        elif k == 'bin':
            if x.get('op') not in ('+', '-', '*', '<<', '>>', '&', '|'):
                return False
        elif k not in ('cast', 'int', 'paren'):
            return False
    return 2 <= n <= 9


def _is_field_read(e):
    """a plain member read `this->a.b` / `param.a` (no index, no call): guards and writes on it are tracked by field"""
    n = 0
    while isinstance(e, dict) and e.get('k') == 'mem':
        e = _strip(e.get('base'))
        n += 1
    return n > 0 and isinstance(e, dict) and (e.get('k') == 'this' or (e.get('k') == 'ref' and e.get('dk') in ('parm', 'local')))


def _store_forward(blk, decl_stmt, v, init, body, uses):
    """`const T t = E;  L = t;  ... t ...`  is  `L = E;  ... L ...`  when L has the type of t and nothing L depends on is
       written between the store and the later uses (the value just stored is the value of t)"""
    stmts = blk.get('body', [])
    i = next((j for j, x in enumerate(stmts) if x is decl_stmt), None)
    if i is None or i + 1 >= len(stmts) or len(decl_stmt.get('vars', [])) != 1:
        return False
    st = stmts[i + 1]
    key = (v.get('name'), v.get('dl'))
    if not (st.get('k') == 'assign' and st.get('op') == '=' and _is_ref(st.get('rhs'), key) and is_pure(st.get('lhs'))):
        return False
    L = st['lhs']
    if str(L.get('t', '')).replace('const ', '').strip() != str(v.get('t', '')).replace('const ', '').strip():
        return False
    if any(x.get('k') == 'ref' and (x.get('name'), x.get('dl')) == key for x in walk(L)):
        return False
    later = [u for u in uses if not any(x is u for x in walk(st))]
    if len(later) != len(uses) - 1:
        return False
    pos = _positions(body)
    if any(pos[id(u)][0] < pos[id(st)][0] for u in later if id(u) in pos):
        return False
    for w in _input_writes(L, body):
        if w is st or id(w) not in pos:
            continue
        for u in later:
            if id(u) in pos and _may_precede(pos, w, u, st):
                return False
    st['rhs'] = init
    for u in later:
        keep = {'l': u.get('l')}
        u.clear()
        u.update(copy.deepcopy(L))
        u.update(keep)
    return True


def _closure_value(init):
    """the inputs of a closure value (a lambda expression, or the std::bind the facts normal form made of a forwarding
       lambda): list of captured / bound expressions; None when `init` is not a closure value"""
    e = init
    while isinstance(e, dict) and (e.get('k') == 'cast' or (e.get('k') == 'construct' and e.get('copymove') and len(e.get('args', [])) == 1)):
        e = e.get('e') if e.get('k') == 'cast' else e['args'][0]
    if not isinstance(e, dict):
        return None
    if e.get('k') == 'lambda':
        return [c.get('init') for c in e.get('caps', []) if isinstance(c.get('init'), dict)]
    if e.get('k') == 'call' and e.get('fn') == 'std::bind<from-lambda>':
        return list(e.get('args', []))
    return None


def _closure_input_stable(decl_stmt, v, part, body, uses, pos):
    from .astq import const_value
    p = _strip(part)
    if not isinstance(p, dict):
        return False
    if p.get('k') in ('this', 'placeholder') or const_value(p) is not None or (p.get('k') == 'ref' and p.get('dk') in ('func', 'staticmember', 'global')):
        return True
    if p.get('k') == 'un' and p.get('op') == '&':
        inner = _strip(p.get('e'))
        if isinstance(inner, dict) and inner.get('k') == 'ref' and inner.get('dk') == 'func':
            return True
        return is_pure(inner) and _stable_until_uses(decl_stmt, v, inner, body, uses, pos, alias=True)
    if p.get('k') == 'ref' and p.get('dk') in ('local', 'parm', 'binding'):
        return _stable_until_uses(decl_stmt, v, p, body, uses, pos, alias=False)
    if p.get('k') in ('mem', 'opcall', 'index') and is_pure(p):
        # captured by reference: which object it denotes must not change
        return _stable_until_uses(decl_stmt, v, p, body, uses, pos, alias=True)
    return False


def _is_class_type(t):
    t = str(t or '').replace('const ', '').strip()
    return '::' in t and not t.startswith('std::size_t') or t.startswith('std::')


def _replace_refs(node, key, init):
    if isinstance(node, list):
        for i, x in enumerate(node):
            if isinstance(x, dict) and x.get('k') == 'ref' and x.get('dk') == 'local' and (x.get('name'), x.get('dl')) == key:
                node[i] = copy.deepcopy(init)
            else:
                _replace_refs(x, key, init)
        return
    if not isinstance(node, dict):
        return
    for kk, v in list(node.items()):
        if kk in ('owner', 'fta', 'ta', 'caps_t'):
            continue
        if isinstance(v, dict) and v.get('k') == 'ref' and v.get('dk') == 'local' and (v.get('name'), v.get('dl')) == key:
            node[kk] = copy.deepcopy(init)
        elif isinstance(v, (dict, list)):
            _replace_refs(v, key, init)


# ---------------------------------------------------------------------------------------------- loop form

def while_to_for(f):
    """`while (c) { body; ++v; }` with v tested in c and no `continue` in body is `for (; c; ++v) { body }`"""
    body = f.get('body')
    if not isinstance(body, dict):
        return False
    changed = False
    for n in list(walk(body)):
        if n.get('k') != 'while':
            continue
        b = n.get('body')
        stmts = _stmts(b)
        if len(stmts) < 1:
            continue
        last = stmts[-1]
        tgt = None
        if last.get('k') == 'un' and last.get('op') in _IMPURE_UN:
            tgt = _strip(last.get('e'))
        elif last.get('k') == 'assign' and last.get('op') in ('+=', '-='):
            tgt = _strip(last.get('lhs'))
        if not (isinstance(tgt, dict) and tgt.get('k') == 'ref' and tgt.get('dk') == 'local'):
            continue
        key = (tgt.get('name'), tgt.get('dl'))
        if not any(x.get('k') == 'ref' and (x.get('name'), x.get('dl')) == key for x in walk(n.get('cond'))):
            continue
        inner = stmts[:-1]
        if any(x.get('k') == 'continue' for s_ in inner for x in _walk_same_loop(s_)):
            continue
        # v must not be written elsewhere in the body
        if any(_writes_local(x, key) for s_ in inner for x in walk(s_)):
            continue
        n['k'] = 'for'
        n['init'] = None
        n['inc'] = last
        n['body'] = {'k': 'block', 'l': b.get('l') if isinstance(b, dict) else n.get('l'), 'body': inner}
        changed = True
    return changed


def _is_ref(e, key):
    e = _strip(e)
    return isinstance(e, dict) and e.get('k') == 'ref' and e.get('dk') == 'local' and (e.get('name'), e.get('dl')) == key


def _is_lit(e, v):
    from .astq import const_value
    e = _strip(e)
    return isinstance(e, dict) and e.get('k') != 'ref' and const_value(e) == v


def downcount_loops(f):
    """`while (v > 0) { --v; B }` (v dead after the loop) is `for (; v-- > 0;) B`, and
       `for (v = N; v-- > 0;) B` (also `v-- != 0`, bare `v--`; N a non-negative constant, v not written in B) is
       `for (v = N - 1; v != -1; --v) B`: the same values of v in B, the same value after the loop (modulo 2^n for unsigned)"""
    from .astq import const_value
    body = f.get('body')
    if not isinstance(body, dict):
        return False
    changed = False
    for n in list(walk(body)):
        if n.get('k') == 'while':
            stmts = _stmts(n.get('body'))
            if not stmts:
                continue
            first = stmts[0]
            if not (first.get('k') == 'un' and first.get('op') in ('--', 'post--')):
                continue
            tgt = _strip(first.get('e'))
            if not (isinstance(tgt, dict) and tgt.get('k') == 'ref' and tgt.get('dk') == 'local'):
                continue
            key = (tgt.get('name'), tgt.get('dl'))
            c = _strip(n.get('cond'))
            ok = _is_ref(c, key)
            if isinstance(c, dict) and c.get('k') == 'bin':
                ok = (c.get('op') in ('>', '!=') and _is_ref(c.get('lhs'), key) and _is_lit(c.get('rhs'), 0)) or \
                     (c.get('op') in ('<', '!=') and _is_ref(c.get('rhs'), key) and _is_lit(c.get('lhs'), 0))
            if not ok:
                continue
            rest = stmts[1:]
            if any(_writes_local(x, key) for s_ in rest for x in walk(s_)):
                continue
            # v must be dead after the loop: every reference is inside the loop
            inside = {id(x) for x in walk(n)}
            if any(id(x) not in inside for x in _uses_of(body, key)):
                continue
            n['k'] = 'for'
            n['init'] = None
            n['inc'] = None
            n['cond'] = {'l': n.get('l'), 't': 'bool', 'k': 'bin', 'op': '>',
                         'lhs': {'l': n.get('l'), 't': tgt.get('t'), 'k': 'un', 'op': 'post--', 'e': copy.deepcopy(tgt)},
                         'rhs': {'l': n.get('l'), 't': 'int', 'k': 'int', 'v': 0}}
            b = n.get('body')
            n['body'] = {'k': 'block', 'l': b.get('l') if isinstance(b, dict) else n.get('l'), 'body': rest}
            changed = True
        if n.get('k') == 'for' and n.get('inc') is None:
            c = _strip(n.get('cond'))
            dec = None
            if isinstance(c, dict) and c.get('k') == 'un' and c.get('op') == 'post--':
                dec = c
            elif isinstance(c, dict) and c.get('k') == 'bin':
                l_, r_ = _strip(c.get('lhs')), _strip(c.get('rhs'))
                if c.get('op') in ('>', '!=') and isinstance(l_, dict) and l_.get('k') == 'un' and l_.get('op') == 'post--' and _is_lit(r_, 0):
                    dec = l_
                elif c.get('op') in ('<', '!=') and isinstance(r_, dict) and r_.get('k') == 'un' and r_.get('op') == 'post--' and _is_lit(l_, 0):
                    dec = r_
            if dec is None:
                continue
            tgt = _strip(dec.get('e'))
            if not (isinstance(tgt, dict) and tgt.get('k') == 'ref' and tgt.get('dk') == 'local'):
                continue
            key = (tgt.get('name'), tgt.get('dl'))
            if any(_writes_local(x, key) for x in walk(n.get('body'))):
                continue
            # the single constant initialisation of v (in the loop header or a declaration in front of it)
            decls = [x for x in walk(body) if x.get('k') == 'var' and (x.get('name'), x.get('dl')) == key and 'init' in x]
            others = [x for x in walk(body) if _writes_local(x, key) and x is not dec]
            if len(decls) != 1 or others:
                continue
            n0 = const_value(decls[0]['init'])
            if n0 is None or n0 < 0:
                continue
            decls[0]['init'] = {'l': decls[0].get('l'), 't': decls[0].get('t'), 'k': 'int', 'v': n0 - 1}
            n['cond'] = {'l': n.get('l'), 't': 'bool', 'k': 'bin', 'op': '!=', 'lhs': copy.deepcopy(tgt),
                         'rhs': {'l': n.get('l'), 't': 'int', 'k': 'int', 'v': -1}}
            n['inc'] = {'l': n.get('l'), 't': tgt.get('t'), 'k': 'un', 'op': '--', 'e': copy.deepcopy(tgt)}
            changed = True
    return changed


def _walk_same_loop(s):
    """nodes of s that belong to the same loop level (does not descend into nested loops)"""
    yield s
    if s.get('k') in ('for', 'while', 'do', 'rangefor', 'lambda'):
        return
    for c in children(s):
        yield from _walk_same_loop(c)


def _writes_local(n, key):
    t = None
    if n.get('k') == 'assign':
        t = _strip(n.get('lhs'))
    elif n.get('k') == 'un' and n.get('op') in _IMPURE_UN + ('&',):
        t = _strip(n.get('e'))
    return isinstance(t, dict) and t.get('k') == 'ref' and (t.get('name'), t.get('dl')) == key


def index_to_rangefor(f, R=None):
    """`for (i = 0; i < C.size(); ++i) { ... C[i] ... }` where i is used for nothing but C[i] is `for (auto& e : C)`"""
    from .loops import loop_range
    from .norm import Renderer
    body = f.get('body')
    if not isinstance(body, dict):
        return False
    changed = False
    r = None
    SHRINK = ('pop_back', 'clear', 'erase', 'resize', 'pop', 'pop_front')
    for n in list(walk(body)):
        if n.get('k') != 'for':
            continue
        inc = _strip(n.get('inc'))
        if not (isinstance(inc, dict) and inc.get('k') == 'un' and inc.get('op') in ('++', 'post++')):
            continue
        v = _strip(inc.get('e'))
        if not (isinstance(v, dict) and v.get('k') == 'ref' and v.get('dk') == 'local'):
            continue
        key = (v.get('name'), v.get('dl'))
        decl = [x for x in walk(n.get('init') or {}) if x.get('k') == 'var' and (x.get('name'), x.get('dl')) == key]
        if len(decl) != 1 or 'init' not in decl[0] or not _is_zero(decl[0]['init']):
            continue
        c = _strip(n.get('cond'))
        if not (isinstance(c, dict) and c.get('k') == 'bin' and c.get('op') in ('<', '!=', '>')):
            continue
        a, b = (c['lhs'], c['rhs']) if c['op'] != '>' else (c['rhs'], c['lhs'])
        a2, b2 = _strip(a), _strip(b)
        if not (isinstance(a2, dict) and a2.get('k') == 'ref' and (a2.get('name'), a2.get('dl')) == key):
            continue
        if not (isinstance(b2, dict) and b2.get('k') == 'call' and b2.get('name') == 'size' and b2.get('obj') is not None
                and not b2.get('args') and is_pure(b2['obj'])):
            continue
        cont = b2['obj']
        r = r or Renderer(None, inline_locals=False)
        ct = r.r(cont)
        # every use of i in the body is C[i]; C is not shrunk or reassigned in the body
        uses = []
        ok = True

        def scan(x, parent):
            nonlocal ok
            if not isinstance(x, dict):
                return
            if x.get('k') == 'ref' and (x.get('name'), x.get('dl')) == key:
                good = isinstance(parent, dict) and ((parent.get('k') == 'opcall' and parent.get('op') == '[]' and len(parent.get('args', [])) == 2
                                                     and _strip(parent['args'][1]) is x and r.r(parent['args'][0]) == ct)
                                                    or (parent.get('k') == 'call' and parent.get('name') == 'at' and parent.get('obj') is not None
                                                        and r.r(parent['obj']) == ct and len(parent.get('args', [])) == 1 and _strip(parent['args'][0]) is x))
                if not good:
                    ok = False
                else:
                    uses.append(parent)
                return
            if x.get('k') == 'call' and x.get('name') in SHRINK and x.get('obj') is not None and r.r(x['obj']) == ct:
                ok = False
            if x.get('k') == 'lambda':
                ok = False
            if x.get('k') == 'cast':
                scan(x.get('e'), parent)
                return
            for ch in children(x):
                scan(ch, x)
        scan(n.get('body'), n)
        if not ok or not uses:
            continue
        for p_, node, how in _direct_writes(n.get('body')):
            if r.r(node.get('lhs') if node.get('k') == 'assign' else node.get('e') or {}) == ct:
                ok = False
        if not ok:
            continue
        ename = 'elem@%s' % (v.get('dl') or n.get('l'))
        et = uses[0].get('t')
        for u in uses:
            keep = {'l': u.get('l'), 't': u.get('t')}
            u.clear()
            u.update({'k': 'ref', 'name': ename, 'dk': 'local', 'dl': v.get('dl'), 'isref': True})
            u.update(keep)
        n.pop('init', None)
        n.pop('cond', None)
        n.pop('inc', None)
        n['k'] = 'rangefor'
        n['range'] = cont
        n['var'] = {'k': 'var', 'l': n.get('l'), 'dl': v.get('dl'), 'name': ename, 't': '%s &' % et, 'isref': True, 'synthetic': True}
        changed = True
    return changed


def iterator_to_rangefor(f):
    """`for (auto it = C.begin(); it != C.end(); ++it) { ... *it ... it->m ... }` where `it` is only dereferenced and C is not
       modified in the body is `for (auto& e : C)`"""
    from .norm import Renderer
    body = f.get('body')
    if not isinstance(body, dict):
        return False
    changed = False
    r = None
    READ_ONLY = ('size', 'begin', 'end', 'cbegin', 'cend', 'at', 'empty', 'front', 'back', 'data')

    def end_points(e, names):
        e = _strip(e)
        if isinstance(e, dict) and e.get('k') == 'call' and e.get('name') in names and not e.get('args') and e.get('obj') is not None:
            return e['obj']
        if isinstance(e, dict) and e.get('k') == 'call' and str(e.get('fn', '')).startswith(tuple('std::' + x for x in names)) \
                and len(e.get('args', [])) == 1 and e.get('obj') is None:
            return e['args'][0]
        return None
    for n in list(walk(body)):
        if n.get('k') != 'for':
            continue
        decl = [x for x in walk(n.get('init') or {}) if x.get('k') == 'var']
        if len(decl) != 1 or 'init' not in decl[0]:
            continue
        v = decl[0]
        key = (v.get('name'), v.get('dl'))
        cont = end_points(v['init'], ('begin', 'cbegin'))
        if cont is None or not is_pure(cont):
            continue
        r = r or Renderer(None, inline_locals=False)
        ct = r.r(cont)
        c = _strip(n.get('cond'))
        if isinstance(c, dict) and c.get('k') == 'opcall' and c.get('op') == '!=' and len(c.get('args', [])) == 2:
            a, b = c['args']
        elif isinstance(c, dict) and c.get('k') == 'bin' and c.get('op') == '!=':
            a, b = c.get('lhs'), c.get('rhs')
        else:
            continue
        if not _is_ref(a, key):
            a, b = b, a
        e_ = end_points(b, ('end', 'cend'))
        if not _is_ref(a, key) or e_ is None or r.r(e_) != ct:
            continue
        inc = _strip(n.get('inc'))
        it = None
        if isinstance(inc, dict) and inc.get('k') == 'opcall' and inc.get('op') in ('++', 'post++') and inc.get('args'):
            it = inc['args'][0]
        elif isinstance(inc, dict) and inc.get('k') == 'un' and inc.get('op') in ('++', 'post++'):
            it = inc.get('e')
        if not _is_ref(it, key):
            continue
        ok = True
        derefs = []        # (node to turn into the element, or mem node whose base becomes the element)

        def scan(x, parent, grand):
            nonlocal ok
            if not isinstance(x, dict):
                return
            if x.get('k') == 'ref' and x.get('dk') == 'local' and (x.get('name'), x.get('dl')) == key:
                if isinstance(parent, dict) and parent.get('k') == 'opcall' and parent.get('op') == '*' and len(parent.get('args', [])) == 1:
                    derefs.append(('elem', parent))
                elif isinstance(parent, dict) and parent.get('k') == 'un' and parent.get('op') == '*':
                    derefs.append(('elem', parent))
                elif isinstance(parent, dict) and parent.get('k') == 'opcall' and parent.get('op') == '->' and isinstance(grand, dict) \
                        and grand.get('k') == 'mem' and grand.get('arrow'):
                    derefs.append(('mem', grand))
                elif isinstance(parent, dict) and parent.get('k') == 'mem' and parent.get('arrow') and _strip(parent.get('base')) is x:
                    derefs.append(('mem', parent))
                else:
                    ok = False
                return
            if x.get('k') == 'call' and x.get('obj') is not None and x.get('name') not in READ_ONLY and r.r(x['obj']) == ct:
                ok = False
            if x.get('k') == 'lambda':
                ok = False
            if x.get('k') == 'cast':
                scan(x.get('e'), parent, grand)
                return
            for ch in children(x):
                scan(ch, x, parent)
        scan(n.get('body'), n, None)
        if not ok or not derefs:
            continue
        for p_, node, how in _direct_writes(n.get('body')):
            if r.r(node.get('lhs') if node.get('k') == 'assign' else node.get('e') or {}) == ct:
                ok = False
        if not ok:
            continue
        ename = 'elem@%s' % (v.get('dl') or n.get('l'))
        et = None
        for how, node in derefs:
            if how == 'elem':
                et = et or node.get('t')
                keep = {'l': node.get('l'), 't': node.get('t')}
                node.clear()
                node.update({'k': 'ref', 'name': ename, 'dk': 'local', 'dl': v.get('dl'), 'isref': True})
                node.update(keep)
            else:
                bt = str((node.get('base') or {}).get('t', '')).rstrip('* ').strip()
                et = et or bt
                node['base'] = {'k': 'ref', 'name': ename, 'dk': 'local', 'dl': v.get('dl'), 'isref': True, 'l': node.get('l'), 't': bt}
                node['arrow'] = False
        n.pop('init', None)
        n.pop('cond', None)
        n.pop('inc', None)
        n['k'] = 'rangefor'
        n['range'] = cont
        n['var'] = {'k': 'var', 'l': n.get('l'), 'dl': v.get('dl'), 'name': ename, 't': '%s &' % et, 'isref': True, 'synthetic': True}
        changed = True
    return changed


def merge_nested_ifs(f):
    """`if (A) { if (B) S }` with no else on either is `if (A && B) S` (same evaluation order, same short-circuit)"""
    body = f.get('body')
    if not isinstance(body, dict):
        return False
    changed = False
    again = True
    while again:
        again = False
        for n in walk(body):
            if n.get('k') != 'if' or n.get('else') is not None or n.get('init') is not None or n.get('constexpr'):
                continue
            inner = n.get('then')
            while isinstance(inner, dict) and inner.get('k') == 'block' and len(inner.get('body', [])) == 1:
                inner = inner['body'][0]
            if not (isinstance(inner, dict) and inner.get('k') == 'if' and inner.get('else') is None and inner.get('init') is None
                    and not inner.get('constexpr')) or inner is n:
                continue
            if any(x.get('k') in ('var', 'decl') for x in walk(inner.get('cond'))) or any(x.get('k') in ('var', 'decl') for x in walk(n.get('cond'))):
                continue
            n['cond'] = {'l': n.get('l'), 't': 'bool', 'k': 'bin', 'op': '&&', 'lhs': n['cond'], 'rhs': inner['cond']}
            n['then'] = inner.get('then')
            changed = again = True
            break
    return changed


def cond_init_to_if(f):
    """`T x = c ? E : K;` with K a constant and E not pure (it fetches, pops, calls) is `T x = K; if (c) x = E;`
       (and `c ? K : E` the same with !c): the form in which a conditional side effect is a conditional statement"""
    from .astq import const_value
    body = f.get('body')
    if not isinstance(body, dict):
        return False
    changed = False
    for blk in [n for n in walk(body) if n.get('k') == 'block']:
        new = []
        for s_ in blk.get('body', []):
            new.append(s_)
            if s_.get('k') != 'decl' or len(s_.get('vars', [])) != 1:
                continue
            v = s_['vars'][0]
            init = v.get('init')
            if v.get('isref') or v.get('static') or not isinstance(init, dict):
                continue
            e = init
            while isinstance(e, dict) and (e.get('k') == 'cast' or (e.get('k') == 'construct' and e.get('copymove') and len(e.get('args', [])) == 1)):
                e = e.get('e') if e.get('k') == 'cast' else e['args'][0]
            if not (isinstance(e, dict) and e.get('k') == 'cond'):
                continue
            c, a, b = e.get('c'), e.get('a'), e.get('b')
            ka = const_value(_strip(a)) if isinstance(_strip(a), dict) else None
            kb = const_value(_strip(b)) if isinstance(_strip(b), dict) else None
            if isinstance(_strip(a), dict) and _strip(a).get('k') in ('initlist', 'valueinit') and not _strip(a).get('elts'):
                ka = 0
            if isinstance(_strip(b), dict) and _strip(b).get('k') in ('initlist', 'valueinit') and not _strip(b).get('elts'):
                kb = 0
            if kb is not None and ka is None and not is_pure(a) and is_pure(c):
                const_arm, other, cnd = kb, a, c
            elif ka is not None and kb is None and not is_pure(b) and is_pure(c):
                const_arm, other = ka, b
                cnd = {'l': c.get('l'), 't': 'bool', 'k': 'un', 'op': '!', 'e': c}
            else:
                continue
            v['init'] = {'l': v.get('l'), 't': v.get('t'), 'k': 'int', 'v': const_arm}
            ref = {'l': v.get('l'), 't': str(v.get('t', '')).replace('const ', ''), 'k': 'ref', 'name': v.get('name'), 'dk': 'local', 'dl': v.get('dl')}
            new.append({'l': v.get('l'), 'k': 'if', 'cond': cnd, 'else': None,
                        'then': {'k': 'block', 'l': v.get('l'),
                                 'body': [{'l': v.get('l'), 't': ref['t'], 'k': 'assign', 'op': '=', 'lhs': ref, 'rhs': other}]}})
            changed = True
        blk['body'] = new
    return changed


def _is_zero(e):
    from .astq import const_value
    return const_value(e) == 0


def _direct_writes(body):
    from .astq import direct_writes
    return direct_writes(body)


def canonical_atomics(f):
    """x.store(v) / x.load() on std::atomic are the explicit spellings of `x = v` / the implicit conversion: bring them
       into the implicit form (default sequentially-consistent order only; an explicit weaker order is left alone)"""
    changed = False
    for n in walk(f.get('body')):
        if n.get('k') != 'call' or n.get('obj') is None:
            continue
        cls = str(n.get('cls', ''))
        if not (cls.startswith('std::atomic<') or cls.startswith('std::__atomic_base<')):
            continue
        args = n.get('args', [])
        if any(isinstance(a, dict) and 'memory_order' in str(a.get('t', '')) and a.get('k') not in ('defaultarg',) and a.get('cv') not in (5, '5')
               for a in args[1:] if n.get('name') == 'store') or (n.get('name') == 'load' and args and args[0].get('cv') not in (5, '5', None)):
            continue
        if n.get('name') == 'store' and len(args) >= 1:
            obj, val = n['obj'], args[0]
            keep = {'l': n.get('l'), 't': val.get('t') if isinstance(val, dict) else n.get('t')}
            n.clear()
            n.update({'k': 'opcall', 'op': '=', 'fn': '%s::operator=' % cls, 'cls': cls, 'args': [obj, val], 'was': 'store'})
            n.update(keep)
            changed = True
        elif n.get('name') == 'load':
            obj = n['obj']
            t = n.get('t')
            keep = {'l': n.get('l'), 't': t}
            n.clear()
            n.update({'k': 'call', 'fn': '%s::operator %s() const' % (cls, t), 'name': 'operator %s' % t, 'cls': cls, 'obj': obj, 'args': [],
                      'was': 'load'})
            n.update(keep)
            changed = True
    return changed


def annotate_range_elements(f):
    """references to the element variable of `for (auto& e : C)` carry C, so that an access through e is seen as an
       access to an element of C (astq.field_chain)"""
    for n in walk(f.get('body')):
        if n.get('k') != 'rangefor' or not isinstance(n.get('var'), dict):
            continue
        v = n['var']
        if not (v.get('isref') or str(v.get('t', '')).rstrip().endswith('*')):
            continue
        key = (v.get('name'), v.get('dl'))
        for x in walk(n.get('body')):
            if x.get('k') == 'ref' and x.get('dk') == 'local' and (x.get('name'), x.get('dl')) == key and v.get('isref'):
                x['elem_of'] = n.get('range')


def forwarding_lambdas_to_bind(facts, skip_targets=()):
    """a lambda that does nothing but forward to one function (`[this](u32 n) { icu.Trigger(n); }`,
       `[&a, i](u16 v) { a.Send(i, v); }`) is the same callable as std::bind(&C::M, &obj, bound..., _1...): bring it
       into the bind form (the form the wiring / MMIO tables read) and drop the lambda's function fact.
       Bound arguments must be constants or captured locals / parameters (values fixed when the lambda is created)."""
    F = facts['functions']
    n_conv = 0
    for fid in list(F):
        f = F.get(fid)
        if f is None or not f.get('file', '').startswith(('src/', 'include/')):
            continue
        for n in list(walk(f.get('body'))):
            if n.get('k') != 'lambda':
                continue
            lam = F.get(n.get('fn'))
            if lam is None or not isinstance(lam.get('body'), dict):
                continue
            stmts = [x for x in _stmts(lam['body']) if x.get('k') != 'null']
            if len(stmts) != 1:
                continue
            st = stmts[0]
            c = _strip(st.get('e')) if st.get('k') == 'return' else _strip(st)
            if not (isinstance(c, dict) and c.get('k') == 'call' and c.get('fn') and c['fn'] in F):
                continue
            if c['fn'] in skip_targets:
                continue        # forwards to a helper that is inlined first (second pass after the inlining)
            callee = F[c['fn']]
            own = {p.get('name') for p in lam.get('params', []) if p.get('name')}
            caps = {cp.get('name') for cp in n.get('caps', []) if cp.get('name')}
            by_ref_caps = {cp.get('name') for cp in n.get('caps', []) if cp.get('name') and cp.get('byref')}
            nown = len(lam.get('params', []))

            def is_own(x):
                return isinstance(x, dict) and x.get('k') == 'ref' and x.get('dk') == 'parm' and x.get('name') not in caps \
                    and isinstance(x.get('idx'), int) and x['idx'] < nown and (x.get('name') in own or not x.get('name'))
            args = []
            ok = True
            used = []
            for a in c.get('args', []):
                a2 = _strip(a)
                if is_own(a2):
                    used.append(a2['idx'])
                    args.append({'l': a.get('l'), 't': 'const std::_Placeholder<%d>' % (a2['idx'] + 1), 'k': 'ref', 'name': '_%d' % (a2['idx'] + 1),
                                 'dk': 'global', 'qn': 'std::placeholders::_%d' % (a2['idx'] + 1)})
                    continue
                # bound value: constant, or made of captured-by-value locals / parameters of the enclosing function
                bad = False
                for x in walk(a):
                    if is_own(x) or x.get('k') in ('call', 'mem', 'this', 'assign', 'lambda') or (x.get('k') == 'un' and x.get('op') in _IMPURE_UN):
                        bad = True
                    if x.get('k') == 'ref' and x.get('dk') in ('local', 'parm', 'binding') and x.get('name') in by_ref_caps:
                        bad = True
                if bad:
                    ok = False
                    break
                args.append(copy.deepcopy(a))
            if not ok or len(set(used)) != len(used):
                continue
            obj = c.get('obj')
            bind_args = [{'l': c.get('l'), 't': 'memfnptr', 'k': 'un', 'op': '&',
                          'e': {'l': c.get('l'), 'k': 'ref', 'name': callee.get('name'), 'dk': 'func', 'fn': c['fn']}}]
            if callee.get('cls') and not callee.get('static'):
                if obj is None or not is_pure(obj) or any(is_own(x) for x in walk(obj)):
                    continue
                o2 = _strip(obj)
                tt_ = str(o2.get('t', '')).rstrip()
                while tt_.endswith('const') or tt_.endswith('volatile'):
                    tt_ = tt_[:-5].rstrip() if tt_.endswith('const') else tt_[:-8].rstrip()
                ptr = tt_.endswith('*') or o2.get('k') == 'this'
                bind_args.append(copy.deepcopy(obj) if ptr else {'l': c.get('l'), 't': '%s *' % o2.get('t'), 'k': 'un', 'op': '&', 'e': copy.deepcopy(obj)})
            elif obj is not None:
                continue
            keep = {'l': n.get('l')}
            lam_id = n.get('fn')
            n.clear()
            n.update({'k': 'call', 'fn': 'std::bind<from-lambda>', 'name': 'bind', 't': 'std::_Bind<from-lambda>', 'args': bind_args + args,
                      'from_lambda': lam_id})
            n.update(keep)
            F.pop(lam_id, None)
            facts.get('func_units', {}).pop(lam_id, None)
            n_conv += 1
    return n_conv


def static_member_calls(facts):
    """a static member function called from a non-static member of the same class is rendered like a member call on
       `this` (whether a helper that uses no members is declared `static` is not behaviour)"""
    F = facts['functions']
    n_conv = 0
    for fid, f in F.items():
        if not f.get('file', '').startswith(('src/', 'include/')) or not f.get('cls') or f.get('static'):
            continue
        root = F.get(fid.split('::<lambda@', 1)[0], f)
        if f.get('lambda'):
            continue
        for n in walk(f.get('body')):
            if n.get('k') == 'call' and n.get('obj') is None and n.get('fn') in F:
                g = F[n['fn']]
                if g.get('static') and g.get('cls') == f.get('cls'):
                    n['obj'] = {'l': n.get('l'), 't': '%s *' % f.get('cls'), 'k': 'this', 'implicit': True}
                    n['cls'] = g.get('cls')
                    n_conv += 1
    return n_conv


def split_comma_statements(facts):
    """an expression statement `a, b, c;` (also what a comma fold `(f(xs), ...)` instantiates to) is the statements `a; b; c;`"""
    n_conv = 0
    for fid, f in facts['functions'].items():
        if not f.get('file', '').startswith(('src/', 'include/')):
            continue
        for blk in [n for n in walk(f.get('body')) if n.get('k') == 'block']:
            out = []
            ch = False
            for st in blk.get('body', []):
                parts = []

                def flat(e):
                    e2 = e
                    while isinstance(e2, dict) and e2.get('k') in ('cast', 'paren') and isinstance(e2.get('e'), dict) \
                            and _strip(e2).get('k') == 'bin' and _strip(e2).get('op') == ',':
                        e2 = e2.get('e')
                    if isinstance(e2, dict) and e2.get('k') == 'bin' and e2.get('op') == ',':
                        flat(e2.get('lhs'))
                        flat(e2.get('rhs'))
                    else:
                        parts.append(e)
                flat(st)
                if len(parts) > 1:
                    out.extend(parts)
                    ch = True
                    n_conv += 1
                else:
                    out.append(st)
            if ch:
                blk['body'] = out
    return n_conv


def canonical_increments(f):
    """`x += 1`, `x -= 1`, `x = x + 1`, `x = x - 1` (as statements, result unused) are `++x` / `--x`"""
    from .astq import const_value
    from .norm import Renderer
    body = f.get('body')
    if not isinstance(body, dict):
        return False
    r = None
    changed = False

    def conv(st):
        nonlocal r, changed
        if not (isinstance(st, dict) and st.get('k') == 'assign' and is_pure(st.get('lhs'))):
            return
        op = st.get('op')
        new_op = None
        if op in ('+=', '-=') and const_value(_strip(st.get('rhs'))) == 1:
            new_op = '++' if op == '+=' else '--'
        elif op == '=':
            rhs = _strip(st.get('rhs'))
            if isinstance(rhs, dict) and rhs.get('k') == 'bin' and rhs.get('op') in ('+', '-'):
                r = r or Renderer(None, inline_locals=False)
                lt = r.r(st['lhs'])
                a, b = rhs.get('lhs'), rhs.get('rhs')
                if const_value(_strip(b)) == 1 and r.r(a) == lt:
                    new_op = '++' if rhs['op'] == '+' else '--'
                elif rhs['op'] == '+' and const_value(_strip(a)) == 1 and r.r(b) == lt:
                    new_op = '++'
        if new_op:
            lhs = st['lhs']
            keep = {'l': st.get('l'), 't': st.get('t')}
            st.clear()
            st.update({'k': 'un', 'op': new_op, 'e': lhs, 'was': 'assign'})
            st.update(keep)
            changed = True
    for n in walk(body):
        k = n.get('k')
        if k == 'block':
            for st in n.get('body', []):
                conv(st)
        elif k == 'if':
            conv(n.get('then'))
            conv(n.get('else'))
        elif k == 'for':
            conv(n.get('inc'))
            conv(n.get('body'))
        elif k in ('while', 'do', 'rangefor', 'case', 'default'):
            conv(n.get('body') if k != 'case' and k != 'default' else n.get('sub'))
    return changed


# ---------------------------------------------------------------------------------------------- driver

def normalize(facts):
    """in-place; returns a small report that goes into the evidence"""
    F = facts['functions']
    report = {'inlined_helpers': [], 'kept_helpers': [], 'alias_functions': 0}
    vocab = load_vocab()
    report['comma_statements'] = split_comma_statements(facts)
    report['forwarding_lambdas'] = forwarding_lambdas_to_bind(
        facts, skip_targets={fid for fid, f in F.items() if vocab is not None and candidate(f, vocab)})
    if vocab is not None:
        cands = {fid: f for fid, f in F.items() if candidate(f, vocab)}
        # recursion guard: a helper that (transitively, within the candidate set) reaches itself is left alone
        calls = {fid: {n.get('fn') for n in walk(f['body']) if n.get('k') == 'call' and n.get('fn') in cands} for fid, f in cands.items()}

        def reaches(a, b, seen):
            for c in calls.get(a, ()):
                if c == b or (c not in seen and reaches(c, b, seen | {c})):
                    return True
            return False
        cands = {fid: f for fid, f in cands.items() if not reaches(fid, fid, {fid})}
        closures = set()
        for rnd in range(MAX_ROUNDS):
            helpers = {fid: Helper(f) for fid, f in cands.items()}
            helpers = {fid: h for fid, h in helpers.items() if h.value is not None or h.void is not None}
            if not helpers and rnd > 0:
                break
            inl = Inliner(F, helpers)      # (also inlines calls of local value closures, helpers or not)
            for fid, f in list(F.items()):
                if f.get('file', '').startswith(('src/', 'include/')):
                    inl.run(f)
            closures |= getattr(inl, 'inlined_local_closures', set())
            if not inl.changed:
                break
        # local closures all of whose calls were inlined: drop the variable and the closure's function fact
        for (fid_, nm_, dl_, lam_id) in sorted(closures, key=str):
            g = F.get(fid_)
            if g is None:
                continue
            if any(x.get('k') == 'ref' and (x.get('name'), x.get('dl')) == (nm_, dl_) for x in walk(g.get('body'))):
                continue
            for blk in [x for x in walk(g.get('body')) if x.get('k') == 'block']:
                nb = []
                for st in blk.get('body', []):
                    if st.get('k') == 'decl':
                        st['vars'] = [v for v in st.get('vars', []) if (v.get('name'), v.get('dl')) != (nm_, dl_)]
                        if not st['vars']:
                            continue
                    nb.append(st)
                blk['body'] = nb
            F.pop(lam_id, None)
        # drop helpers nobody refers to any more
        if cands:
            used = set()
            for fid, f in F.items():
                for n in walk(f.get('body')):
                    fn = n.get('fn')
                    if fn in cands and fn != fid and n.get('k') in ('call', 'ref', 'memfn', 'opcall', 'construct'):
                        used.add(fn)
            for fid in sorted(cands):
                if fid not in used and not _externally_visible(cands[fid]):
                    report['inlined_helpers'].append(fid)
                    del F[fid]
                    facts.get('func_units', {}).pop(fid, None)
                else:
                    report['kept_helpers'].append(fid)
    # helpers inlined into a lambda may have turned it into a forwarding lambda
    report['forwarding_lambdas'] += forwarding_lambdas_to_bind(facts)
    report['static_member_calls'] = static_member_calls(facts)
    report['while_loops'] = 0
    known = load_known_locals()
    for fid, f in F.items():
        if f.get('file', '').startswith(('src/', 'include/')):
            kl = None
            if known is not None:
                root = fid.split('::<lambda@', 1)[0]
                rf = F.get(root, f)
                kl = set(known.get(vocab_key(rf.get('qname')), ()))
            if cond_init_to_if(f):
                report['cond_inits'] = report.get('cond_inits', 0) + 1
            if substitute_aliases(f, kl):
                report['alias_functions'] += 1
            if merge_nested_ifs(f):
                report['merged_ifs'] = report.get('merged_ifs', 0) + 1
            if canonical_increments(f):
                report['increments'] = report.get('increments', 0) + 1
            if downcount_loops(f):
                report['downcount_loops'] = report.get('downcount_loops', 0) + 1
            if while_to_for(f):
                report['while_loops'] += 1
            if index_to_rangefor(f):
                report['index_loops'] = report.get('index_loops', 0) + 1
            if iterator_to_rangefor(f):
                report['iterator_loops'] = report.get('iterator_loops', 0) + 1
            if canonical_atomics(f):
                report['atomics'] = report.get('atomics', 0) + 1
            annotate_range_elements(f)
    facts['normalize'] = report
    return report


def _externally_visible(f):
    """public API of the library (include/teakra/*.h): a new public entry point is not a helper even if unused"""
    return f.get('file', '').startswith('include/teakra/') and not f.get('file', '').startswith('include/teakra/impl/')
