"""Constant propagation / partial evaluation over AST-lite (part of engine E3).

Evaluator.eval(expr, env) returns the integer value of an expression when it
is determined by compile-time constants and the bindings in `env`
(parameter / local names -> int, or -> {'storage': n, ...} for operand
objects; 'this' -> object dict), following calls into small repo functions
(operand accessors, GetName(), Index(), SignExtend ...) by interpreting
their bodies.  Unknown -> None.  No teakra code is executed: this interprets
the extracted AST with C++ integer semantics (width-wrapping by type).
"""
from .astq import const_value, unwrap_casts

INT_TYPES = {
    'bool': (1, False), 'char': (8, True), 'signed char': (8, True), 'unsigned char': (8, False),
    'short': (16, True), 'unsigned short': (16, False), 'int': (32, True), 'unsigned int': (32, False),
    'long': (64, True), 'unsigned long': (64, False), 'long long': (64, True), 'unsigned long long': (64, False),
}


def type_info(t):
    if not t:
        return None
    t = t.replace('const ', '').replace('volatile ', '').strip()
    if t.endswith('&'):
        t = t[:-1].strip()
    return INT_TYPES.get(t)


def wrap(v, t):
    ti = type_info(t)
    if ti is None or v is None:
        return v
    bits, signed = ti
    if bits == 1:
        return 1 if v else 0
    v &= (1 << bits) - 1
    if signed and v >> (bits - 1):
        v -= 1 << bits
    return v


class Unknown(Exception):
    pass


class _Return(Exception):
    def __init__(self, v):
        self.v = v


class Evaluator:
    def __init__(self, F, max_depth=12):
        self.F = F
        self.funcs = F['functions']
        self.max_depth = max_depth

    # ---------------------------------------------------------------- expressions
    def eval(self, e, env=None, depth=0):
        try:
            return self._e(e, env or {}, depth)
        except Unknown:
            return None

    def _e(self, e, env, depth):
        if e is None:
            raise Unknown()
        if depth > 60:
            raise Unknown()
        k = e.get('k')
        if k == 'ref':
            dk = e.get('dk')
            if dk in ('parm', 'local', 'binding', 'staticlocal') and e['name'] in env:
                v = env[e['name']]
                if v is None:
                    raise Unknown()
                return v
            cv = const_value(e)
            if cv is not None:
                return cv
            if 'av' in e:
                return e['av']
            raise Unknown()
        cv = const_value(e)
        if cv is not None:
            return cv
        if k == 'int':
            return e['v']
        if k == 'this':
            if 'this' in env and env['this'] is not None:
                return env['this']
            raise Unknown()
        if k == 'cast':
            v = self._e(e.get('e'), env, depth + 1)
            if isinstance(v, int):
                return wrap(v, e.get('t'))
            return v
        if k == 'mem':
            b = self._e(e.get('base'), env, depth + 1)
            if isinstance(b, dict) and e['name'] in b and b[e['name']] is not None:
                return b[e['name']]
            raise Unknown()
        if k == 'un':
            op = e.get('op')
            if op == '*':
                return self._e(e.get('e'), env, depth + 1)
            v = self._e(e.get('e'), env, depth + 1)
            if not isinstance(v, int):
                raise Unknown()
            if op == '-':
                return wrap(-v, e.get('t'))
            if op == '~':
                return wrap(~v, e.get('t'))
            if op == '!':
                return 0 if v else 1
            if op == '+':
                return v
            raise Unknown()
        if k == 'bin':
            op = e.get('op')
            if op == '&&':
                l = self._try(e.get('lhs'), env, depth)
                if l is not None and not l:
                    return 0
                r = self._try(e.get('rhs'), env, depth)
                if r is not None and not r:
                    return 0
                if l is not None and r is not None:
                    return 1
                raise Unknown()
            if op == '||':
                l = self._try(e.get('lhs'), env, depth)
                if l:
                    return 1
                r = self._try(e.get('rhs'), env, depth)
                if r:
                    return 1
                if l is not None and r is not None:
                    return 0
                raise Unknown()
            if op == ',':
                return self._e(e.get('rhs'), env, depth + 1)
            l = self._e(e.get('lhs'), env, depth + 1)
            r = self._e(e.get('rhs'), env, depth + 1)
            if not isinstance(l, int) or not isinstance(r, int):
                raise Unknown()
            t = e.get('t')
            if op == '+':
                return wrap(l + r, t)
            if op == '-':
                return wrap(l - r, t)
            if op == '*':
                return wrap(l * r, t)
            if op == '/':
                if r == 0:
                    raise Unknown()
                q = abs(l) // abs(r)
                return wrap(q if (l < 0) == (r < 0) else -q, t)
            if op == '%':
                if r == 0:
                    raise Unknown()
                return wrap(l - r * (abs(l) // abs(r) * (1 if (l < 0) == (r < 0) else -1)), t)
            if op == '<<':
                if r < 0 or r > 63:
                    raise Unknown()
                return wrap(l << r, t)
            if op == '>>':
                if r < 0 or r > 63:
                    raise Unknown()
                return wrap(l >> r, t)
            if op == '&':
                return wrap(l & r, t)
            if op == '|':
                return wrap(l | r, t)
            if op == '^':
                return wrap(l ^ r, t)
            if op == '==':
                return int(l == r)
            if op == '!=':
                return int(l != r)
            if op == '<':
                return int(l < r)
            if op == '<=':
                return int(l <= r)
            if op == '>':
                return int(l > r)
            if op == '>=':
                return int(l >= r)
            raise Unknown()
        if k == 'cond':
            c = self._e(e.get('c'), env, depth + 1)
            return self._e(e.get('a') if c else e.get('b'), env, depth + 1)
        if k == 'index' or (k == 'opcall' and e.get('op') == '[]'):
            if k == 'index':
                b, i = e.get('base'), e.get('idx')
            else:
                b, i = e['args'][0], e['args'][1]
            bv = self._e(b, env, depth + 1)
            iv = self._e(i, env, depth + 1)
            if isinstance(bv, list) and isinstance(iv, int) and 0 <= iv < len(bv):
                return bv[iv]
            raise Unknown()
        if k == 'construct':
            args = e.get('args', [])
            if e.get('copymove') and len(args) == 1:
                return self._e(args[0], env, depth + 1)
            if not args:
                return {'storage': 0}
            # operand constructed from an index: Px{0}, Rn{3}
            fn = self.funcs.get(e.get('fn'))
            if fn is not None and len(args) == len(fn.get('params', [])):
                obj = {'storage': 0}
                env2 = {'this': obj}
                for p, a in zip(fn['params'], args):
                    env2[p['name']] = self._try(a, env, depth)
                try:
                    self._run(fn['body'], env2, depth + 1, obj_fields=obj)
                except _Return:
                    pass
                except Unknown:
                    raise
                return obj
            raise Unknown()
        if k == 'initlist':
            elts = e.get('elts', [])
            if len(elts) == 1:
                return self._e(elts[0], env, depth + 1)
            if not elts:
                return 0
            raise Unknown()
        if k == 'valueinit':
            return 0
        if k == 'call':
            return self._call(e, env, depth)
        raise Unknown()

    def _try(self, e, env, depth):
        try:
            return self._e(e, env, depth + 1)
        except Unknown:
            return None

    def _call(self, e, env, depth):
        if depth > self.max_depth * 5:
            raise Unknown()
        fn = self.funcs.get(e.get('fn'))
        if fn is None or fn.get('body') is None:
            # std::get<N>(tuple) etc. are not modelled
            raise Unknown()
        env2 = {}
        if e.get('obj') is not None:
            env2['this'] = self._try(e['obj'], env, depth)
        args = e.get('args', [])
        params = fn.get('params', [])
        for i, p in enumerate(params):
            if i < len(args):
                env2[p['name']] = self._try(args[i], env, depth)
            elif 'default' in p:
                env2[p['name']] = self._try(p['default'], {}, depth)
            else:
                env2[p['name']] = None
        # static constexpr arrays of the owner (EnumOperand::values)
        try:
            self._run(fn['body'], env2, depth + 1)
        except _Return as r:
            if r.v is None:
                raise Unknown()
            return wrap(r.v, fn.get('ret')) if isinstance(r.v, int) else r.v
        raise Unknown()

    # ----------------------------------------------------------------- statements
    def _run(self, s, env, depth, obj_fields=None):
        if s is None:
            return
        k = s.get('k')
        if k == 'block':
            for c in s.get('body', []):
                self._run(c, env, depth, obj_fields)
            return
        if k == 'return':
            if s.get('e') is None:
                raise _Return(None)
            raise _Return(self._e(s['e'], env, depth))
        if k == 'if':
            c = self._e(s.get('cond'), env, depth)
            if c:
                self._run(s.get('then'), env, depth, obj_fields)
            elif s.get('else') is not None:
                self._run(s.get('else'), env, depth, obj_fields)
            return
        if k == 'decl':
            for v in s.get('vars', []):
                env[v['name']] = self._try(v.get('init'), env, depth) if 'init' in v else None
            return
        if k == 'switch':
            c = self._e(s.get('cond'), env, depth)
            body = s.get('body', {})
            items = body.get('body', []) if body.get('k') == 'block' else [body]
            active = False
            matched_any = False
            # first pass: is there a matching case?  else default
            labels = []
            for it in items:
                node = it
                while isinstance(node, dict) and node.get('k') in ('case', 'default'):
                    labels.append(node)
                    node = node.get('sub')
            target = None
            for lb in labels:
                if lb['k'] == 'case' and const_value(lb.get('val')) == c:
                    target = lb
                    break
            if target is None:
                for lb in labels:
                    if lb['k'] == 'default':
                        target = lb
            if target is None:
                return
            try:
                for it in items:
                    node = it
                    while isinstance(node, dict) and node.get('k') in ('case', 'default'):
                        if node is target:
                            active = True
                        node = node.get('sub')
                    if active:
                        self._run(node, env, depth, obj_fields)
            except _Break:
                pass
            return
        if k == 'break':
            raise _Break()
        if k == 'attributed':
            return self._run(s.get('sub'), env, depth, obj_fields)
        if k == 'null':
            return
        if k == 'assign' and s.get('op') == '=':
            lhs = unwrap_casts(s.get('lhs'))
            if lhs.get('k') == 'ref' and lhs.get('dk') in ('local', 'parm'):
                env[lhs['name']] = self._try(s.get('rhs'), env, depth)
                return
            if lhs.get('k') == 'mem' and obj_fields is not None:
                b = unwrap_casts(lhs.get('base'))
                if b.get('k') == 'this':
                    obj_fields[lhs['name']] = self._try(s.get('rhs'), env, depth)
                    return
            raise Unknown()
        if k in ('assert',):
            return
        if k in ('unreachable', 'throw'):
            raise Unknown()
        # any other statement kind makes the result unknown (side effects)
        raise Unknown()


class _Break(Exception):
    pass
