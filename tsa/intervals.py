"""Unsigned-interval abstract interpretation over AST-lite expressions (engine E5).

Values are tracked as mathematical integer intervals [lo, hi] of the *stored*
(two's-complement, width-wrapped) representation, i.e. for a u16 expression
always inside [0, 65535]; signed int expressions inside [-2^31, 2^31-1].
Sources of bounds: literals / compile-time constants, C++ type widths, masks,
shifts, modulo, comparisons (0/1), operand accessor widths (Operand<N>),
constant-bound loop variables, dominating guards supplied by the caller,
field-width invariants supplied by the caller (assume/guarantee), and return
intervals of small repo functions computed recursively.
"""
from .absint import type_info
from .astq import const_value, unwrap_casts, field_path, walk

FULL = None


def trange(t):
    ti = type_info(t)
    if ti is None:
        return None
    bits, signed = ti
    if bits == 1:
        return (0, 1)
    if signed:
        return (-(1 << (bits - 1)), (1 << (bits - 1)) - 1)
    return (0, (1 << bits) - 1)


def join(a, b):
    if a is None or b is None:
        return None
    return (min(a[0], b[0]), max(a[1], b[1]))


def clamp(iv, t):
    """result of converting a mathematical interval to type t (wraps if it does not fit)"""
    tr = trange(t)
    if tr is None:
        return iv
    if iv is None:
        return tr
    if iv[0] >= tr[0] and iv[1] <= tr[1]:
        return iv
    if tr[0] == 0:
        m = tr[1] + 1
        if iv[0] // m == iv[1] // m:
            # the whole interval wraps by the same multiple of 2^bits
            return (iv[0] % m, iv[1] % m)
    return tr


def bitlen_hi(hi):
    return hi.bit_length()


class Intervals:
    def __init__(self, F, field_bounds=None, max_depth=6):
        self.F = F
        self.funcs = F['functions']
        self.fb = field_bounds or {}     # (cls, field) -> (lo, hi)
        self.max_depth = max_depth
        self._ret_cache = {}
        self._local_cache = {}
        self.enum_ranges = {}
        for n, e in F['enums'].items():
            vs = [x['v'] for x in e['enumerators']]
            if vs:
                self.enum_ranges[n] = (min(vs), max(vs))

    # ------------------------------------------------------------------ helpers
    def operand_storage_bits(self, cls):
        """N of the Operand<N> base of an operand class (facts of the compiler)"""
        seen = set()

        def rec(name, depth=0):
            if name in seen or depth > 8:
                return None
            seen.add(name)
            r = self.F['records'].get(name)
            if r is None:
                return None
            if r.get('tn') == 'Operand' and r.get('ta'):
                return r['ta'][0].get('i')
            for b in r.get('bases', []):
                if b.get('tn') == 'Operand' and b.get('ta'):
                    return b['ta'][0].get('i')
                x = rec(b.get('s'), depth + 1)
                if x is not None:
                    return x
            return None
        return rec(cls)

    def type_interval(self, t):
        tr = trange(t)
        if tr is not None:
            return tr
        if t:
            t2 = t.replace('const ', '').strip()
            if t2 in self.enum_ranges:
                return self.enum_ranges[t2]
        return None

    def _narrowed(self, name, x):
        nl = getattr(self, 'narrow', None)
        if nl and name in nl and nl[name] is not None:
            if x is None:
                return nl[name]
            lo, hi = max(x[0], nl[name][0]), min(x[1], nl[name][1])
            return (lo, hi) if lo <= hi else (lo, lo)
        return x

    # ------------------------------------------------------------- reaching defs
    def _parents(self, func):
        key = ('parents', func['id'])
        pm = self._ret_cache.get(key)
        if pm is None:
            pm = {}
            stack = [func.get('body')]
            from .astq import children
            while stack:
                n = stack.pop()
                if not isinstance(n, dict):
                    continue
                for c in children(n):
                    pm[id(c)] = n
                    stack.append(c)
            self._ret_cache[key] = pm
        return pm

    def _decl_type(self, func, name):
        key = ('decls', func['id'])
        d = self._ret_cache.get(key)
        if d is None:
            d = {}
            for n in walk(func.get('body')):
                if n.get('k') == 'var':
                    d[n['name']] = n.get('t')
            self._ret_cache[key] = d
        return d.get(name)

    @staticmethod
    def _writes_local_node(x, name):
        """is node x itself an assignment / increment of local `name`"""
        k = x.get('k')
        if k == 'assign' or (k == 'un' and x.get('op') in ('++', '--', 'post++', 'post--', '&')):
            t = unwrap_casts(x.get('lhs') if k == 'assign' else x.get('e'))
            return isinstance(t, dict) and t.get('k') == 'ref' and t.get('name') == name and t.get('dk') in ('local', 'parm')
        return False

    @staticmethod
    def _writes_local(n, name):
        for x in walk(n):
            k = x.get('k')
            if k == 'assign' or (k == 'un' and x.get('op') in ('++', '--', 'post++', 'post--', '&')):
                t = unwrap_casts(x.get('lhs') if k == 'assign' else x.get('e'))
                if isinstance(t, dict) and t.get('k') == 'ref' and t.get('name') == name and t.get('dk') in ('local', 'parm'):
                    return True
            elif k == 'var' and x.get('name') == name:
                return True
            elif k == 'call':
                # passed by reference (std::tie, out-params): treat as a write
                for a in x.get('args', []):
                    a2 = unwrap_casts(a)
                    if isinstance(a2, dict) and a2.get('k') == 'ref' and a2.get('name') == name and \
                            str(x.get('fn', '')).startswith('std::tie'):
                        return True
        return False

    def reaching_def(self, func, use):
        """the unique straight-line definition of local `use` that dominates the use, if any:
           ('init', rhs_expr) or ('and', (prev, mask_expr)); None when control flow makes it ambiguous"""
        name = use['name']
        pm = self._parents(func)
        child = use
        node = pm.get(id(use))
        while node is not None:
            k = node.get('k')
            if k == 'block':
                body = node.get('body', [])
                idx = None
                for i, st in enumerate(body):
                    if st is child:
                        idx = i
                        break
                if idx is not None:
                    for st in reversed(body[:idx]):
                        sk = st.get('k')
                        if sk == 'assign':
                            t = unwrap_casts(st.get('lhs'))
                            if isinstance(t, dict) and t.get('k') == 'ref' and t.get('name') == name:
                                if st.get('op') == '=':
                                    return ('init', st.get('rhs'))
                                if st.get('op') == '&=':
                                    return ('and', (None, st.get('rhs')))
                                return None
                        if sk == 'decl':
                            for v in st.get('vars', []):
                                if v['name'] == name:
                                    return ('init', v['init']) if 'init' in v else None
                        if self._writes_local(st, name):
                            return None
            elif k in ('for', 'while', 'do', 'rangefor'):
                # a definition outside the loop only reaches if the loop does not write the variable
                if self._writes_local(node, name):
                    return None
            elif k == 'var' and node.get('name') == name:
                return None
            child = node
            node = pm.get(id(node))
        return None

    # ------------------------------------------------------------- local variables
    def local_env(self, func, penv=None):
        """flow-insensitive intervals of the locals of `func` (join over all assignments)"""
        fid = func['id']
        if penv is None and fid in self._local_cache:
            return self._local_cache[fid]
        env = {}
        if penv is None:
            self._local_cache[fid] = env
        decls = {}
        assigns = {}
        loopvars = {}
        const_loops = {}
        from .loops import loop_range
        for n in walk(func.get('body')):
            k = n.get('k')
            if k == 'for':
                rng = loop_range(func, n)
                if rng:
                    name, first, end, step = rng
                    in_init = any(v.get('k') == 'var' and v.get('name') == name for v in walk(n.get('init') or {}))
                    if not in_init:
                        # declared in front of the loop: the value after the loop counts only when somebody reads it there
                        inside = {id(x) for x in walk(n)}
                        in_init = not any(x.get('k') == 'ref' and x.get('name') == name and id(x) not in inside for x in walk(func.get('body')))
                    if step > 0:
                        lo, hi = first, max(first, end - 1)
                        if not in_init:
                            hi = max(hi, end)       # value after the loop
                    else:
                        lo, hi = min(first, end + 1), first
                        if not in_init:
                            lo = min(lo, end)
                    const_loops[name] = (lo, hi)
            if k == 'rangefor':
                # a counter advanced in step with a range-for over a fixed-size array:
                #   T x = c0; for (auto& e : arr /* N elements */) { ... x ...; ++x; }      =>  x in [c0, c0 + N - 1] inside the body
                import re as _re
                m_ = _re.search(r'std::array<.*, (\d+)>', str((n.get('range') or {}).get('t', '')))
                b_ = n.get('body') or {}
                stmts_ = b_.get('body', []) if b_.get('k') == 'block' else [b_]
                if m_ and stmts_:
                    last = unwrap_casts(stmts_[-1])
                    if isinstance(last, dict) and last.get('k') == 'un' and last.get('op') in ('++', 'post++'):
                        t_ = unwrap_casts(last.get('e'))
                        if isinstance(t_, dict) and t_.get('k') == 'ref' and t_.get('dk') == 'local':
                            nm_ = t_['name']
                            writes_ = [x for x in walk(func.get('body')) if x is not last and self._writes_local_node(x, nm_)]
                            decl_ = [x for x in walk(func.get('body')) if x.get('k') == 'var' and x.get('name') == nm_]
                            uses_out = [x for x in walk(func.get('body')) if x.get('k') == 'ref' and x.get('name') == nm_
                                        and not any(y is x for y in walk(n))]
                            c0 = const_value(decl_[0].get('init')) if len(decl_) == 1 and 'init' in decl_[0] else None
                            if c0 is not None and not writes_ and not uses_out:
                                const_loops[nm_] = (c0, c0 + int(m_.group(1)) - 1)
            if k == 'var':
                decls[n['name']] = n
            elif k == 'assign':
                t = unwrap_casts(n.get('lhs'))
                if isinstance(t, dict) and t.get('k') == 'ref' and t.get('dk') in ('local', 'parm'):
                    assigns.setdefault(t['name'], []).append(n)
            elif k == 'un' and n.get('op') in ('++', '--', 'post++', 'post--'):
                t = unwrap_casts(n.get('e'))
                if isinstance(t, dict) and t.get('k') == 'ref' and t.get('dk') in ('local', 'parm'):
                    assigns.setdefault(t['name'], []).append(n)
            elif k == 'for':
                # for (T i = c0; i < c1; ++i)
                init = n.get('init') or {}
                vs = [v for v in walk(init) if v.get('k') == 'var']
                cond = n.get('cond') or {}
                if len(vs) == 1 and cond.get('k') == 'bin' and cond.get('op') in ('<', '<=', '!='):
                    v = vs[0]
                    lhs = unwrap_casts(cond.get('lhs'))
                    if isinstance(lhs, dict) and lhs.get('k') == 'ref' and lhs.get('name') == v['name']:
                        loopvars[v['name']] = (v, cond, n)
        # fixpoint (3 rounds, then fall back to type range)
        for rnd in range(3):
            changed = False
            for name, d in decls.items():
                cur = None
                unknown = False
                if name in const_loops:
                    cur = const_loops[name]
                elif name in loopvars and not [a for a in assigns.get(name, []) if a.get('k') == 'assign']:
                    v, cond, loop = loopvars[name]
                    lo = self.iv(v.get('init'), func, env, penv) if 'init' in v else None
                    hi = self.iv(cond.get('rhs'), func, env, penv)
                    incs = assigns.get(name, [])
                    only_inc = all(a.get('k') == 'un' and a.get('op') in ('++', 'post++') for a in incs)
                    # the loop variable must not be modified inside the body other than by the increment
                    if lo is not None and hi is not None and only_inc and len(incs) == 1:
                        top = hi[1] - 1 if cond['op'] in ('<', '!=') else hi[1]
                        cur = (lo[0], max(lo[0], top))
                    else:
                        unknown = True
                else:
                    if 'init' in d:
                        cur = self.iv(d['init'], func, env, penv)
                        if cur is None:
                            unknown = True
                    elif name in assigns:
                        cur = None
                    else:
                        unknown = True
                    first = 'init' not in d
                    for a in assigns.get(name, []):
                        if a.get('k') == 'assign' and a.get('op') == '=':
                            x = self.iv(a.get('rhs'), func, env, penv)
                        else:
                            x = None  # compound assignment / ++ : give up -> type range
                        if x is None:
                            unknown = True
                            break
                        cur = x if (cur is None and first) else join(cur, x)
                        first = False
                if unknown or cur is None:
                    cur = self.type_interval(d.get('t'))
                else:
                    cur = clamp(cur, d.get('t')) if trange(d.get('t')) else cur
                if env.get(name, 'unset') != cur:
                    env[name] = cur
                    changed = True
            if not changed:
                break
        # structured bindings initialised from a repo function returning std::make_tuple(a, b, ...)
        for n in walk(func.get('body')):
            if n.get('k') == 'var' and n.get('bindings') and isinstance(n.get('init'), dict):
                ivs = self.tuple_intervals(n['init'], func, env)
                for i, b in enumerate(n['bindings']):
                    env[b] = ivs[i] if ivs and i < len(ivs) else None
        # std::tie(a, b) = f(...)
        for n in walk(func.get('body')):
            if n.get('k') == 'opcall' and n.get('op') == '=' and len(n.get('args', [])) == 2:
                lhs = unwrap_casts(n['args'][0])
                while isinstance(lhs, dict) and lhs.get('k') == 'construct' and lhs.get('args'):
                    lhs = unwrap_casts(lhs['args'][0])
                if isinstance(lhs, dict) and lhs.get('k') == 'call' and str(lhs.get('fn', '')).startswith('std::tie'):
                    ivs = self.tuple_intervals(n['args'][1], func, env)
                    for i, a in enumerate(lhs.get('args', [])):
                        a = unwrap_casts(a)
                        if isinstance(a, dict) and a.get('k') == 'ref' and a.get('dk') == 'local':
                            x = ivs[i] if ivs and i < len(ivs) else None
                            if x is not None and a['name'] in decls and trange(decls[a['name']].get('t')):
                                x = clamp(x, decls[a['name']].get('t'))
                            # only when this is the sole definition of the variable
                            others = [w for w in assigns.get(a['name'], [])]
                            if 'init' not in decls.get(a['name'], {'init': 1}) and not others:
                                env[a['name']] = x if x is not None else self.type_interval(decls[a['name']].get('t'))
        # counters that only ever decrement behind an `if (x == 0) break/return;` stay inside [0, init]
        for name, d in decls.items():
            ws = assigns.get(name, [])
            if ws and 'init' in d and all(a.get('k') == 'un' and a.get('op') in ('--', 'post--') for a in ws):
                c0 = const_value(d['init'])
                if c0 is not None and c0 >= 0 and all(self._dec_guarded(func, a, name) for a in ws):
                    env[name] = (0, c0)
        # lambdas: variables captured from the enclosing function
        if '::<lambda@' in fid:
            parent = self.funcs.get(fid.rsplit('::<lambda@', 1)[0])
            if parent is not None and parent is not func:
                penv_ = self.local_env(parent)
                for k2, v2 in penv_.items():
                    env.setdefault(k2, v2)
        return env

    def _dec_guarded(self, func, dec, name):
        pm = self._parents(func)
        node = pm.get(id(dec))
        child = dec
        while node is not None and node.get('k') != 'block':
            child = node
            node = pm.get(id(node))
        if node is None:
            return False
        body = node.get('body', [])
        for i, st in enumerate(body):
            if st is child and i > 0:
                prev = body[i - 1]
                if prev.get('k') == 'if' and prev.get('else') is None:
                    c = unwrap_casts(prev.get('cond'))
                    th = prev.get('then') or {}
                    ex = th.get('k') in ('break', 'return') or (th.get('k') == 'block' and th.get('body') and th['body'][-1].get('k') in ('break', 'return'))
                    if ex and isinstance(c, dict) and c.get('k') == 'bin' and c.get('op') == '==' and const_value(c.get('rhs')) == 0:
                        l = unwrap_casts(c.get('lhs'))
                        if isinstance(l, dict) and l.get('k') == 'ref' and l.get('name') == name:
                            return True
        return False

    def tuple_intervals(self, init, func, env):
        """element intervals of a tuple-valued initialiser: a call of a repo function whose single return is
           std::make_tuple(e0, e1, ...)"""
        e = unwrap_casts(init)
        while isinstance(e, dict) and e.get('k') == 'construct' and e.get('copymove') and e.get('args'):
            e = unwrap_casts(e['args'][0])
        if not (isinstance(e, dict) and e.get('k') == 'call'):
            return None
        callee = self.funcs.get(e.get('fn'))
        if callee is None:
            return None
        rets = [n for n in walk(callee['body']) if n.get('k') == 'return' and n.get('e') is not None]
        if len(rets) != 1:
            return None
        mt = None
        for n in walk(rets[0]['e']):
            if n.get('k') == 'call' and str(n.get('fn', '')).startswith('std::make_tuple'):
                mt = n
                break
        if mt is None:
            for n in walk(rets[0]['e']):
                if n.get('k') == 'construct' and str(n.get('cls', '')).startswith(('std::tuple<', 'std::pair<')) and not n.get('copymove') \
                        and len(n.get('args', [])) >= 2 and not any('tuple<' in str(a.get('t', '')) for a in n['args'] if isinstance(a, dict)):
                    mt = n            # std::tuple<T...>(e0, e1, ...) / std::pair, element-wise
                    break
        if mt is None:
            return None
        pen = {}
        for i, p in enumerate(callee.get('params', [])):
            if i < len(e.get('args', [])):
                pen[p['name']] = self.iv(e['args'][i], func, env, {})
        cenv = self.local_env_with(callee, pen, 1)
        return [self.iv(a, callee, cenv, pen, 1) for a in mt.get('args', [])]

    # ---------------------------------------------------------------- expressions
    def iv(self, e, func=None, env=None, penv=None, depth=0):
        """interval of expression e inside function `func`;
           env: locals name->interval; penv: parameter name->interval (from a call site / guard)"""
        if e is None or not isinstance(e, dict):
            return None
        if env is None and func is not None:
            env = self.local_env(func)
        env = env or {}
        penv = penv or {}
        cv = const_value(e)
        if cv is not None:
            return (cv, cv)
        k = e.get('k')
        t = e.get('t')
        tr = self.type_interval(t)

        def sub(x):
            return self.iv(x, func, env, penv, depth)

        if k == 'ref':
            dk = e.get('dk')
            if dk == 'parm':
                # a by-value parameter that is re-defined in straight-line code before the use (`value &= mask;`)
                if func is not None and depth < 40 and e.get('name'):
                    rd = self.reaching_def(func, e)
                    if rd is not None:
                        kind, node = rd
                        x = None
                        if kind == 'init':
                            x = self.iv(node, func, env, penv, depth + 1)
                            if x is not None and trange(t):
                                x = clamp(x, t)
                        elif kind == 'and':
                            a = self.iv(node[1], func, env, penv, depth + 1)
                            x = (0, a[1]) if a is not None and a[0] >= 0 else None
                        if x is not None:
                            return x
                if e['name'] in penv and penv[e['name']] is not None:
                    return penv[e['name']]
                return tr
            if dk in ('local', 'binding'):
                if func is not None and depth < 40:
                    rd = self.reaching_def(func, e)
                    if rd is not None:
                        kind, node = rd
                        x = None
                        if kind == 'init':
                            x = self.iv(node, func, env, penv, depth + 1)
                            dt = self._decl_type(func, e['name'])
                            if x is not None and dt and trange(dt):
                                x = clamp(x, dt)
                        elif kind == 'and':
                            # x &= m after a straight-line definition
                            base, mask = node
                            a = self.iv(mask, func, env, penv, depth + 1)
                            x = (0, a[1]) if a is not None and a[0] >= 0 else None
                        if x is not None:
                            return self._narrowed(e['name'], x)
                v = env.get(e['name'])
                if v is not None:
                    return self._narrowed(e['name'], v)
                return self._narrowed(e['name'], tr)
            return tr
        if k in ('mem', 'index') or (k == 'opcall' and e.get('op') == '[]') or (k == 'bin' and e.get('op') in ('->*', '.*')):
            p = field_path(e)
            if p is not None:
                b = self.fb.get((p[0], p[1]))
                if b is not None:
                    return b
            return tr
        if k == 'cast':
            inner = sub(e.get('e'))
            it = self.type_interval((e.get('e') or {}).get('t')) if isinstance(e.get('e'), dict) else None
            if inner is None:
                inner = it
            if tr is None:
                return inner
            if inner is None:
                return tr
            ti = type_info(t)
            if ti and ti[0] == 1:
                return (0, 1) if inner != (0, 0) else (0, 0)
            return clamp(inner, t)
        if k == 'un':
            op = e.get('op')
            v = sub(e.get('e'))
            if op == '!':
                return (0, 1)
            if op in ('++', '--', 'post++', 'post--'):
                return tr
            if op == '-':
                if v is not None and tr is not None:
                    return clamp((-v[1], -v[0]), t)
                return tr
            if op == '~':
                if v is not None and tr is not None and tr[0] < 0:
                    return clamp((-v[1] - 1, -v[0] - 1), t)
                if v is not None and tr is not None and tr[0] == 0 and v[0] >= 0:
                    return (tr[1] - v[1], tr[1] - v[0])
                return tr
            if op == '+':
                return v if v is not None else tr
            return tr
        if k == 'bin':
            op = e.get('op')
            if op in ('==', '!=', '<', '>', '<=', '>=', '&&', '||'):
                return (0, 1)
            if op == ',':
                return sub(e.get('rhs'))
            l = sub(e.get('lhs'))
            r = sub(e.get('rhs'))
            res = self._arith(op, l, r, t)
            return res if res is not None else tr
        if k == 'assign':
            if e.get('op') == '=':
                r = sub(e.get('rhs'))
                return clamp(r, t) if r is not None else tr
            return tr
        if k == 'cond':
            cc = const_value(unwrap_casts(e.get('c'))) if isinstance(e.get('c'), dict) else None
            if cc is None and isinstance(e.get('c'), dict):
                cc = const_value(e.get('c'))
            if cc is not None:
                # a selection on a compile-time constant (per-instantiation `NeedExpansion ? x : y`): only the live arm
                r = sub(e.get('a') if cc else e.get('b'))
                return r if r is not None else tr
            a = sub(e.get('a'))
            b = sub(e.get('b'))
            j = join(a, b)
            return j if j is not None else tr
        if k == 'call':
            r = self._call(e, func, env, penv, depth)
            return r if r is not None else tr
        if k == 'construct':
            args = e.get('args', [])
            if e.get('copymove') and len(args) == 1:
                return sub(args[0])
            return tr
        if k == 'initlist':
            if len(e.get('elts', [])) == 1:
                return sub(e['elts'][0])
            if not e.get('elts'):
                return (0, 0)
            return tr
        if k == 'valueinit':
            return (0, 0)
        return tr

    def _arith(self, op, l, r, t):
        tr = self.type_interval(t)
        if op == '&':
            # x & m  <=  min(hi(x), hi(m)) for non-negative operands
            cands = []
            if l is not None and l[0] >= 0:
                cands.append(l[1])
            if r is not None and r[0] >= 0:
                cands.append(r[1])
            if cands:
                return (0, min(cands))
            return tr
        if l is None or r is None:
            if op == '%' and r is not None and r[0] > 0:
                return (0, r[1] - 1)
            if op == '>>' and r is not None and r[0] >= 0 and tr is not None and tr[0] >= 0:
                return (0, tr[1] >> r[0])
            return None
        if op == '+':
            return clamp((l[0] + r[0], l[1] + r[1]), t)
        if op == '-':
            return clamp((l[0] - r[1], l[1] - r[0]), t)
        if op == '*':
            c = [l[0] * r[0], l[0] * r[1], l[1] * r[0], l[1] * r[1]]
            return clamp((min(c), max(c)), t)
        if op == '|' or op == '^':
            if l[0] >= 0 and r[0] >= 0:
                n = max(bitlen_hi(l[1]), bitlen_hi(r[1]))
                lo = max(l[0], r[0]) if op == '|' else 0
                return (lo if op == '|' else 0, (1 << n) - 1)
            return tr
        if op == '<<':
            if l[0] >= 0 and 0 <= r[0] and r[1] < 64:
                return clamp((l[0] << r[0], l[1] << r[1]), t)
            return tr
        if op == '>>':
            if l[0] >= 0 and r[0] >= 0:
                return (l[0] >> min(r[1], 63), l[1] >> r[0])
            return tr
        if op == '%':
            if r[0] > 0 and l[0] >= 0:
                return (0, min(l[1], r[1] - 1))
            return tr
        if op == '/':
            if r[0] > 0 and l[0] >= 0:
                return (l[0] // r[1], l[1] // r[0])
            return tr
        return None

    # ---------------------------------------------------------------------- calls
    def _call(self, e, func, env, penv, depth):
        fn = e.get('fn') or ''
        name = e.get('name')
        args = e.get('args', [])
        t = e.get('t')
        tr = self.type_interval(t)
        if fn.startswith('std::min<'):
            a = [self.iv(x, func, env, penv, depth) for x in args[:2]]
            if a[0] is not None and a[1] is not None:
                return (min(a[0][0], a[1][0]), min(a[0][1], a[1][1]))
            known = [x for x in a if x is not None]
            if known and tr is not None:
                return (tr[0], known[0][1])
            return tr
        if fn.startswith('std::max<'):
            a = [self.iv(x, func, env, penv, depth) for x in args[:2]]
            if a[0] is not None and a[1] is not None:
                return (max(a[0][0], a[1][0]), max(a[0][1], a[1][1]))
            return tr
        if fn.startswith('std::distance<') and len(args) == 2:
            # std::distance(A.begin(), it) over a fixed-size array A: 0 .. N; N is excluded when the same iterator has been
            # compared against A.end() on the way here (the position of a found element)
            import re as _re
            a0 = unwrap_casts(args[0])
            if isinstance(a0, dict) and a0.get('k') == 'call' and a0.get('name') in ('begin', 'cbegin') and a0.get('obj') is not None:
                m = _re.match(r'std::array<.*, (\d+)>$', str(a0.get('cls', '')))
                if m:
                    n_el = int(m.group(1))
                    it = unwrap_casts(args[1])
                    found = False
                    if func is not None and isinstance(it, dict) and it.get('k') == 'ref':
                        from .guards import guards_at
                        for c, pol, src in guards_at(func.get('body'), e):
                            c2 = unwrap_casts(c)
                            # it != A.end() (operator!= / ==) taken on the path
                            txt = [x for x in walk(c2) if x.get('k') == 'ref' and x.get('name') == it.get('name')]
                            ends = [x for x in walk(c2) if x.get('k') == 'call' and x.get('name') in ('end', 'cend')]
                            if txt and ends:
                                is_ne = (isinstance(c2, dict) and (c2.get('op') in ('!=',) or 'operator!=' in str(c2.get('fn', ''))))
                                is_eq = (isinstance(c2, dict) and (c2.get('op') in ('==',) or 'operator==' in str(c2.get('fn', ''))))
                                if (is_ne and pol) or (is_eq and not pol):
                                    found = True
                    return (0, n_el - 1 if found else n_el)
            return tr
        if name == 'size' and str(e.get('cls', '')).startswith('std::array<'):
            import re as _re
            m = _re.match(r'std::array<.*, (\d+)>$', str(e.get('cls')))
            if m:
                return (int(m.group(1)), int(m.group(1)))
            return tr
        if fn.startswith('__builtin_clzll') or name == '__builtin_clzll':
            a = self.iv(args[0], func, env, penv, depth) if args else None
            if a is not None and a[0] >= 1:
                return (64 - a[1].bit_length(), 64 - a[0].bit_length())
            if a is not None and a[0] >= 0:
                return (64 - max(1, a[1].bit_length()), 63)
            return (0, 63)
        # operand accessors: bounded by the storage width of the operand
        cls = e.get('cls')
        callee = self.funcs.get(fn)
        if callee is None or callee.get('body') is None:
            return tr
        if depth >= self.max_depth:
            return tr
        # parameter intervals from the arguments
        pen = {}
        for i, p in enumerate(callee.get('params', [])):
            if i < len(args):
                pen[p['name']] = self.iv(args[i], func, env, penv, depth)
            elif 'default' in p:
                pen[p['name']] = self.iv(p['default'], None, {}, {}, depth)
        # implicit object: operand storage width
        obj = e.get('obj')
        this_bits = None
        if obj is not None and cls:
            this_bits = self.operand_storage_bits(cls) or self.operand_storage_bits(str((obj or {}).get('t', '')).replace('const ', ''))
        key = (fn, tuple(sorted((k, v) for k, v in pen.items() if v is not None)), this_bits)
        if key in self._ret_cache:
            return self._ret_cache[key]
        self._ret_cache[key] = tr  # recursion guard
        res = self.ret_interval(callee, pen, this_bits, depth + 1)
        if res is None:
            res = tr
        elif tr is not None:
            res = clamp(res, t)
        self._ret_cache[key] = res
        return res

    def ret_interval(self, callee, pen, this_bits, depth):
        rets = [n for n in walk(callee['body']) if n.get('k') == 'return' and n.get('e') is not None]
        if not rets:
            return None
        # parameters reassigned in the callee lose their bound
        reassigned = set()
        for n in walk(callee['body']):
            if n.get('k') in ('assign',) or (n.get('k') == 'un' and n.get('op') in ('++', '--', 'post++', 'post--')):
                tgt = unwrap_casts(n.get('lhs') if n.get('k') == 'assign' else n.get('e'))
                if isinstance(tgt, dict) and tgt.get('k') == 'ref' and tgt.get('dk') == 'parm':
                    reassigned.add(tgt['name'])
        pen = {k: v for k, v in pen.items() if k not in reassigned}
        sub = Intervals.__new__(Intervals)
        sub.__dict__ = dict(self.__dict__)
        fb = dict(self.fb)
        if this_bits:
            for cn in ('Operand<%d>' % this_bits,):
                fb[(cn, 'storage')] = (0, (1 << this_bits) - 1)
        sub.fb = fb
        sub._local_cache = {}
        env = sub.local_env_with(callee, pen, depth)
        cur = None
        first = True
        for r in rets:
            x = sub.iv(r['e'], callee, env, pen, depth)
            if x is None:
                return None
            cur = x if first else join(cur, x)
            first = False
        return cur

    def local_env_with(self, func, penv, depth):
        """local intervals of func given parameter intervals (not cached)"""
        return self.local_env(func, dict(penv or {}))
