"""Counting loops in normal form: loop_range(func, loop) -> (variable name, first, end (exclusive), step) or None.

Recognises `for (T v = a; v < b; ++v)`, `v <= b`, `b > v`, `v != b`, `v += 1`, a declaration of v in front of the loop
(`T v = a; for (; ...)`, which is also what tsa/normalize.py makes of a while loop), and down-counting loops
`for (v = a; v >= b; --v)` / `v > b` (returned with a negative step and `end` one below the last value).
The variable must not be written anywhere else in the function."""
from .astq import walk, const_value


def _strip(e):
    while isinstance(e, dict) and e.get('k') == 'cast':
        e = e.get('e')
    return e


def _is_var(e, name):
    e = _strip(e)
    return isinstance(e, dict) and e.get('k') == 'ref' and e.get('dk') == 'local' and e.get('name') == name


def _array_size(e):
    """`a.size()` of a std::array<T, N> (not a constant expression through a reference before C++23, but N all the same)"""
    import re
    if isinstance(e, dict) and e.get('k') == 'call' and e.get('name') == 'size' and not e.get('args'):
        m = re.match(r'(?:const )?std::array<.*, (\d+)>$', str(e.get('cls', '')))
        if m:
            return int(m.group(1))
    return None


def loop_range(func, loop):
    if loop.get('k') != 'for':
        return None
    inc = _strip(loop.get('inc'))
    if not isinstance(inc, dict):
        return None
    step = None
    tgt = None
    if inc.get('k') == 'un' and inc.get('op') in ('++', 'post++', '--', 'post--'):
        tgt = _strip(inc.get('e'))
        step = 1 if '++' in inc['op'] else -1
    elif inc.get('k') == 'assign' and inc.get('op') in ('+=', '-='):
        tgt = _strip(inc.get('lhs'))
        c = const_value(_strip(inc.get('rhs')))
        if c is None:
            return None
        step = c if inc['op'] == '+=' else -c
    if not (isinstance(tgt, dict) and tgt.get('k') == 'ref' and tgt.get('dk') == 'local') or not step:
        return None
    name = tgt['name']
    # initial value
    first = None
    init = loop.get('init')
    for n in walk(init) if init else []:
        if n.get('k') == 'var' and n.get('name') == name and 'init' in n:
            first = const_value(n['init'])
        elif n.get('k') == 'assign' and n.get('op') == '=' and _is_var(n.get('lhs'), name):
            first = const_value(n.get('rhs'))
    writes = 0
    for n in walk(func.get('body')):
        if n is inc:
            continue
        if n.get('k') == 'var' and n.get('name') == name and 'init' in n and first is None:
            first = const_value(n['init'])
        elif n.get('k') == 'assign' and _is_var(n.get('lhs'), name) and not any(x is n for x in walk(init) if init):
            writes += 1
        elif n.get('k') == 'un' and n.get('op') in ('++', 'post++', '--', 'post--', '&') and _is_var(n.get('e'), name):
            writes += 1
    if first is None or writes:
        return None
    c = _strip(loop.get('cond'))
    if not (isinstance(c, dict) and c.get('k') == 'bin'):
        return None
    op, l, r = c.get('op'), c.get('lhs'), c.get('rhs')
    if _is_var(r, name) and not _is_var(l, name):
        l, r = r, l
        op = {'<': '>', '>': '<', '<=': '>=', '>=': '<=', '!=': '!=', '==': '=='}.get(op)
    if not _is_var(l, name):
        return None
    b = const_value(_strip(r))
    if b is None:
        b = _array_size(_strip(r))
    if b is None:
        return None
    if step > 0:
        end = {'<': b, '<=': b + 1, '!=': b}.get(op)
    else:
        end = {'>': b, '>=': b - 1, '!=': b}.get(op)
    if end is None:
        return None
    return name, first, end, step
