"""Object-state inventory (engine E2): the ownership tree rooted at
Teakra::Teakra::Impl down to scalar leaves, from the `records` facts."""
from .facts import AnalysisBroken

ROOT = 'Teakra::Teakra::Impl'

STD_SELF_INIT = ('std::bitset', 'std::queue', 'std::vector', 'std::deque', 'std::map', 'std::unordered_map',
                 'std::unordered_set', 'std::set', 'std::basic_string', 'std::shared_ptr', 'std::optional',
                 'std::__cxx11::basic_string')


def classify(tj):
    """kind of a field type: scalar | array | record | pimpl | ref | ptr | function | mutex | atomic | container | other"""
    if tj.get('ref'):
        return 'ref'
    if tj.get('ptr'):
        return 'ptr'
    if 'carray' in tj:
        return 'carray'
    cls = tj.get('cls')
    if cls in ('int', 'bool', 'enum', 'float'):
        return 'scalar'
    if cls == 'record':
        tn = tj.get('tn') or tj.get('name') or ''
        if tn == 'std::array':
            return 'array'
        if tn == 'std::unique_ptr':
            return 'pimpl'
        if tn == 'std::function':
            return 'function'
        if tn in ('std::mutex', 'std::recursive_mutex') or tj.get('name') in ('std::mutex', 'std::recursive_mutex'):
            return 'mutex'
        if tn == 'std::atomic':
            return 'atomic'
        if tn.startswith('std::'):
            return 'container'
        return 'record'
    return 'other'


class Leaf:
    __slots__ = ('path', 'owner', 'field', 'kind', 'tj', 'initialised', 'why', 'line', 'file', 'const')

    def __init__(self, **kw):
        for k, v in kw.items():
            setattr(self, k, v)


class Inventory:
    def __init__(self, F):
        self.F = F
        self.records = F['records']
        self.leaves = []
        self.visited = []

    def rec(self, name):
        r = self.records.get(name)
        if r is None:
            # template specialisations are keyed by their printed name
            for k, v in self.records.items():
                if v.get('qname') == name:
                    return v
        return r

    def ctor_inits(self, rname):
        """member -> number of user constructors initialising it, and number of user ctors"""
        ctors = [f for f in self.F['functions'].values() if f.get('ctor') and f.get('cls') == rname]
        cnt = {}
        for c in ctors:
            for ini in c.get('inits', []):
                if ini.get('member') and ini.get('written'):
                    cnt[ini['member']] = cnt.get(ini['member'], 0) + 1
        return cnt, len(ctors), ctors

    def walk_record(self, rname, path, value_init, depth=0):
        r = self.rec(rname)
        if r is None or depth > 12:
            return
        self.visited.append((path, rname))
        cnt, nctors, ctors = self.ctor_inits(rname)
        # a record without user-provided default constructor that is value-initialised zero-fills its members
        zero_by_owner = value_init and not r.get('user_default_ctor') and not r.get('user_declared_ctor')
        for b in r.get('bases', []):
            bn = b.get('s')
            if self.rec(bn) is not None:
                self.walk_record(bn, path, zero_by_owner, depth + 1)
        for fl in r['fields']:
            tj = fl['t']
            kind = classify(tj)
            has_init = 'init' in fl
            by_ctor = nctors > 0 and cnt.get(fl['name'], 0) == nctors
            inited = has_init or by_ctor or zero_by_owner
            why = 'in-class initialiser' if has_init else ('constructor mem-initialiser' if by_ctor else
                                                           ('value-initialised by owner' if zero_by_owner else 'none'))
            self._field(r, fl, tj, kind, path + '.' + fl['name'], inited, why, depth)

    def _field(self, r, fl, tj, kind, path, inited, why, depth):
        mk = lambda k, ini, w: self.leaves.append(Leaf(path=path, owner=r['name'], field=fl['name'], kind=k, tj=tj,
                                                       initialised=ini, why=w, line=fl.get('l'), file=r.get('file'),
                                                       const=bool(tj.get('const'))))
        if kind == 'scalar':
            mk('scalar', inited, why)
        elif kind in ('ref', 'ptr', 'function'):
            mk('wiring:' + kind, inited or kind != 'ptr', why)
        elif kind == 'mutex':
            mk('sync', True, 'self-initialising')
        elif kind == 'atomic':
            mk('atomic', inited, why)
        elif kind == 'container':
            tn = tj.get('tn') or tj.get('name')
            mk('container:' + tn, True, 'self-initialising')
        elif kind in ('array', 'carray'):
            et = tj['ta'][0]['t'] if kind == 'array' else tj.get('elem', {})
            ek = classify(et)
            if ek == 'scalar':
                mk('scalar[]', inited, why)
            elif ek == 'atomic':
                mk('atomic[]', inited, why)
            elif ek == 'record':
                self.walk_record(et.get('s'), path + '[]', inited and why != 'none' and why != 'constructor mem-initialiser' or inited, depth + 1)
            elif ek == 'container':
                mk('container[]', True, 'self-initialising')
            else:
                self._field(r, fl, et, ek, path + '[]', inited, why, depth + 1)
        elif kind == 'pimpl':
            inner = tj['ta'][0]['t']
            # pimpl objects are created with new T(...) / make_unique<T>(...): members rely on T's own initialisers
            self.walk_record(inner.get('s'), path + '->', False, depth + 1)
        elif kind == 'record':
            self.walk_record(tj.get('s'), path, inited and why in ('in-class initialiser', 'value-initialised by owner'), depth + 1)
        else:
            mk('other', True, 'unclassified')

    def build(self, root=ROOT):
        if self.rec(root) is None:
            raise AnalysisBroken('state inventory: root record %s not found' % root)
        self.walk_record(root, 'Teakra', False)
        return self.leaves
