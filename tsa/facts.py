"""Fact acquisition for the teakra static checks.

Builds (or loads from a content-addressed cache) the merged, de-duplicated
facts produced by tsa-extract for every translation unit of the *current*
working tree of the repository.  Nothing here executes teakra code.
"""
import hashlib
import json
import os
import pickle
import shutil
import subprocess
import sys
import tempfile
import time
from concurrent.futures import ThreadPoolExecutor

VERIF = os.path.dirname(os.path.dirname(os.path.abspath(__file__)))
EXTRACT = os.path.join(VERIF, 'tsa', 'extract', 'tsa-extract')
CACHE = os.path.join(VERIF, '.cache')
RESOURCE_DIR = '/usr/lib/llvm-14/lib/clang/14.0.6'
EXTRACTOR_VERSION = '5'


class AnalysisBroken(Exception):
    """The analysis itself cannot run / an anchor vanished (exit code 2)."""


def repo_root():
    return os.path.realpath(os.environ.get('VERIF_REPO', '/repo'))


def tree_hash(repo):
    h = hashlib.sha256()
    h.update(EXTRACTOR_VERSION.encode())
    try:
        with open(os.path.join(VERIF, 'tsa', 'extract', 'tsa_extract.cc'), 'rb') as f:
            h.update(f.read())
    except OSError:
        pass
    for extra in ('normalize.py', 'norm.py', 'loops.py', 'astq.py', os.path.join('tables', 'vocabulary.json')):
        try:
            with open(os.path.join(VERIF, 'tsa', extra), 'rb') as f:
                h.update(f.read())
        except OSError:
            h.update(b'<none>')
    paths = []
    for top in ('src', 'include', 'tests', 'CMakeLists.txt', 'CMakeModules', 'externals/CMakeLists.txt'):
        p = os.path.join(repo, top)
        if os.path.isfile(p):
            paths.append(p)
        elif os.path.isdir(p):
            for d, dirs, files in os.walk(p):
                dirs.sort()
                for fn in sorted(files):
                    paths.append(os.path.join(d, fn))
    for p in paths:
        h.update(os.path.relpath(p, repo).encode())
        try:
            with open(p, 'rb') as f:
                h.update(f.read())
        except OSError:
            h.update(b'<unreadable>')
    h.update(repo.encode())
    return h.hexdigest()[:24]


def _compile_db(repo, scratch):
    bdir = os.path.join(scratch, 'cm')
    r = subprocess.run(['cmake', '-S', repo, '-B', bdir, '-G', 'Ninja',
                        '-DCMAKE_EXPORT_COMPILE_COMMANDS=ON', '-DCMAKE_BUILD_TYPE=RelWithDebInfo'],
                       stdout=subprocess.PIPE, stderr=subprocess.STDOUT, text=True)
    dbp = os.path.join(bdir, 'compile_commands.json')
    if r.returncode != 0 or not os.path.exists(dbp):
        raise AnalysisBroken('cmake could not configure %s:\n%s' % (repo, r.stdout[-2000:]))
    db = json.load(open(dbp))
    out = []
    seen = set()
    for e in db:
        f = os.path.realpath(e['file'])
        if f in seen:
            continue
        seen.add(f)
        import shlex
        args = shlex.split(e['command'])
        flags = []
        skip = False
        for i, a in enumerate(args[1:]):
            if skip:
                skip = False
                continue
            if a in ('-o', '-MF', '-MT', '-MQ'):
                skip = True
                continue
            if a in ('-c', '-MD', '-MMD', '-Werror', '-Wfatal-errors', '-pedantic-errors') or a.startswith('-Wno-error='):
                continue
            if a.startswith('-W') or a.startswith('-O') or a == '-g':
                continue
            if os.path.realpath(a) == f:
                continue
            flags.append(a)
        if not any(a.startswith('-std=') for a in flags):
            flags.append('-std=c++17')
        flags += ['-UNDEBUG', '-resource-dir', RESOURCE_DIR, '-Wno-everything', '-ferror-limit=5']
        out.append((f, flags, e.get('directory', bdir)))
    return out


def _skip_unit(rel):
    # the catch2 main of the unit tests holds no teakra code
    return rel in ('tests/main.cpp',) or rel.startswith('externals/')


def _extract_one(repo, src, flags, outp):
    cmd = [EXTRACT, '--root=' + repo, '--out=' + outp, src, '--'] + flags
    r = subprocess.run(cmd, stdout=subprocess.PIPE, stderr=subprocess.STDOUT, text=True)
    ok = r.returncode == 0 and os.path.exists(outp) and os.path.getsize(outp) > 10
    return ok, r.stdout


LIB_DIRS = ('src/',)


def unit_kind(rel):
    """library / tool / test classification of a translation unit"""
    if rel.startswith('tests/'):
        return 'test'
    parts = rel.split('/')
    if rel.startswith('src/') and len(parts) == 2:
        if parts[1] in ('test_generator.cpp',):
            return 'tool'
        return 'lib'
    return 'tool'


def build(repo, verbose=True):
    if not os.path.exists(EXTRACT):
        raise AnalysisBroken('tsa-extract is not built; run setup_cmd (make -C /verif/tsa/extract)')
    t0 = time.time()
    scratch = tempfile.mkdtemp(prefix='tsa-facts-')
    try:
        units = _compile_db(repo, scratch)
        jobs = []
        for i, (src, flags, _d) in enumerate(units):
            rel = os.path.relpath(src, repo)
            if _skip_unit(rel):
                continue
            jobs.append((rel, src, flags, os.path.join(scratch, 'u%d.json' % i)))
        results = {}

        def run(job):
            rel, src, flags, outp = job
            return rel, outp, _extract_one(repo, src, flags, outp)

        with ThreadPoolExecutor(max_workers=min(16, os.cpu_count() or 4)) as ex:
            for rel, outp, (ok, log) in ex.map(run, jobs):
                if not ok:
                    raise AnalysisBroken('tsa-extract failed on %s (the tree does not compile?):\n%s'
                                         % (rel, log[-3000:]))
                results[rel] = outp
        merged = {'functions': {}, 'records': {}, 'enums': {}, 'aliases': {}, 'vars': {},
                  'units': sorted(results), 'repo': repo, 'func_units': {}}
        for rel in sorted(results):
            d = json.load(open(results[rel]))
            for f in d['functions']:
                fid = f['id']
                old = merged['functions'].get(fid)
                if old is not None and (old.get('file'), old.get('line')) != (f.get('file'), f.get('line')):
                    # same signature defined in another file (main, static helpers): keep both
                    fid = '%s@%s' % (fid, f.get('file'))
                    f['id'] = fid
                merged['func_units'].setdefault(fid, []).append(rel)
                if fid not in merged['functions']:
                    f['unit'] = rel
                    merged['functions'][fid] = f
            for r in d['records']:
                if r['name'] not in merged['records']:
                    r['unit'] = rel
                    merged['records'][r['name']] = r
            for e in d['enums']:
                merged['enums'].setdefault(e['name'], e)
            for a in d['aliases']:
                merged['aliases'].setdefault(a['name'], a)
            for v in d['vars']:
                key = v['qname'] + ('@' + v.get('func', '') if v.get('staticlocal') else '')
                merged['vars'].setdefault(key, v)
        _uniquify_locals(merged['functions'])
        from . import normalize
        normalize.normalize(merged)
        merged['extract_wall_s'] = round(time.time() - t0, 2)
        return merged
    finally:
        shutil.rmtree(scratch, ignore_errors=True)


def _uniquify_locals(functions):
    """locals of one function (and of the lambdas nested in it) that share a name get distinct names
       `name@<decl line*1000+col>` so that name-keyed environments cannot confuse them"""
    from .astq import walk
    groups = {}
    for fid, f in functions.items():
        root = fid.split('::<lambda@', 1)[0]
        groups.setdefault(root, []).append(f)
    for root, fs in groups.items():
        decls = {}
        for f in fs:
            for n in walk(f.get('body')):
                if n.get('k') == 'var' and n.get('name') and 'dl' in n:
                    decls.setdefault(n['name'], set()).add(n['dl'])
        dup = {name for name, ds in decls.items() if len(ds) > 1}
        if not dup:
            continue
        for f in fs:
            for n in walk(f.get('body')):
                k = n.get('k')
                if k == 'var' and n.get('name') in dup and 'dl' in n:
                    n['name'] = '%s@%d' % (n['name'], n['dl'])
                elif k == 'ref' and n.get('name') in dup and 'dl' in n and n.get('dk') in ('local', 'staticlocal'):
                    n['name'] = '%s@%d' % (n['name'], n['dl'])
                elif k == 'lambda':
                    for c in n.get('caps', []):
                        if c.get('name') in dup and 'dl' in c:
                            c['name'] = '%s@%d' % (c['name'], c['dl'])


def load(verbose=False):
    repo = repo_root()
    if not os.path.isdir(os.path.join(repo, 'src')):
        raise AnalysisBroken('repository not found at %s' % repo)
    h = tree_hash(repo)
    cdir = os.path.join(CACHE, h)
    cfile = os.path.join(cdir, 'facts.pkl')
    if os.path.exists(cfile):
        try:
            with open(cfile, 'rb') as f:
                facts = pickle.load(f)
            facts['cache'] = 'hit'
            try:
                os.utime(cdir, None)
            except OSError:
                pass
            facts['tree_hash'] = h
            return facts
        except Exception:
            pass
    facts = build(repo, verbose)
    facts['tree_hash'] = h
    try:
        os.makedirs(cdir, exist_ok=True)
        tmp = cfile + '.%d.tmp' % os.getpid()
        with open(tmp, 'wb') as f:
            pickle.dump(facts, f, protocol=pickle.HIGHEST_PROTOCOL)
        os.replace(tmp, cfile)
        # keep the cache small: drop everything but the 6 most recent trees
        ents = sorted((os.path.getmtime(os.path.join(CACHE, d)), d) for d in os.listdir(CACHE))
        for _, d in ents[:-10]:
            shutil.rmtree(os.path.join(CACHE, d), ignore_errors=True)
    except OSError:
        pass
    facts['cache'] = 'miss'
    return facts


if __name__ == '__main__':
    f = load(True)
    print({k: (len(v) if hasattr(v, '__len__') else v) for k, v in f.items()})
