"""Case-split effect summaries (engine E3): walk a small function with the
conditions over a chosen set of fields decided by a case assignment, forking
on undecided conditions, and collect the effects of every path.

A case maps field name -> int value | ('nz',) for "non-zero, otherwise unknown".
Effects:  ('assign', lhs, op, rhs) ('call', name, args) ('invoke', slot) ('return', expr)
The walker follows calls to methods of the same class (inlined, depth-limited).
"""
from .astq import walk, field_path, unwrap_casts, const_value
from .norm import Renderer, short_fn

NZ = ('nz',)


class CaseWalker:
    def __init__(self, F, cls, max_paths=64):
        self.F = F
        self.funcs = F['functions']
        self.cls = cls
        self.max_paths = max_paths

    # ---- three-valued condition evaluation
    def value(self, e, case):
        """int | NZ | None"""
        e = unwrap_casts(e)
        if not isinstance(e, dict):
            return None
        cv = const_value(e)
        if cv is not None:
            return cv
        p = field_path(e)
        if p is not None and p[2] is None and p[1] in case:
            return case[p[1]]
        k = e.get('k')
        if k == 'ref' and e.get('dk') == 'parm' and ('$' + e['name']) in case:
            return case['$' + e['name']]
        if k == 'call' and e.get('name') == 'GetName' and e.get('obj') is not None:
            o = unwrap_casts(e['obj'])
            if isinstance(o, dict) and o.get('k') == 'ref' and o.get('dk') == 'parm' and ('$' + o['name'] + '.name') in case:
                return case['$' + o['name'] + '.name']
        if k == 'un' and e.get('op') == '!':
            v = self.value(e.get('e'), case)
            if v is None:
                return None
            return 0 if (v == NZ or v) else 1
        if k == 'bin':
            op = e.get('op')
            if op in ('&&', '||'):
                l, r = self.truth(e.get('lhs'), case), self.truth(e.get('rhs'), case)
                if op == '&&':
                    if l is False or r is False:
                        return 0
                    if l is True and r is True:
                        return 1
                    return None
                if l is True or r is True:
                    return 1
                if l is False and r is False:
                    return 0
                return None
            if op in ('==', '!='):
                l, r = self.value(e.get('lhs'), case), self.value(e.get('rhs'), case)
                if l is None or r is None:
                    return None
                if l == NZ or r == NZ:
                    other = r if l == NZ else l
                    if other == 0:
                        return 0 if op == '==' else 1
                    return None
                return int((l == r) == (op == '=='))
        if k == 'call' and e.get('fn') in self.funcs and self.funcs[e['fn']].get('cls') == self.cls and getattr(self, '_vdepth', 0) < 3:
            callee = self.funcs[e['fn']]
            self._vdepth = getattr(self, '_vdepth', 0) + 1
            try:
                sub = CaseWalker(self.F, self.cls, self.max_paths)
                sub._vdepth = self._vdepth
                ps = sub.paths(callee, self._bind(callee, e, case), 1)
            finally:
                self._vdepth -= 1
            rets = set()
            for pth in ps:
                last = pth[-1]
                if last[0] == 'return' and last[1] is not None:
                    try:
                        rets.add(int(last[1]))
                    except ValueError:
                        rets.add(None)
                else:
                    rets.add(None)
            if len(rets) == 1 and None not in rets:
                return rets.pop()
            return None
        if k == 'call' and e.get('name') == 'empty' and e.get('obj') is not None:
            p = field_path(e['obj'])
            if p and p[1] + '.empty' in case:
                return case[p[1] + '.empty']
        return None

    def truth(self, e, case):
        v = self.value(e, case)
        if v is None:
            return None
        return True if (v == NZ or v) else False

    def simp(self, e, case):
        """e with every `c ? a : b` whose condition the case decides replaced by the chosen operand"""
        if isinstance(e, list):
            return [self.simp(x, case) for x in e]
        if not isinstance(e, dict):
            return e
        if e.get('k') == 'cond':
            t = self.truth(e.get('c'), case)
            if t is not None:
                return self.simp(e.get('a') if t else e.get('b'), case)
        if not any(x.get('k') == 'cond' for x in walk(e)):
            return e
        return {k: (self.simp(v, case) if isinstance(v, (dict, list)) and k not in ('owner', 'fta', 'ta', 'elem_of') else v) for k, v in e.items()}

    # ---- walking
    def paths(self, func, case, depth=0):
        r = Renderer(func, inline_locals=True)
        out = []
        self._n = 0

        def run(stmts, i, case, ev, cont):
            """process stmts[i:], then call cont(case, ev)"""
            if self._n > self.max_paths:
                return
            if i >= len(stmts):
                cont(case, ev)
                return
            st = stmts[i]
            k = st.get('k')
            nxt = lambda c, e: run(stmts, i + 1, c, e, cont)
            if k == 'block':
                run(st.get('body', []), 0, case, ev, nxt)
            elif k == 'if':
                t = self.truth(st.get('cond'), case)
                evc = ev + self._expr_events(st.get('cond'), func, r, case, depth)
                branches = [True, False] if t is None else [t]
                for b in branches:
                    c2 = self._assume(st.get('cond'), b, case) if t is None else case
                    body = st.get('then') if b else st.get('else')
                    if body is None:
                        nxt(c2, evc + [('cond', r.r(st.get('cond')), b)] if t is None else evc)
                    else:
                        run([body], 0, c2, evc + ([('cond', r.r(st.get('cond')), b)] if t is None else []), nxt)
            elif k == 'return':
                e2 = ev + (self._expr_events(st.get('e'), func, r, case, depth) if st.get('e') is not None else [])
                e2 = e2 + [('return', r.r(self.simp(st.get('e'), case)) if st.get('e') is not None else None)]
                self._n += 1
                out.append(e2)
            elif k in ('assert',):
                nxt(case, ev)
            elif k == 'decl':
                e2 = ev
                for v in st.get('vars', []):
                    if 'init' in v:
                        e2 = e2 + self._expr_events(v['init'], func, r, case, depth)
                nxt(case, e2)
            elif k == 'switch' and self.value(st.get('cond'), case) is not None and self.value(st.get('cond'), case) != NZ:
                from .sib import switch_arms
                v = self.value(st.get('cond'), case)
                arms = switch_arms(st)
                start = None
                for ai, a in enumerate(arms):
                    if v in a['labels']:
                        start = ai
                if start is None:
                    for ai, a in enumerate(arms):
                        if a['default']:
                            start = ai
                if start is None:
                    nxt(case, ev)
                else:
                    seq = []
                    ai = start
                    while ai < len(arms):
                        seq += arms[ai]['stmts']
                        if not arms[ai]['fallthrough']:
                            break
                        ai += 1
                    # `break` leaves the switch: run the arm up to its break, then continue after the switch
                    flat = []
                    for s_ in seq:
                        if s_.get('k') == 'break':
                            break
                        flat.append(s_)
                    run([self._strip_break(x) for x in flat], 0, case, ev, nxt)
            elif k == 'switch':
                # undecided switch: fork over its arms
                from .sib import switch_arms
                arms = switch_arms(st)
                evc = ev + self._expr_events(st.get('cond'), func, r, case, depth)
                has_default = any(a['default'] for a in arms)
                for ai, a in enumerate(arms):
                    seq = []
                    aj = ai
                    while aj < len(arms):
                        seq += arms[aj]['stmts']
                        if not arms[aj]['fallthrough']:
                            break
                        aj += 1
                    flat = []
                    for s_ in seq:
                        if s_.get('k') == 'break':
                            break
                        flat.append(s_)
                    c2 = dict(case)
                    cp = field_path(unwrap_casts(st.get('cond')))
                    if cp is not None and cp[2] is None and len(a['labels']) == 1 and not a['default']:
                        c2[cp[1]] = list(a['labels'])[0]
                    run([self._strip_break(x) for x in flat], 0, c2, evc + [('arm', tuple(sorted(a['labels'], key=str)))], nxt)
                if not has_default:
                    nxt(case, evc)
            elif k in ('for', 'while', 'do', 'rangefor'):
                # loops are summarised as opaque effects of their body
                e2 = ev + [('loop', k)] + self._expr_events(st, func, r, case, depth)
                nxt(case, e2)
            else:
                e2, c2 = self._stmt_effects(st, func, r, case, depth)
                nxt(c2, ev + e2)

        def done(case, ev):
            self._n += 1
            out.append(ev + [('return', None)])
        run(func['body'].get('body', []), 0, dict(case), [], done)
        return out

    def _bind(self, callee, call, case):
        """case for a callee: state facts carry over, parameters are bound to the known argument values"""
        sub_case = {k2: v2 for k2, v2 in case.items() if not k2.startswith('$')}
        args = call.get('args', [])
        for pi, pr in enumerate(callee.get('params', [])):
            if pi < len(args):
                av = self.value(args[pi], case)
                if av is not None:
                    sub_case['$' + pr['name']] = av
                a = unwrap_casts(args[pi])
                while isinstance(a, dict) and a.get('k') == 'construct' and a.get('copymove') and a.get('args'):
                    a = unwrap_casts(a['args'][0])
                if isinstance(a, dict) and a.get('k') == 'ref' and a.get('dk') == 'parm' and ('$' + a['name'] + '.name') in case:
                    sub_case['$' + pr['name'] + '.name'] = case['$' + a['name'] + '.name']
            elif 'default' in pr:
                dv = const_value(pr['default'])
                if dv is not None:
                    sub_case['$' + pr['name']] = dv
        return sub_case

    @staticmethod
    def _strip_break(st):
        if st.get('k') == 'block' and st.get('body') and st['body'][-1].get('k') == 'break':
            return {'k': 'block', 'l': st.get('l'), 'body': st['body'][:-1]}
        return st

    def _assume(self, cond, b, case):
        c = unwrap_casts(cond)
        c2 = dict(case)
        p = field_path(c)
        if p is not None and p[2] is None:
            c2[p[1]] = NZ if b else 0
        elif isinstance(c, dict) and c.get('k') == 'bin' and c.get('op') in ('==', '!='):
            p = field_path(c.get('lhs'))
            cv = const_value(c.get('rhs'))
            if p is not None and cv is not None and p[2] is None:
                eq = (c['op'] == '==') == b
                if eq:
                    c2[p[1]] = cv
                elif cv == 0:
                    c2[p[1]] = NZ
        return c2

    def _stmt_effects(self, st, func, r, case, depth):
        ev = self._expr_events(st, func, r, case, depth)
        c2 = dict(case)
        for e in ev:
            if e[0] == 'assign':
                # a written field is no longer known
                nm = e[4]
                if nm in c2:
                    cv = e[5]
                    if e[2] == '=' and cv is not None:
                        c2[nm] = cv
                    else:
                        del c2[nm]
        return ev, c2

    def _expr_events(self, e, func, r, case, depth):
        ev = []
        if e is None:
            return ev
        for n in self._post(e):
            k = n.get('k')
            if k == 'assign':
                p = field_path(n.get('lhs'))
                if p is not None:
                    ev.append(('assign', r.r(n['lhs']), n.get('op'), r.r(self.simp(n.get('rhs'), case)), p[1], const_value(n.get('rhs'))))
            elif k == 'un' and n.get('op') in ('++', '--', 'post++', 'post--'):
                p = field_path(n.get('e'))
                if p is not None:
                    ev.append(('assign', r.r(n['e']), n['op'], '', p[1], None))
            elif k == 'opcall' and n.get('op') == '()' and str(n.get('cls', '')).startswith('std::function<'):
                p = field_path(n['args'][0])
                ev.append(('invoke', p[1] if p else '?', tuple(r.r(a) for a in n['args'][1:])))
            elif k == 'opcall' and n.get('op') in ('=', '|=', '&=') and n.get('args'):
                p = field_path(n['args'][0])
                if p is not None:
                    ev.append(('assign', r.r(n['args'][0]), n['op'], r.r(n['args'][1]) if len(n['args']) > 1 else '', p[1], None))
            elif k == 'call':
                fn = n.get('fn')
                callee = self.funcs.get(fn)
                obj = unwrap_casts(n.get('obj')) if n.get('obj') is not None else None
                same = callee is not None and callee.get('cls') == self.cls and (obj is None or obj.get('k') == 'this')
                if same and depth < 4:
                    sub_case = self._bind(callee, n, case)
                    sub = CaseWalker(self.F, self.cls, self.max_paths).paths(callee, sub_case, depth + 1)
                    # merge: if all paths agree use them, else mark as opaque call
                    flat = [tuple(x for x in p if x[0] not in ('return', 'cond')) for p in sub]
                    if len(set(flat)) == 1:
                        ev.append(('call', short_fn(fn).split('::')[-1], ()))
                        ev.extend(flat[0])
                    else:
                        ev.append(('call*', short_fn(fn).split('::')[-1], tuple(sorted(set(flat)))))
                elif n.get('obj') is not None and field_path(n['obj']) is not None and str(n.get('cls', '')).startswith('std::'):
                    p = field_path(n['obj'])
                    ev.append(('method', p[1], n.get('name'), tuple(r.r(a) for a in n.get('args', []))))
                elif fn:
                    ev.append(('call', short_fn(fn), tuple(r.r(a) for a in n.get('args', []))))
        return ev

    @staticmethod
    def _post(e):
        out = []
        from .astq import children

        def rec(n):
            if not isinstance(n, dict):
                return
            if n.get('k') == 'lambda':
                return
            for c in children(n):
                rec(c)
            out.append(n)
        rec(e)
        return out


def observation_only_fields(F, cls):
    """fields of class `cls` that only count or record: never read except to update themselves (++f, f += c) or in a
       const accessor that returns them.  Writes to such a field cannot change what the component does."""
    from .astq import walk, walk_parents
    rec = F['records'].get(cls)
    if not rec:
        return set()
    names = {fl['name'] for fl in rec['fields']}
    bad = set()
    seen = set()
    for fid, f in F['functions'].items():
        body = f.get('body')
        if not isinstance(body, dict):
            continue
        stmts = body.get('body', []) if body.get('k') == 'block' else []
        getter = None
        if f.get('const') and len(stmts) == 1 and stmts[0].get('k') == 'return':
            e = stmts[0].get('e')
            while isinstance(e, dict) and e.get('k') == 'cast':
                e = e.get('e')
            if isinstance(e, dict) and e.get('k') == 'mem' and e.get('cls') == cls:
                getter = e
        for n, parents in walk_parents(body):
            if n.get('k') != 'mem' or n.get('cls') != cls or n.get('name') not in names:
                continue
            seen.add(n['name'])
            if n is getter:
                continue
            par = parents[-1] if parents else {}
            while par.get('k') == 'cast' and len(parents) > 1:
                parents = parents[:-1]
                par = parents[-1]
            own_update = (par.get('k') == 'un' and par.get('op') in ('++', '--', 'post++', 'post--') and len(parents) >= 1
                          and (len(parents) < 2 or parents[-2].get('k') in ('block', 'if', 'for', 'while')))
            plain_store = par.get('k') == 'assign' and par.get('lhs') is n and par.get('op') in ('=', '+=')
            if not (own_update or plain_store):
                bad.add(n['name'])
    return {n for n in seen if n not in bad}
