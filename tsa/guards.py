"""Dominating guards on structured code (part of engine E4).

guards_at(func_body, target) -> list of (cond_expr, polarity) known to hold
whenever control reaches `target`:
  * conditions of enclosing if / while / for statements (then-branch: True,
    else-branch: False), operands of enclosing `&&` (for the rhs) ...
  * ASSERT(c) statements that precede the target in an enclosing block
  * early exits: `if (c) return/throw/UNREACHABLE/continue/break;` that
    precede the target in an enclosing block give !c
  * case labels of an enclosing switch (as ('case', cond, [values]))
No invalidation analysis is done here; callers that rely on a guard about a
mutable location must check that it is not written in between (see
written_between()).
"""
from .astq import children, walk, field_path, unwrap_casts, const_value


def _find_path(root, target):
    """list of (node, key-ish) from root down to target (inclusive)"""
    path = []

    def rec(n):
        if n is target:
            path.append(n)
            return True
        for c in children(n):
            if rec(c):
                path.append(n)
                return True
        return False
    rec(root)
    path.reverse()
    return path


def _always_exits(s):
    """statement never completes normally"""
    if s is None:
        return False
    k = s.get('k')
    if k in ('return', 'break', 'continue', 'unreachable', 'throw'):
        return True
    if k == 'block':
        b = s.get('body', [])
        return any(_always_exits(x) for x in b)
    if k == 'if':
        return s.get('else') is not None and _always_exits(s.get('then')) and _always_exits(s.get('else'))
    if k == 'attributed':
        return _always_exits(s.get('sub'))
    return False


def guards_at(body, target):
    path = _find_path(body, target)
    out = []
    if not path:
        return out
    for i, n in enumerate(path[:-1]):
        nxt = path[i + 1]
        k = n.get('k')
        if k == 'block':
            for st in n.get('body', []):
                if st is nxt:
                    break
                if st.get('k') == 'assert':
                    out.append((st.get('cond'), True, st))
                elif st.get('k') == 'if' and st.get('else') is None and _always_exits(st.get('then')):
                    out.append((st.get('cond'), False, st))
                elif st.get('k') == 'if' and st.get('else') is not None and _always_exits(st.get('else')) \
                        and not _always_exits(st.get('then')):
                    out.append((st.get('cond'), True, st))
                elif st.get('k') == 'block':
                    # a bare nested scope that can only be left normally when its early exits were not taken
                    for inner in st.get('body', []):
                        if inner.get('k') == 'assert':
                            out.append((inner.get('cond'), True, inner))
                        elif inner.get('k') == 'if' and inner.get('else') is None and _always_exits(inner.get('then')):
                            out.append((inner.get('cond'), False, inner))
        elif k == 'if':
            if nxt is n.get('then'):
                out.append((n.get('cond'), True, n))
            elif nxt is n.get('else'):
                out.append((n.get('cond'), False, n))
        elif k in ('while', 'for'):
            if nxt is n.get('body') and n.get('cond') is not None:
                out.append((n.get('cond'), True, n))
        elif k == 'bin' and n.get('op') == '&&':
            if nxt is n.get('rhs'):
                out.append((n.get('lhs'), True, n))
        elif k == 'bin' and n.get('op') == '||':
            if nxt is n.get('rhs'):
                out.append((n.get('lhs'), False, n))
        elif k == 'cond':
            if nxt is n.get('a'):
                out.append((n.get('c'), True, n))
            elif nxt is n.get('b'):
                out.append((n.get('c'), False, n))
        elif k == 'switch':
            # which labels lead to nxt?  handled by callers via enclosing_cases()
            pass
    # split conjunctions
    res = []

    def split(c, pol, src):
        c = unwrap_casts(c)
        if isinstance(c, dict) and c.get('k') == 'bin' and c.get('op') == '&&' and pol:
            split(c['lhs'], True, src)
            split(c['rhs'], True, src)
        elif isinstance(c, dict) and c.get('k') == 'bin' and c.get('op') == '||' and not pol:
            split(c['lhs'], False, src)
            split(c['rhs'], False, src)
        elif isinstance(c, dict) and c.get('k') == 'un' and c.get('op') == '!':
            split(c['e'], not pol, src)
        else:
            res.append((c, pol, src))
    for c, pol, src in out:
        split(c, pol, src)
    return res


def written_between(body, path_field, start_stmt, target):
    """is field `path_field` (cls, name) syntactically written in `body` at all besides `target`?
       (coarse: used to make sure a guard about a field still holds at the use)"""
    from .astq import direct_writes
    for p, n, how in direct_writes(body):
        if (p[0], p[1]) == path_field and n is not target:
            return True
    return False
