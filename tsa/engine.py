"""Rule-engine plumbing: contexts, findings, known findings, evidence files."""
import json
import os
import sys
import time

from . import facts as factsmod
from .facts import AnalysisBroken, VERIF

KNOWN = os.path.join(VERIF, 'known_findings.json')
# scratch runs (selftest / seed sweeps with VERIF_REPO=<worktree>) may redirect their evidence so that they never
# overwrite the registered evidence of /repo
EVID = os.environ.get('VERIF_EVIDENCE_DIR') or os.path.join(VERIF, 'evidence')


class Finding:
    def __init__(self, prop, rule, file, line, function, construct, message, extra=None):
        self.prop = prop
        self.rule = rule
        self.file = file
        self.line = line
        self.function = function or ''
        self.construct = construct
        self.message = message
        self.extra = extra or {}

    @property
    def key(self):
        # never keyed by line number: rule + file + enclosing function + construct
        return '|'.join([self.rule, self.file or '', self.function, self.construct])

    def to_json(self):
        return {'property': self.prop, 'rule': self.rule, 'file': self.file, 'line': self.line,
                'function': self.function, 'construct': self.construct, 'message': self.message,
                'key': self.key, 'extra': self.extra}

    def text(self):
        return '%s:%s: [%s] %s (in %s; instance: %s)' % (self.file, self.line, self.rule, self.message,
                                                        self.function or '-', self.construct)


def _plain_sig(fid):
    """function id with top-level `const` of by-value parameters and the trailing member `const` removed"""
    import re as _re
    if '(' not in fid or '::<lambda@' in fid:
        return fid
    i = fid.rfind('(')
    j = fid.rfind(')')
    if j < i:
        return fid
    params = fid[i + 1:j]
    parts, depth, cur = [], 0, ''
    for ch in params:
        if ch in '<(':
            depth += 1
        elif ch in '>)':
            depth -= 1
        if ch == ',' and depth == 0:
            parts.append(cur)
            cur = ''
        else:
            cur += ch
    parts.append(cur)
    out = []
    for p_ in parts:
        q = p_.strip()
        if q.startswith('const ') and not q.endswith(('&', '*')):
            q = q[len('const '):]
        out.append(q)
    tail = fid[j + 1:]
    if tail.strip() == 'const':
        tail = ''
    return fid[:i + 1] + ','.join(out) + ')' + tail


class Ctx:
    """Per-check context handed to a property's rule module."""

    def __init__(self, prop, tier, F):
        self.prop = prop
        self.tier = tier
        self.F = F
        self.findings = []
        self.rules = {}       # rule id -> {'instances': n, 'obligations': n, 'desc': str, 'floor': n}
        self.samples = []
        self.assumptions = []
        self.notes = []
        self.analysed_functions = set()
        self.opaque = []
        try:
            from . import summ as _summ
            _summ.ENUMS.clear()
            for en, d in F.get('enums', {}).items():
                _summ.ENUMS[en] = {e['v']: '%s::%s' % (d.get('qname', en), e['name']) for e in d.get('enumerators', [])}
        except Exception:
            pass

    # ---- bookkeeping
    def rule(self, rid, desc, floor=1):
        r = self.rules.setdefault(rid, {'desc': desc, 'instances': 0, 'obligations': 0, 'violations': 0,
                                        'floor': floor})
        r['desc'] = desc
        r['floor'] = floor
        return r

    def inst(self, rid, n=1, obligations=None):
        r = self.rules[rid]
        r['instances'] += n
        r['obligations'] += n if obligations is None else obligations

    def oblig(self, rid, n=1):
        self.rules[rid]['obligations'] += n

    def sample(self, s, limit=12):
        if len(self.samples) < limit:
            self.samples.append(s)

    def touch(self, f):
        if isinstance(f, dict):
            self.analysed_functions.add(f.get('id'))
        elif f:
            self.analysed_functions.add(f)

    def report(self, rid, f, node, construct, message, extra=None):
        """f: function fact dict (or (file, function-name) tuple); node: AST node or line"""
        if isinstance(f, dict):
            file, fn = f.get('file'), f.get('id')
            line = f.get('line')
        elif isinstance(f, tuple):
            file, fn = f[0], f[1]
            line = f[2] if len(f) > 2 else 0
        else:
            file, fn, line = str(f), '', 0
        if isinstance(node, dict) and node.get('l'):
            line = node['l']
        elif isinstance(node, int):
            line = node
        # a function that calls a later-added helper which normalisation could not inline (loops, recursion) does not
        # have the shape the rule was written against: a report about it is "cannot analyse", not a violation
        opaque = None
        if isinstance(f, dict):
            kept = set(self.F.get('normalize', {}).get('kept_helpers', ()))
            if kept:
                from .astq import walk as _walk
                for n in _walk(f.get('body')):
                    if n.get('k') == 'call' and n.get('fn') in kept:
                        opaque = n['fn']
                        break
        if opaque:
            self.opaque.append((rid, fn, opaque, message))
            return
        if rid in self.rules:
            self.rules[rid]['violations'] += 1
        self.findings.append(Finding(self.prop, rid, file, line, fn, construct, message, extra))

    # ---- anchors
    def _lookup(self, fid):
        F = self.F['functions']
        f = F.get(fid)
        if f is None:
            # cv-qualification of a member function is not part of what a rule anchors on
            alt = fid[:-len(' const')] if fid.endswith(' const') else fid + ' const'
            f = F.get(alt)
        if f is None:
            # neither is `const` on a by-value parameter (`void f(const u16 n)` is the same function as `void f(u16 n)`)
            if not hasattr(self, '_sig_index'):
                self._sig_index = {}
                for k in F:
                    self._sig_index.setdefault(_plain_sig(k), []).append(k)
            c = self._sig_index.get(_plain_sig(fid), [])
            if len(c) == 1:
                f = F[c[0]]
        return f

    def fn(self, fid):
        f = self._lookup(fid)
        if f is None:
            raise AnalysisBroken('%s: anchor function vanished: %s' % (self.prop, fid))
        self.touch(f)
        return f

    def fn_opt(self, fid):
        f = self._lookup(fid)
        if f:
            self.touch(f)
        return f

    def fns_named(self, qname, cls=None):
        out = [f for f in self.F['functions'].values() if f['qname'] == qname]
        if not out:
            raise AnalysisBroken('%s: anchor function vanished: %s' % (self.prop, qname))
        for f in out:
            self.touch(f)
        return out

    def record(self, name):
        r = self.F['records'].get(name)
        if r is None:
            raise AnalysisBroken('%s: anchor record vanished: %s' % (self.prop, name))
        return r

    def require(self, cond, what):
        if not cond:
            raise AnalysisBroken('%s: %s' % (self.prop, what))


def check_anchor_fields(ctx):
    """the data members the rules of this property refer to by name must still exist (tables/anchors.json)"""
    path = os.path.join(VERIF, 'tsa', 'tables', 'anchors.json')
    try:
        table = json.load(open(path)).get('anchors', {})
    except (OSError, ValueError) as e:
        raise AnalysisBroken('anchors.json unreadable: %s' % e)
    for rn, fields in table.get(ctx.prop, {}).items():
        rec = ctx.F['records'].get(rn)
        if rec is None:
            raise AnalysisBroken('%s: anchor record vanished: %s' % (ctx.prop, rn))
        have = {fl['name'] for fl in rec['fields']}
        missing = [x for x in fields if x not in have]
        if missing:
            raise AnalysisBroken('%s: anchor field vanished: %s::%s (renamed or removed data member; the rules refer to it by name)'
                                 % (ctx.prop, rn, ', '.join(missing)))


def load_known():
    if not os.path.exists(KNOWN):
        return []
    try:
        return json.load(open(KNOWN)).get('findings', [])
    except Exception as e:
        raise AnalysisBroken('known_findings.json unreadable: %s' % e)


def finish(ctx, level, t0, checker_cmd, extra_cov=None, trusted=None):
    """floors, known-finding matching, evidence file, exit code"""
    prop = ctx.prop
    # floors: a rule that matched fewer instances than confirmed on the pinned tree is broken analysis
    fl_path = os.path.join(VERIF, 'tsa', 'tables', 'floors.json')
    if os.path.exists(fl_path):
        try:
            table = json.load(open(fl_path)).get('floors', {})
        except Exception as e:
            raise AnalysisBroken('floors.json unreadable: %s' % e)
        for rid, r in ctx.rules.items():
            if rid in table:
                r['floor'] = table[rid]
    for rid, r in ctx.rules.items():
        if r['instances'] < r['floor'] and r['violations'] == 0:
            raise AnalysisBroken('%s: rule %s matched %d instance(s), floor is %d (%s)'
                                 % (prop, rid, r['instances'], r['floor'], r['desc']))
    if ctx.opaque and not ctx.findings:
        rid, fn, helper, msg = ctx.opaque[0]
        raise AnalysisBroken('%s: rule %s cannot see through helper %s called from %s (not part of the analysed vocabulary and '
                             'not inlinable); the construct it checks was not recognised: %s' % (prop, rid, helper, fn, msg[:200]))
    known = [k for k in load_known() if k.get('property') == prop]
    known_keys = {k['key']: k for k in known if k.get('status') == 'known'}
    new, kn = [], []
    seen = set()
    for fd in ctx.findings:
        if fd.key in seen:
            continue
        seen.add(fd.key)
        if fd.key in known_keys:
            kn.append(fd)
        else:
            new.append(fd)
    os.makedirs(os.path.join(EVID, 'replay'), exist_ok=True)
    for fd in kn:
        print('KNOWN-FINDING: property=%s %s' % (prop, fd.text()))
    rc = 0
    for i, fd in enumerate(new):
        rp = os.path.join(EVID, 'replay', '%s-%d.json' % (prop, i))
        with open(rp, 'w') as f:
            json.dump(fd.to_json(), f, indent=1)
        print(fd.text())
        print('VIOLATION property=%s replay=%s' % (prop, rp))
        rc = 1
    obligations = sum(r['obligations'] for r in ctx.rules.values())
    violated = len(seen)
    discharged = obligations - sum(r['violations'] for r in ctx.rules.values())
    if discharged < 0:
        discharged = 0
    cov = {
        'explanation': 'static analysis of the current source tree (clang-resolved AST facts, no execution): '
                       + '; '.join('%s: %s' % (rid, r['desc']) for rid, r in sorted(ctx.rules.items())),
        'obligations': obligations,
        'discharged': discharged,
        'checker_cmd': checker_cmd,
        'trusted_base': trusted or ['clang 14 front end and constant evaluator', 'tsa-extract fact extractor',
                                    'python rule engine under /verif/tsa', 'frozen instance tables under /verif/tsa/tables'],
        'rules': {rid: {'description': r['desc'], 'instances': r['instances'], 'obligations': r['obligations'],
                        'violations': r['violations'], 'floor': r['floor']} for rid, r in sorted(ctx.rules.items())},
        'units_analysed': ctx.F['units'],
        'functions_in_facts': len(ctx.F['functions']),
        'functions_analysed': len(ctx.analysed_functions),
        'samples': ctx.samples or ['(no sample recorded)'],
        'evaluations': max(1, obligations),
        'distinct_nontrivial': max(2, sum(r['instances'] for r in ctx.rules.values())),
        'rule': 'one evaluation per obligation; an instance is one source construct a rule applies to '
                '(table entry, handler, field, call site, path); all instances are distinct constructs',
        'exhaustive': True,
        'known_findings_matched': [fd.key for fd in kn],
        'new_violations': [fd.to_json() for fd in new],
        'tree_hash': ctx.F.get('tree_hash'),
        'facts_cache': ctx.F.get('cache'),
        'repo': ctx.F.get('repo'),
        'notes': ctx.notes,
    }
    if extra_cov:
        cov.update(extra_cov)
    seed = 0
    try:
        seed = int(os.environ.get('VERIF_SEED', '0'))
    except ValueError:
        pass
    ev = {
        'property_id': prop,
        'tier': ctx.tier,
        'seed': seed,
        'level': level,
        'coverage': cov,
        'assumptions': ctx.assumptions + ['VERIF_SEED is recorded but unused: the analysis is deterministic and exhaustive over its construct space'],
        'wall_s': round(time.time() - t0, 3),
        'violations': len(new),
    }
    os.makedirs(EVID, exist_ok=True)
    with open(os.path.join(EVID, prop + '.json'), 'w') as f:
        json.dump(ev, f, indent=1, sort_keys=False)
    print('%s tier=%s rules=%d instances=%d obligations=%d new=%d known=%d wall=%.2fs facts=%s'
          % (prop, ctx.tier, len(ctx.rules), sum(r['instances'] for r in ctx.rules.values()), obligations,
             len(new), len(kn), time.time() - t0, ctx.F.get('cache')))
    return rc
